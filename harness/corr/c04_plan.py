"""C04 (extension `plan`) - `ExecutionPlan.create_execution_plan` with joins and framework transformations.

Real code: mloda/core/prepare/execution_plan.py (create_execution_plan, add_feature_group_step, invert_link_trekker,
retrieve_links_which_must_be_calculated_before, add_joinstep, run_link, reduce_children_to_one_level, is_valid_join_step,
case_link_fw_is_equal_to_children_fw, find_feature_uuids, handle_append_or_union_joinstep, fill_tfs_by_joinstep, add_tfs,
get_parent_parents), joinstep_collection.py, core/step/*.py.  Model: lean/MlodaVerif/Model/PlanFull.lean, driver `C04_plan`.

Function level: the ARGUMENTS of the real `create_execution_plan` (planned queue, graph, link trekker) are exported to the
model's input format - for real prepared requests (captured by wrappers installed in the check process only) and for
synthetic worlds built from mloda's own classes (Feature, Graph, NodeProperties, Link, LinkTrekker) - and the results of
the three stages (`add_feature_group_step`, `add_joinstep` + JoinStepCollection, `add_tfs`) are compared step by step with the model
(kinds, uuid sets, required sets and every field the executor reads; uuids drawn while planning are identified by the
position of the step that owns them).  Sub-functions are also called directly (reduce_children_to_one_level,
find_feature_uuids, handle_append_or_union_joinstep, JoinStepCollection).
Oracle (from C04's text): every real plan passes planOK; repeated preparations give the same canonical plan.
"""
from __future__ import annotations

import json
from collections import OrderedDict, defaultdict
from typing import Any, Dict, List, Optional, Set, Tuple
from uuid import UUID

from harness.core import Ctx
from harness import fgfactory as F
from harness import schedlib as S

SUITES = {"plan_e2e", "plan_synth", "plan_sub", "plan_witness", "plan_oracle", "plan_variants"}

ASSUMPTIONS = [
    "C04_plan: a link is one number in the model (dict-key identity by Link.__eq__/__hash__ and link.uuid coincide: the links of a request are the elements of one set)",
    "C04_plan: APPEND/UNION links (create_joinstep_in_case_of_append_or_union, set_store_value_to_left_most_index_and_update_feature_group) are not modelled: the model answers "
    "'unsupported' and the correspondence skips (and counts) such inputs; self-join aliases are abstracted to the sets of features whose options contain one of the alias's (key, value) pairs",
    "C04_plan: the iteration orders of the sets the code builds and iterates order-sensitively (level feature sets, get_uuids(), reduced children, right_framework_uuids) are observed on the real run "
    "and handed to the model keyed by site and element set; two set objects with equal elements at one site that iterate differently are counted as 'order_conflict' and not compared",
    "C04_plan: one fresh ExecutionPlan instance per call (tfs_collecion, joinstep_collection, feature_set_collections start empty); artifacts, filters and api input data are not part of the model",
    "C04_plan: the buckets of a feature-group entry are taken from the real group_features_by_compute_framework_and_options on the same set object (as in PlanCore; the grouping itself is C15's model)",
]

DRV = "C04_plan"
FWS = ("pa", "pd", "py", "pa2", "pa3", "pa4", "pa5")

# ------------------------------------------------------------------------------------------------------------------
# capture of the stages of the real create_execution_plan (wrappers in the check process only)

CAP: Dict[str, Any] = {"on": False}
_wrapped = False


def install() -> None:
    global _wrapped
    if _wrapped:
        return
    _wrapped = True
    from mloda.core.prepare.execution_plan import ExecutionPlan as EP

    o_create, o_fg, o_join, o_tfs, o_red = EP.create_execution_plan, EP.add_feature_group_step, EP.add_joinstep, EP.add_tfs, EP.reduce_children_to_one_level

    def create(self: Any, queue: Any, graph: Any, link_trekker: Any) -> Any:
        if not CAP.get("on"):
            return o_create(self, queue, graph, link_trekker)
        CAP.update(args=(queue, graph, link_trekker), ep=self, buckets=[], reduced=[], pre=None, mid=None, fin=None, exc=None, coll=None)
        for el in queue:
            if not hasattr(el[0], "jointype") and isinstance(el[1], set):
                # the same set object iterates the same way inside run_feature_group
                CAP["buckets"].append([[f.uuid for f in b] for b in self.group_features_by_compute_framework_and_options(el[1]).values()])
            else:
                CAP["buckets"].append(None)
        try:
            return o_create(self, queue, graph, link_trekker)
        except BaseException as e:
            CAP["exc"] = e
            raise

    def fg(self: Any, queue: Any, mapping: Any, child_links: Any) -> Any:
        r = o_fg(self, queue, mapping, child_links)
        if CAP.get("on"):
            CAP["pre_objs"] = list(r)
            CAP["pre"] = [snap(x) for x in r]
        return r

    def join(self: Any, pre: Any, lt: Any, graph: Any) -> Any:
        r = o_join(self, pre, lt, graph)
        if CAP.get("on"):
            CAP["mid_objs"] = list(r)
            CAP["mid"] = [snap(x) for x in r]
            CAP["coll"] = [(js.uuid, set(v)) for js, v in self.joinstep_collection.collection.items()]
        return r

    def tfs(self: Any, plan: Any, graph: Any) -> Any:
        r = o_tfs(self, plan, graph)
        if CAP.get("on"):
            CAP["fin"] = [snap(x) for x in r]
        return r

    def red(self: Any, children: Any, graph: Any) -> Any:
        r = o_red(self, children, graph)
        if CAP.get("on"):
            CAP["reduced"].append(list(r))
        return r

    EP.create_execution_plan = create  # type: ignore[method-assign]
    EP.add_feature_group_step = fg  # type: ignore[method-assign]
    EP.add_joinstep = join  # type: ignore[method-assign]
    EP.add_tfs = tfs  # type: ignore[method-assign]
    EP.reduce_children_to_one_level = red  # type: ignore[method-assign]


def snap(x: Any) -> Dict[str, Any]:
    """Raw snapshot (real uuids / classes) of one element of a plan stage."""
    from mloda.core.core.step.feature_group_step import FeatureGroupStep
    from mloda.core.core.step.join_step import JoinStep
    from mloda.core.core.step.transform_frame_work_step import TransformFrameworkStep

    if isinstance(x, tuple):
        return {"kind": "link", "key": (x[0].uuid, x[1], x[2])}
    if isinstance(x, FeatureGroupStep):
        return {"kind": "fg", "outs": list(x.get_uuids()), "req": set(x.required_uuids), "cls": x.feature_group, "fw": x.compute_framework, "cir": set(x.children_if_root),
                "tfsIds": set(x.tfs_ids), "any": x.features.any_uuid, "upload": bool(x.need_to_upload)}  # fmt: skip
    if isinstance(x, JoinStep):
        return {"kind": "join", "uuid": x.uuid, "outs": set(x.get_uuids()), "req": set(x.required_uuids), "fw": x.left_framework, "fw2": x.right_framework, "link": x.link.uuid,
                "jt": x.link.jointype.value, "lfu": set(x.left_framework_uuids), "rfu": list(x.right_framework_uuids)}  # fmt: skip
    if isinstance(x, TransformFrameworkStep):
        return {"kind": "tfs", "uuid": x.uuid, "outs": set(x.get_uuids()), "req": set(x.required_uuids), "fw": x.to_framework, "fw2": x.from_framework, "cls": x.to_feature_group,
                "cls2": x.from_feature_group, "link": x.link_id, "rfu1": x.right_framework_uuid}  # fmt: skip
    return {"kind": "?"}


# ------------------------------------------------------------------------------------------------------------------
# export of the arguments to the model's input format


class Namer:
    def __init__(self) -> None:
        self.u: Dict[Any, int] = {}
        self.c: Dict[Any, int] = {}
        self.f: Dict[Any, int] = {}

    def uu(self, x: Any) -> int:
        return self.u.setdefault(x, len(self.u) + 1)

    def cls(self, x: Any) -> int:
        return self.c.setdefault(x, len(self.c) + 1)

    def fw(self, x: Any) -> int:
        return self.f.setdefault(x, len(self.f) + 1)


def export_world(cap: Dict[str, Any]) -> Tuple[Dict[str, Any], Namer, Dict[str, Any]]:
    queue, graph, lt = cap["args"]
    nm = Namer()
    meta: Dict[str, Any] = {"links": 0, "order_conflict": False, "jts": set(), "same_cls": False}
    for u in list(graph.nodes.keys()):
        nm.uu(u)
    anc = [[nm.uu(k), [nm.uu(a) for a in v]] for k, v in list(graph.parent_to_children_mapping.items())]
    adj = [[nm.uu(k), [nm.uu(a) for a in v]] for k, v in list(graph.adjacency_list.items())]
    fw, cls = [], []
    for u, n in list(graph.nodes.items()):
        if n.feature is None:
            continue
        fw.append([nm.uu(u), nm.fw(n.feature.get_compute_framework())])
        cls.append([nm.uu(u), nm.cls(n.feature_group_class)])
    links: Dict[Any, Any] = {}
    data = []
    for key, v in lt.data.items():
        links[key[0].uuid] = key[0]
        data.append([[nm.uu(key[0].uuid), nm.fw(key[1]), nm.fw(key[2])], [nm.uu(x) for x in v]])
    q = []
    for el, bk in zip(queue, cap["buckets"]):
        if bk is None:
            links[el[0].uuid] = el[0]
            q.append(["l", [nm.uu(el[0].uuid), nm.fw(el[1]), nm.fw(el[2])]])
        else:
            q.append(["f", nm.cls(el[0]), [[nm.uu(x) for x in b] for b in bk]])
    order = [[nm.uu(k), [nm.uu(x) for x in v]] for k, v in lt.order.items()]
    jl = []

    def alias_set(alias: Any) -> Any:
        """the nodes whose options contain one of the alias's (key, value) pairs (what check_pointer looks at)"""
        if alias is None:
            return None
        out = []
        for u2, n2 in list(graph.nodes.items()):
            if n2.feature is not None and any(k_ == _k and v == _v for k_, v in n2.feature.options.items() for _k, _v in alias.items()):
                out.append(nm.uu(u2))
        return out

    for u, l in links.items():
        jl.append([nm.uu(u), l.jointype.value, nm.cls(l.left_feature_group), nm.cls(l.right_feature_group), alias_set(l.self_left_alias), alias_set(l.self_right_alias)])
        meta["jts"].add(l.jointype.value)
        if l.left_feature_group == l.right_feature_group:
            meta["same_cls"] = True
    meta["links"] = len(jl)
    classes = list(nm.c.keys())
    sub = [[nm.c[a], nm.c[b]] for a in classes for b in classes if a is not b and issubclass(a, b)]
    # iteration orders observed on the real run
    ords: List[List[Any]] = []
    seen: Dict[Tuple[int, frozenset], List[int]] = {}

    def add(site: int, lst: List[Any]) -> None:
        ids = [nm.uu(x) for x in lst]
        k = (site, frozenset(ids))
        if k in seen:
            if seen[k] != ids:
                meta["order_conflict"] = True
            return
        seen[k] = ids
        ords.append([site, ids])

    for s_ in cap.get("pre") or []:
        if s_["kind"] == "fg" and s_["any"] is not None:
            add(0, [s_["any"]] + [x for x in s_["outs"] if x != s_["any"]])
            add(1, s_["outs"])
    for r in cap.get("reduced") or []:
        add(2, r)
    for s_ in cap.get("mid") or []:
        if s_["kind"] == "join":
            add(3, s_["rfu"])
    n0 = len(nm.u) + 1000
    world = {"anc": anc, "adj": adj, "fw": fw, "cls": cls, "sub": sub, "data": data, "order": order, "links": jl, "ord": ords, "n0": n0, "queue": q}
    return world, nm, meta


# ------------------------------------------------------------------------------------------------------------------
# canonical forms: uuids drawn while planning are named by the position of the step that owns them


def err_of(e: BaseException) -> str:
    return f"{type(e).__name__}: {e}"


def canon_real(steps: Optional[List[Dict[str, Any]]], nm: Namer) -> Optional[List[Dict[str, Any]]]:
    if steps is None:
        return None
    owner: Dict[Any, str] = {}
    for i, s_ in enumerate(steps):
        if s_["kind"] in ("join", "tfs"):
            owner[s_["uuid"]] = f"@{i}"

    def r(u: Any) -> Any:
        if u is None:
            return None
        if u in nm.u:
            return str(nm.u[u])
        return owner.get(u, "ghost")

    def rs(xs: Any) -> List[str]:
        return sorted(r(x) for x in xs)

    out = []
    for s_ in steps:
        k = s_["kind"]
        if k == "link":
            out.append({"kind": "link", "key": [str(nm.u[s_["key"][0]]), nm.f[s_["key"][1]], nm.f[s_["key"][2]]]})
        elif k == "fg":
            out.append({"kind": "fg", "outs": rs(s_["outs"]), "req": rs(s_["req"]), "cls": nm.c[s_["cls"]], "fw": nm.f[s_["fw"]], "cir": rs(s_["cir"]), "tfsIds": rs(s_["tfsIds"]),
                        "any": r(s_["any"]), "upload": s_["upload"]})  # fmt: skip
        elif k == "join":
            out.append({"kind": "join", "uuid": r(s_["uuid"]), "outs": rs(s_["outs"]), "req": rs(s_["req"]), "fw": nm.f[s_["fw"]], "fw2": nm.f[s_["fw2"]], "link": r(s_["link"]),
                        "jt": s_["jt"], "lfu": rs(s_["lfu"]), "rfu": rs(s_["rfu"])})  # fmt: skip
        elif k == "tfs":
            out.append({"kind": "tfs", "uuid": r(s_["uuid"]), "outs": rs(s_["outs"]), "req": rs(s_["req"]), "fw": nm.f[s_["fw"]], "fw2": nm.f[s_["fw2"]], "cls": nm.c.get(s_["cls"], 0),
                        "cls2": nm.c.get(s_["cls2"], 0), "link": r(s_["link"]), "rfu1": r(s_["rfu1"])})  # fmt: skip
        else:
            out.append({"kind": "?"})
    return out


def canon_model(steps: Optional[List[Dict[str, Any]]], n0: int) -> Optional[List[Dict[str, Any]]]:
    if steps is None:
        return None
    owner: Dict[int, str] = {}
    for i, s_ in enumerate(steps):
        if s_["kind"] in ("join", "tfs"):
            owner[s_["uuid"]] = f"@{i}"

    def r(u: Any) -> Any:
        if u is None:
            return None
        if u < n0:
            return str(u)
        return owner.get(u, "ghost")

    def rs(xs: Any) -> List[str]:
        return sorted(r(x) for x in set(xs))

    out = []
    for s_ in steps:
        k = s_["kind"]
        if k == "link":
            out.append({"kind": "link", "key": [str(s_["key"][0]), s_["key"][1], s_["key"][2]]})
        elif k == "fg":
            out.append({"kind": "fg", "outs": rs(s_["outs"]), "req": rs(s_["req"]), "cls": s_["cls"], "fw": s_["fw"], "cir": rs(s_["cir"]), "tfsIds": rs(s_["tfsIds"]), "any": r(s_["any"]),
                        "upload": s_["upload"]})  # fmt: skip
        elif k == "join":
            out.append({"kind": "join", "uuid": r(s_["uuid"]), "outs": rs(s_["outs"]), "req": rs(s_["req"]), "fw": s_["fw"], "fw2": s_["fw2"], "link": r(s_["link"]), "jt": s_["jt"],
                        "lfu": rs(s_["lfu"]), "rfu": rs(s_["rfu"])})  # fmt: skip
        else:
            out.append({"kind": "tfs", "uuid": r(s_["uuid"]), "outs": rs(s_["outs"]), "req": rs(s_["req"]), "fw": s_["fw"], "fw2": s_["fw2"], "cls": s_["cls"], "cls2": s_["cls2"],
                        "link": r(s_["link"]), "rfu1": r(s_["rfu1"])})  # fmt: skip
    return out


def canon_coll(coll: Any, mid: Optional[List[Dict[str, Any]]], is_model: bool, nm: Optional[Namer], n0: int) -> Any:
    if coll is None or mid is None:
        return None
    owner = {s_["uuid"]: f"@{i}" for i, s_ in enumerate(mid) if s_["kind"] == "join"}

    def r(u: Any) -> str:
        if is_model:
            return str(u) if u < n0 else owner.get(u, "ghost")
        assert nm is not None
        return str(nm.u[u]) if u in nm.u else owner.get(u, "ghost")

    return sorted([r(k), sorted(r(x) for x in v)] for k, v in coll)


def real_outcome(cap: Dict[str, Any], nm: Namer) -> Dict[str, Any]:
    out: Dict[str, Any] = {"pre": canon_real(cap.get("pre"), nm), "mid": canon_real(cap.get("mid"), nm), "plan": canon_real(cap.get("fin"), nm),
                           "coll": canon_coll(cap.get("coll"), cap.get("mid"), False, nm, 0)}  # fmt: skip
    if cap.get("exc") is not None:
        out["err"] = err_of(cap["exc"])
    return out


def model_outcome(o: Dict[str, Any], n0: int) -> Dict[str, Any]:
    out: Dict[str, Any] = {"pre": canon_model(o.get("pre"), n0), "mid": canon_model(o.get("mid"), n0), "plan": canon_model(o.get("plan"), n0),
                           "coll": canon_coll(o.get("coll"), o.get("mid"), True, None, n0)}  # fmt: skip
    if "err" in o:
        out["err"] = o["err"]
    return out


def same(real: Dict[str, Any], model: Dict[str, Any]) -> bool:
    if ("err" in real) != ("err" in model):
        return False
    if "err" in real and model["err"] not in real["err"]:
        return False
    for k in ("pre", "mid", "coll", "plan"):
        if real.get(k) != model.get(k):
            # a stage the real run did not reach / the model did not report is compared as absent on both sides
            return False
    return True


def waits_oracle(ctx: Ctx, suite: str, case: Any, cap: Dict[str, Any]) -> None:
    """Oracle on the REAL plan, written from the property text and independent of the model: a plan can only 'run to completion'
    as planned when every step waits for what it consumes.  Checked on every plan the real function returned:
    (a) a FeatureGroupStep waits for every ancestor of its features, (b) and for the uuid of every link that a feature of its
    class needs, (c) a JoinStep waits for every ancestor of the (one-level) children that need it and for every link that
    link_trekker.order puts before it, (d) no two transform steps of a plan are equal, (e) add_joinstep / add_tfs neither drop
    nor reorder FeatureGroupSteps, (f) no step waits for the uuid of an object that was thrown away, (g) joins that touch a common
    framework are serialised (JoinStepCollection)."""
    fin, pre = cap.get("fin"), cap.get("pre")
    if fin is None or cap.get("exc") is not None:
        return
    queue, graph, lt = cap["args"]
    anc = graph.parent_to_children_mapping
    feats_of_cls: Dict[Any, Set[Any]] = {}
    for el in queue:
        if not hasattr(el[0], "jointype"):
            feats_of_cls.setdefault(el[0], set()).update(f.uuid for f in el[1])
    by_link: Dict[Any, List[Any]] = {}
    for key, ch in lt.data.items():
        by_link.setdefault(key[0].uuid, []).append(set(ch))

    def bad(what: str, impl: Any, expected: Any) -> None:
        ctx.violation(suite, case, what, impl, expected)

    for s_ in fin:
        if s_["kind"] == "fg":
            need = set()
            for u in s_["outs"]:
                need |= set(anc.get(u, ()))
            if not need <= s_["req"]:
                return bad("a FeatureGroupStep does not wait for an ancestor of one of its features", sorted(map(str, s_["req"])), sorted(map(str, need)))
            cf = feats_of_cls.get(s_["cls"], set())
            links = {l for l, chs in by_link.items() if any(c & cf for c in chs)}
            if not links <= s_["req"]:
                return bad("a FeatureGroupStep does not wait for a link that a feature of its class needs", sorted(map(str, s_["req"])), sorted(map(str, links)))
        elif s_["kind"] == "join":
            chs = by_link.get(s_["link"], [])
            if len(chs) == 1:
                ch = chs[0]
                red = {c for c in ch if not any(c in graph.adjacency_list.get(d, ()) for d in ch)}
                need = set()
                for c in red:
                    need |= set(anc.get(c, ()))
                need |= {k for k, v in lt.order.items() if s_["link"] in v}
                if not need <= s_["req"]:
                    return bad("a JoinStep does not wait for an ancestor of a child that needs it or for a link that link_trekker.order puts before it",
                               sorted(map(str, s_["req"])), sorted(map(str, need)))  # fmt: skip
    # (f) a required uuid that was drawn while planning (neither a feature nor a link) is the uuid of a step of the plan
    inputs = set(graph.nodes.keys()) | set(by_link.keys()) | {el[0].uuid for el in queue if hasattr(el[0], "jointype")} | set(lt.order.keys())
    for v in lt.order.values():
        inputs |= set(v)
    produced = set()
    for s_ in fin:
        produced |= set(s_["outs"])
    for s_ in fin:
        ghosts = [u for u in s_["req"] if u not in inputs and u not in produced]
        if ghosts:
            return bad("a step waits for a uuid drawn while planning that no step of the plan produces", len(ghosts), 0)
    # (g) JoinStepCollection: a JoinStep between two frameworks waits for every earlier JoinStep that touches one of its frameworks
    joins = [s_ for s_ in fin if s_["kind"] == "join"]
    for j, sj in enumerate(joins):
        if sj["fw"] != sj["fw2"]:
            for si in joins[:j]:
                if {si["fw"], si["fw2"]} & {sj["fw"], sj["fw2"]} and not set(si["outs"]) <= sj["req"]:
                    return bad("a JoinStep between two frameworks does not wait for an earlier JoinStep that touches one of its frameworks (overlapping joins may write the same data at once)",
                               sorted(map(str, sj["req"])), sorted(map(str, si["outs"])))  # fmt: skip
    keys = [(s_["fw2"], s_["fw"], s_["cls2"], s_["cls"]) for s_ in fin if s_["kind"] == "tfs"]
    if len(set(keys)) != len(keys):
        return bad("two transform steps of one plan are equal (same from/to framework and feature group)", len(keys), len(set(keys)))
    if pre is not None:
        a = [sorted(map(str, s_["outs"])) for s_ in pre if s_["kind"] == "fg"]
        b = [sorted(map(str, s_["outs"])) for s_ in fin if s_["kind"] == "fg"]
        if a != b:
            return bad("add_joinstep / add_tfs dropped or reordered FeatureGroupSteps", b, a)


def compare_batch(ctx: Ctx, suite: str, items: List[Tuple[Any, Dict[str, Any], Namer, Dict[str, Any], Dict[str, Any]]]) -> List[Dict[str, Any]]:
    """items: (case, world, namer, meta, cap-copy).  Returns the raw model outputs."""
    outs = ctx.driver(DRV).batch([{"op": "C04_plan.create", **w} for _, w, _, _, _ in items])
    for (case, w, nm, meta, cap), o in zip(items, outs):
        waits_oracle(ctx, suite, case, cap)
        real = real_outcome(cap, nm)
        if str(o.get("err", "")).startswith("unsupported"):
            ctx.tag("plan_unsupported", suite)
            continue
        if meta.get("order_conflict"):
            ctx.tag("plan_order_conflict", suite)
            continue
        model = model_outcome(o, w["n0"])
        if "plan" in o and not o.get("composed"):
            ctx.disagree(suite, case, "createPlan", "composition of the stages differs from createPlan")
        if not same(real, model):
            ctx.disagree(suite, {"case": case, "world": w}, real, model)
    return outs


# ------------------------------------------------------------------------------------------------------------------
# synthetic worlds built from mloda's own classes

_POOL: List[Any] = []


def pool() -> List[Any]:
    if not _POOL:
        uid = F.uniq("")
        base = [F.make_group(f"PlC{uid}_{i}", root_data={f"c{i}": [1]}, index_columns=[(f"c{i}",)], frameworks={F.FW_SHORT["pa"]}) for i in range(5)]
        sub0 = F.make_group(f"PlC{uid}_s0", root_data={"s0": [1]}, frameworks={F.FW_SHORT["pa"]}, bases=(base[0],))
        sub1 = F.make_group(f"PlC{uid}_s1", root_data={"s1": [1]}, frameworks={F.FW_SHORT["pa"]}, bases=(base[1],))
        _POOL.extend(base + [sub0, sub1])
    return _POOL


def gen_world(rng: Any) -> Dict[str, Any]:
    """A plausible planner input: source classes, consumer classes below them, links between source classes whose children are
    consumers having ancestors on both sides - plus off-distribution variations (extra keys, inverted keys, random children)."""
    if rng.random() < 0.1:
        return gen_selfjoin_world(rng)
    nfw = rng.choice([1, 2, 2, 3])
    ncls = rng.randint(2, 5)
    classes = rng.sample(range(7), ncls) if rng.random() < 0.3 else list(range(ncls))
    feats: List[Dict[str, Any]] = []
    by_cls: Dict[int, List[int]] = {}
    cls_fw = {c: rng.randrange(nfw) for c in classes}
    nsrc = rng.randint(1, max(1, ncls - 1))
    for ci, c in enumerate(classes):
        nf = rng.randint(1, 3)
        for _ in range(nf):
            i = len(feats)
            fw_ = cls_fw[c] if rng.random() < 0.85 else rng.randrange(nfw)
            parents: List[int] = []
            if ci >= nsrc and feats:
                cand = list(range(i))
                for _ in range(rng.choice([1, 2, 2, 3])):
                    p_ = rng.choice(cand)
                    if p_ not in parents:
                        parents.append(p_)
            elif rng.random() < 0.2 and by_cls.get(c):
                parents = [rng.choice(by_cls[c])]
            feats.append({"cls": c, "fw": fw_, "parents": parents, "opt": rng.choice([0, 0, 0, 1, 2])})
            by_cls.setdefault(c, []).append(i)
    # ancestors
    anc: Dict[int, Set[int]] = {}
    for i, f in enumerate(feats):
        a: Set[int] = set()
        for p_ in f["parents"]:
            a.add(p_)
            a |= anc[p_]
        anc[i] = a
    nlinks = rng.choice([0, 1, 1, 1, 2, 2, 3])
    links, keys = [], []
    for li in range(nlinks):
        if ncls >= 2 and rng.random() < 0.85:
            a_, b_ = rng.sample(classes, 2)
        else:
            a_ = b_ = rng.choice(classes)
        jt = rng.choice(["inner", "inner", "left", "left", "outer", "outer", "right"] + (["append", "union"] if rng.random() < 0.1 else []))
        links.append({"jt": jt, "lcls": a_, "rcls": b_})
        if a_ == b_ and rng.random() < 0.7:
            links[-1]["lal"] = rng.choice([None, {"g": 1}, {"g": 1}, {"g": 2}])
            links[-1]["ral"] = rng.choice([None, {"g": 2}, {"g": 2}, {"g": 1}, {"g": 3}])
        # children: features with ancestors in both classes (or random)
        both = [i for i in range(len(feats)) if any(feats[x]["cls"] == a_ for x in anc[i]) and any(feats[x]["cls"] == b_ for x in anc[i])]
        if both and rng.random() < 0.85:
            ch = rng.sample(both, rng.randint(1, min(3, len(both))))
        else:
            withp = [i for i in range(len(feats)) if anc[i]]
            cand_ch = withp if (withp and rng.random() < 0.8) else list(range(len(feats)))
            ch = rng.sample(cand_ch, rng.randint(1, min(3, len(cand_ch))))
        fa = feats[by_cls[a_][0]]["fw"]
        fb = feats[by_cls[b_][0]]["fw"]
        r0 = rng.random()
        if r0 < 0.7:
            lf, rf = fa, fb
        elif r0 < 0.85:
            lf, rf = fb, fa
        else:
            lf, rf = rng.randrange(nfw), rng.randrange(nfw)
        keys.append({"link": li, "lf": lf, "rf": rf, "children": ch, "inq": True})
        if rng.random() < 0.15:
            # a second key of the same link (the other orientation), in data and/or in the queue
            keys.append({"link": li, "lf": rf, "rf": lf, "children": rng.sample(ch, rng.randint(1, len(ch))), "inq": rng.random() < 0.5})
        if rng.random() < 0.07:
            keys[-1]["only_swapped"] = True  # the queue holds the key the other way round than data
    order = []
    if nlinks >= 2 and rng.random() < 0.7:
        for li in range(nlinks):
            later = [x for x in range(nlinks) if x != li and rng.random() < 0.4]
            if later:
                order.append([li, later])
    # queue: classes in order, every link entry somewhere after the first class entry
    q: List[List[Any]] = [["f", c] for c in classes]
    for ki, k in enumerate(keys):
        if k["inq"]:
            pos = rng.randint(1, len(q)) if rng.random() < 0.8 else rng.randint(0, len(q))
            q.insert(pos, ["l", ki])
    return {"nfw": nfw, "feats": feats, "links": links, "keys": keys, "order": order, "queue": q}


def gen_selfjoin_world(rng: Any) -> Dict[str, Any]:
    """One source class in two or three option variants (one step each), a link of the class with itself whose aliases name two of
    the variants, consumers with parents in the variants; variations: frameworks, missing aliases, aliases matching nothing, a third variant."""
    nfw = rng.choice([1, 1, 2])
    f0 = rng.randrange(nfw)
    f1 = f0 if rng.random() < 0.7 else rng.randrange(nfw)
    nvar = rng.choice([2, 2, 3])
    feats: List[Dict[str, Any]] = []
    for v in range(nvar):
        for _ in range(rng.randint(1, 2)):
            feats.append({"cls": 0, "fw": f0 if v != 1 else f1, "parents": [], "opt": v + 1 if rng.random() < 0.9 else 0})
    src = list(range(len(feats)))
    ncons = rng.randint(1, 2)
    for c in range(ncons):
        ps = []
        for v in (1, 2):
            cand = [i for i in src if feats[i]["opt"] == v]
            if cand:
                ps.append(rng.choice(cand))
        if rng.random() < 0.3:
            ps.append(rng.choice(src))
        feats.append({"cls": 1 + (c if rng.random() < 0.5 else 0), "fw": f0 if rng.random() < 0.8 else rng.randrange(nfw), "parents": sorted(set(ps)) or [0], "opt": 0})
    cons = list(range(len(src), len(feats)))
    lal = rng.choice([{"g": 1}, {"g": 1}, {"g": 1}, None, {"g": 3}])
    ral = rng.choice([{"g": 2}, {"g": 2}, {"g": 2}, None, {"g": 1}])
    links = [{"jt": rng.choice(["inner", "left", "outer", "inner", "right", "append"]), "lcls": 0, "rcls": 0, "lal": lal, "ral": ral}]
    keys = [{"link": 0, "lf": f0, "rf": f1, "children": rng.sample(cons, rng.randint(1, len(cons))), "inq": True}]
    classes = sorted({f["cls"] for f in feats})
    q: List[List[Any]] = [["f", c] for c in classes]
    q.insert(1, ["l", 0])
    return {"nfw": nfw, "feats": feats, "links": links, "keys": keys, "order": [], "queue": q, "selfjoin": True}


def build_world(spec: Dict[str, Any], rng: Any) -> Tuple[Any, Any, Any]:
    """Real (queue, graph, link_trekker) for a synthetic spec."""
    from mloda.core.abstract_plugins.components.feature import Feature
    from mloda.core.abstract_plugins.components.link import Link, JoinSpec
    from mloda.core.abstract_plugins.components.index.index import Index
    from mloda.core.prepare.graph.graph import Graph
    from mloda.core.prepare.graph.properties import NodeProperties
    from mloda.core.prepare.resolve_links import LinkTrekker

    P = pool()
    fws = [F.FW_SHORT[k] for k in FWS]
    uid = F.uniq("")
    graph = Graph()
    fobjs = []
    for i, f in enumerate(spec["feats"]):
        ft = Feature(f"w{uid}_{i}", options={"g": f["opt"]} if f.get("opt") else {})
        ft._set_uuid(UUID(int=rng.getrandbits(128)))
        ft._set_compute_frameworks({fws[f["fw"]]})
        fobjs.append(ft)
        graph.nodes[ft.uuid] = NodeProperties(ft, P[f["cls"]])
    anc: Dict[int, Set[int]] = {}
    for i, f in enumerate(spec["feats"]):
        a: Set[int] = set()
        for p_ in f["parents"]:
            a.add(p_)
            a |= anc[p_]
            graph.adjacency_list[fobjs[p_].uuid].append(fobjs[i].uuid)
        anc[i] = a
        if a:
            graph.parent_to_children_mapping[fobjs[i].uuid] = {fobjs[x].uuid for x in a}
    lobjs = []
    for i, l in enumerate(spec["links"]):
        lobjs.append(Link(l["jt"], JoinSpec(P[l["lcls"]], Index((f"k{i}",))), JoinSpec(P[l["rcls"]], Index((f"r{i}",))), l.get("lal"), l.get("ral")))
    lt = LinkTrekker()
    kobjs = []
    for k in spec["keys"]:
        key = (lobjs[k["link"]], fws[k["lf"]], fws[k["rf"]])
        qkey = (key[0], key[2], key[1]) if k.get("only_swapped") else key
        kobjs.append(qkey)
        lt.data[key] = {fobjs[c].uuid for c in k["children"]}
    for k_, later in spec["order"]:
        lt.order[lobjs[k_].uuid] = {lobjs[x].uuid for x in later}
    queue: List[Any] = []
    for el in spec["queue"]:
        if el[0] == "f":
            queue.append((P[el[1]], {fobjs[i] for i, f in enumerate(spec["feats"]) if f["cls"] == el[1]}))
        else:
            queue.append(kobjs[el[1]])
    return queue, graph, lt


def run_real(queue: Any, graph: Any, lt: Any) -> Dict[str, Any]:
    from mloda.core.prepare.execution_plan import ExecutionPlan

    install()
    CAP["on"] = True
    try:
        try:
            ExecutionPlan(None, None).create_execution_plan(queue, graph, lt)
        except BaseException as e:  # noqa
            if CAP.get("exc") is None:
                CAP["exc"] = e
        cap = dict(CAP)
    finally:
        CAP["on"] = False
    return cap


def synth_suite(ctx: Ctx, n: int) -> None:
    items = []
    for _ in range(n):
        spec = gen_world(ctx.rng)
        queue, graph, lt = build_world(spec, ctx.rng)
        cap = run_real(queue, graph, lt)
        world, nm, meta = export_world(cap)
        fin = cap.get("fin") or []
        kinds = [s_["kind"] for s_ in fin]
        outcome = "plan" if cap.get("exc") is None else type(cap["exc"]).__name__
        ctx.case("plan_synth", spec, "join" in kinds or "tfs" in kinds, synth_outcome=outcome, synth_joins=min(kinds.count("join"), 3), synth_tfs=min(kinds.count("tfs"), 3))
        if spec.get("selfjoin"):
            ctx.tag("synth_selfjoin", outcome + ("+join" if "join" in kinds else ""))
        items.append((spec, world, nm, meta, cap))
    compare_batch(ctx, "plan_synth", items)


# ------------------------------------------------------------------------------------------------------------------
# real prepared requests


def gen_e2e_spec(ctx: Ctx) -> Dict[str, Any]:
    r0 = ctx.rng.random()
    if r0 < 0.08:
        return S.gen_long_chain_spec(ctx.rng)
    if r0 < 0.18:
        return S.gen_units_spec(ctx.rng)
    if r0 < 0.5:
        return S.gen_link_spec(ctx.rng)
    if r0 < 0.65:
        return S.gen_join_dag_spec(ctx.rng)
    if r0 < 0.75:
        return S.gen_chain_spec(ctx.rng)
    if r0 < 0.8:
        return S.gen_star_spec(ctx.rng)
    fws = ctx.rng.choice([("pa",), ("pa", "pd"), ("pd", "py"), ("pa", "pd", "py")])
    return S.gen_spec(ctx.rng, max_feats=6, frameworks=fws, allow_multi_fw=True, allow_options=len(fws) == 1, interleave=len(fws) == 1 and ctx.rng.random() < 0.5)


def prepare_spec(spec: Dict[str, Any]) -> Any:
    if "units" in spec:
        return S.prepare_units(spec)
    if "sources" in spec:
        return S.prepare_link(spec)
    return S.prepare(spec, S.build_classes(spec))


def prepare_captured(spec: Dict[str, Any]) -> Tuple[Optional[Any], Dict[str, Any], Optional[BaseException]]:
    install()
    CAP.clear()
    CAP["on"] = True
    sess, exc = None, None
    try:
        try:
            sess = prepare_spec(spec)
        except BaseException as e:  # noqa
            exc = e
        cap = dict(CAP)
    finally:
        CAP["on"] = False
    return sess, cap, exc


def e2e_suite(ctx: Ctx, n: int) -> None:
    from harness.corr.c04 import join_order_class

    items = []
    checks = []
    for _ in range(n):
        spec = gen_e2e_spec(ctx)
        sess, cap, exc = prepare_captured(spec)
        if "args" not in cap:
            ctx.case("plan_e2e", {"spec": spec}, False, e2e_outcome="rejected-before-planning")
            continue
        world, nm, meta = export_world(cap)
        fin = cap.get("fin") or []
        kinds = [s_["kind"] for s_ in fin]
        ctx.case("plan_e2e", {"spec": spec}, "join" in kinds or "tfs" in kinds, e2e_outcome="plan" if cap.get("exc") is None else type(cap["exc"]).__name__,
                 e2e_joins=min(kinds.count("join"), 4), e2e_tfs=min(kinds.count("tfs"), 4), e2e_links=meta["links"])  # fmt: skip
        items.append(({"spec": spec}, world, nm, meta, cap))
        if sess is not None:
            checks.append((spec, sess))
    compare_batch(ctx, "plan_e2e", items)
    # oracle from the property text on the real plans: planOK, and a second preparation gives the same canonical plan
    reqs, metas = [], []
    for spec, sess in checks:
        exp = S.export_plan(sess)
        first = {"plan": S.canon_plan(exp)}
        try:
            second = {"plan": S.canon_plan(S.export_plan(prepare_spec(spec)))}
        except BaseException as e:  # noqa
            second = {"rejected": type(e).__name__}
        ctx.case("plan_oracle", {"spec": spec}, len(exp["steps"]) >= 3)
        if second != first:
            ctx.violation("plan_oracle", {"spec": spec}, "preparing the same request twice in one process gave different outcomes", second, first,
                          finding_class=join_order_class(spec, second, first))  # fmt: skip
        reqs.append({"op": "C04.planCheck", **S.lean_plan(exp)})
        metas.append((spec, exp))
    for (spec, exp), o in zip(metas, ctx.lean.batch(reqs)):
        if not o.get("planOK"):
            what = "accepted plan is not closed/acyclic/disjoint: " + json.dumps({k: o.get(k) for k in ("nonempty", "disjoint", "ranked")})
            fclass = "mutually-dependent-feature-groups" if ("groups" in spec and S.mutual_groups(spec) and o.get("nonempty") and o.get("disjoint")) else None
            ctx.violation("plan_oracle", {"spec": spec, "plan": S.lean_plan(exp)}, what, o, True, finding_class=fclass)


# ------------------------------------------------------------------------------------------------------------------
# candidate finding of the model (C04.plan_children_order_witness) reproduced end to end


def gen_variants_spec(rng: Any) -> Dict[str, Any]:
    """Left source A requested in two option variants (options are group keys: two FeatureSets, two steps, two compute-framework
    objects), right source B, ONE link A-B, one consumer step that needs both variants and B."""
    return {"variants": True, "fw": rng.choice(["pd", "pa", "py"]), "jt": rng.choice(["inner", "left", "outer"]), "nrows": rng.randint(1, 3)}


def prepare_variants(spec: Dict[str, Any]) -> Any:
    from mloda.user import mloda
    from mloda.core.abstract_plugins.components.link import Link, JoinSpec
    from mloda.core.abstract_plugins.components.index.index import Index

    uid = F.uniq("")
    fw = F.FW_SHORT[spec["fw"]]
    keys = list(range(1, spec["nrows"] + 1))
    A = F.make_group(f"VA{uid}", root_data={f"ka{uid}": keys, f"a1{uid}": [10 * k for k in keys], f"a2{uid}": [100 * k for k in keys]}, index_columns=[(f"ka{uid}",)], frameworks={fw})
    B = F.make_group(f"VB{uid}", root_data={f"kb{uid}": keys, f"b{uid}": [k + 4 for k in keys]}, index_columns=[(f"kb{uid}",)], frameworks={fw})
    Z = F.make_group(f"VZ{uid}", frameworks={fw}, derived={
        f"z1{uid}": {"parents": [f"a1{uid}", f"b{uid}"], "parent_opts": {f"a1{uid}": {"g": 1}}, "expr": ["add", ["col", f"a1{uid}"], ["col", f"b{uid}"]]},
        f"z2{uid}": {"parents": [f"a2{uid}", f"b{uid}"], "parent_opts": {f"a2{uid}": {"g": 2}}, "expr": ["add", ["col", f"a2{uid}"], ["col", f"b{uid}"]]}})  # fmt: skip
    link = getattr(Link, spec["jt"])(JoinSpec(A, Index((f"ka{uid}",))), JoinSpec(B, Index((f"kb{uid}",))))
    sess = mloda.prepare([f"z1{uid}", f"z2{uid}"], compute_frameworks={fw}, links={link}, plugin_collector=F.collector({A, B, Z}))
    return sess, uid


def variants_suite(ctx: Ctx, n: int, nprep: int) -> None:
    """The same request prepared `nprep` times: the canonical plans must coincide (C04).  On the unchanged tree they do not: the one
    JoinStep is attached to the compute framework of variant 1 or of variant 2 of the left source, depending on the iteration order of
    the children of the link (`C04.plan_children_order_witness`)."""
    items = []
    for _ in range(n):
        spec = gen_variants_spec(ctx.rng)
        canons = []
        for i in range(nprep):
            install()
            CAP.clear()
            CAP["on"] = True
            try:
                try:
                    sess, uid = prepare_variants(spec)
                    canons.append(json.dumps(S.canon_plan(S.export_plan(sess))).replace(uid, ""))
                except BaseException as e:  # noqa
                    canons.append("rejected:" + type(e).__name__)
                cap = dict(CAP)
            finally:
                CAP["on"] = False
            if i == 0 and "args" in cap:
                world, nm, meta = export_world(cap)
                items.append(({"spec": spec}, world, nm, meta, cap))
        ctx.case("plan_variants", {"spec": spec}, True, variants_distinct_plans=len(set(canons)))
        if len(set(canons)) > 1:
            ctx.violation("plan_variants", {"spec": spec}, "preparing the same request several times in one process gave different plans", sorted(set(canons))[1], sorted(set(canons))[0],
                          finding_class="left-source-option-variants-one-link")  # fmt: skip
    compare_batch(ctx, "plan_variants", items)


# ------------------------------------------------------------------------------------------------------------------
# sub-functions called directly


def U(n: int) -> UUID:
    return UUID(int=n + 1)


def sub_suite(ctx: Ctx, n: int) -> None:
    from mloda.core.prepare.execution_plan import ExecutionPlan
    from mloda.core.prepare.graph.graph import Graph

    reqs: List[Dict[str, Any]] = []
    impls: List[Any] = []
    cases: List[Any] = []
    rng = ctx.rng
    empty = {"anc": [], "adj": [], "fw": [], "cls": [], "sub": [], "data": [], "order": [], "links": [], "ord": [], "n0": 1000}
    for _ in range(n):
        # reduce_children_to_one_level: children sets with shared grandchildren (a child with two parents in the set is dropped twice)
        m = rng.randint(2, 7)
        adj = {i: [j for j in range(i + 1, m) if rng.random() < 0.35] for i in range(m)}
        ch = rng.sample(range(m), rng.randint(1, m))
        g = Graph()
        for i, js in adj.items():
            for j in js:
                g.adjacency_list[U(i)].append(U(j))
        try:
            r = sorted(x.int - 1 for x in ExecutionPlan(None, None).reduce_children_to_one_level({U(c) for c in ch}, g))
            impl: Any = {"out": r}
        except KeyError:
            impl = {"err": "KeyError"}
        case = {"fn": "reduce", "adj": [[k, v] for k, v in adj.items()], "children": ch}
        reqs.append({"op": "C04_plan.reduce", **empty, "adj": case["adj"], "children": ch})
        impls.append(impl)
        cases.append(case)
        twice = any(sum(1 for i2 in ch if x in adj[i2]) >= 2 for x in ch)
        ctx.case("plan_sub", case, "err" in impl or len(impl["out"]) < len(ch), sub_fn="reduce", sub_reduce="KeyError" if "err" in impl else ("dropped-twice" if twice else "ok"))
        # find_feature_uuids
        k = rng.randint(1, 4)
        ids = list(range(rng.randint(2, 8)))
        rng.shuffle(ids)
        cuts = sorted(rng.sample(range(1, len(ids)), min(k - 1, len(ids) - 1))) if len(ids) > 1 else []
        fsc = [ids[a:b] for a, b in zip([0] + cuts, cuts + [len(ids)])]
        if rng.random() < 0.2:
            fsc = fsc[:-1]  # some parents in no step
        parents = rng.sample(range(len(ids)), rng.randint(1, len(ids)))
        pset = {U(p_) for p_ in parents}
        plist = list(pset)
        d = ExecutionPlan(None, None).find_feature_uuids(pset, [{U(x) for x in s_} for s_ in fsc])
        impl = [[kk.int - 1, sorted(x.int - 1 for x in v)] for kk, v in d.items()]
        case = {"fn": "findUuids", "parents": [x.int - 1 for x in plist], "fsc": fsc}
        reqs.append({"op": "C04_plan.findUuids", **empty, "parents": case["parents"], "fsc": fsc})
        impls.append({"out": impl})
        cases.append(case)
        ctx.case("plan_sub", case, len(impl) >= 2, sub_fn="findUuids")
    # JoinStepCollection and handle_append_or_union_joinstep on hand-made JoinSteps
    from mloda.core.core.step.join_step import JoinStep
    from mloda.core.prepare.joinstep_collection import JoinStepCollection
    from mloda.core.abstract_plugins.components.link import Link, JoinSpec
    from mloda.core.abstract_plugins.components.index.index import Index

    P = pool()
    fws = [F.FW_SHORT[k] for k in FWS]
    for _ in range(max(4, n // 2)):
        nj = rng.randint(1, 5)
        jss = []
        lid: Dict[Any, int] = {}
        for i in range(nj):
            jt = rng.choice(["inner", "left", "append", "union", "append"])
            l = Link(jt, JoinSpec(P[0], Index((f"a{i}",))), JoinSpec(P[1], Index((f"b{i}",))))
            lid[l.uuid] = 100 + i
            lsz = rng.choice([1, 1, 1, 1, 0, 2])
            rsz = rng.choice([1, 1, 1, 1, 0, 2])
            js = JoinStep(l, fws[rng.randrange(3)], fws[rng.randrange(3)], {U(50 + i)}, {U(x) for x in rng.sample(range(6), lsz)}, {U(x) for x in rng.sample(range(6), rsz)})
            lid[js.uuid] = 200 + i
            jss.append(js)

        def nid(u: Any) -> int:
            return lid[u] if u in lid else u.int - 1

        def mstep(js: Any) -> Dict[str, Any]:
            return {"kind": "join", "uuid": nid(js.uuid), "outs": [nid(js.uuid), nid(js.link.uuid)], "req": sorted(nid(x) for x in js.required_uuids), "fw": fws.index(js.left_framework),
                    "fw2": fws.index(js.right_framework), "link": nid(js.link.uuid), "jt": js.link.jointype.value, "lfu": [nid(x) for x in js.left_framework_uuids],
                    "rfu": [nid(x) for x in js.right_framework_uuids]}  # fmt: skip

        # JoinStepCollection.add: what the last step has to wait for
        coll = JoinStepCollection()
        for js in jss:
            coll.add(js)
        last = jss[-1]
        impl = {"out": sorted(nid(x) for x in coll.get_required_join_uuids(last))}
        case = {"fn": "similar", "coll": [mstep(j) for j in jss[:-1]], "lf": fws.index(last.left_framework), "rf": fws.index(last.right_framework)}
        reqs.append({"op": "C04_plan.similar", **empty, **{k: case[k] for k in ("coll", "lf", "rf")}})
        impls.append(impl)
        cases.append(case)
        ctx.case("plan_sub", case, len(impl["out"]) > 0, sub_fn="similar")
        # handle_append_or_union_joinstep
        plan_in = [mstep(j) for j in jss]
        try:
            res = ExecutionPlan(None, None).handle_append_or_union_joinstep(list(jss))
            impl = {"out": [sorted(nid(x) for x in j.required_uuids) for j in res]}
        except ValueError as e:
            impl = {"err": "This should not happen."} if "This should not happen" in str(e) else {"err": str(e)}
        except (StopIteration, RuntimeError):
            impl = {"err": "StopIteration"}
        case = {"fn": "handleAU", "plan": plan_in}
        reqs.append({"op": "C04_plan.handleAU", **empty, "plan": plan_in})
        impls.append(impl)
        cases.append(case)
        ctx.case("plan_sub", case, True, sub_fn="handleAU", sub_au="err" if "err" in impl else "ok")
    for case, impl, o in zip(cases, impls, ctx.driver(DRV).batch(reqs)):
        fn = case["fn"]
        if fn == "reduce":
            model: Any = {"err": o["err"]} if "err" in o else {"out": sorted(o["out"])}
        elif fn == "findUuids":
            model = {"out": [[k, sorted(v)] for k, v in o["out"]]}
        elif fn == "similar":
            model = {"out": sorted(o["out"])}
        else:
            model = {"err": o["err"]} if "err" in o else {"out": [sorted(set(s_["req"])) for s_ in o["out"]]}
        if model != impl:
            ctx.disagree("plan_sub", case, impl, model)


# ------------------------------------------------------------------------------------------------------------------
# closed witnesses of the Lean theorems replayed on the real code

def _f(cls: int, fw: int, parents: Optional[List[int]] = None, opt: int = 0) -> Dict[str, Any]:
    return {"cls": cls, "fw": fw, "parents": parents or [], "opt": opt}


def _kinds(real: Dict[str, Any]) -> List[str]:
    return [s_["kind"] for s_ in (real.get("plan") or [])]


def _w1(real: Dict[str, Any], o: Dict[str, Any]) -> Optional[str]:
    plan = real.get("plan") or []
    tfs = [f"@{i}" for i, s_ in enumerate(plan) if s_["kind"] == "tfs"]
    joins = [s_ for s_ in plan if s_["kind"] == "join"]
    if len(tfs) != 1 or len(joins) != 2:
        return f"expected one transform step and two join steps, got {_kinds(real)}"
    if tfs[0] not in joins[0]["req"] or tfs[0] in joins[1]["req"]:
        return "expected the first join step to require the transform step and the second one not to"
    if not (set(joins[0]["outs"]) <= set(joins[1]["req"])):
        return "expected the second join step to wait for the first one (joinstep_collection)"
    return None if o.get("planOK") else "expected a runnable plan"


def _w2(real: Dict[str, Any], o: Dict[str, Any]) -> Optional[str]:
    plan = real.get("plan") or []
    tfs = [(i, s_) for i, s_ in enumerate(plan) if s_["kind"] == "tfs"]
    cons = [s_ for s_ in plan if s_["kind"] == "fg" and s_["req"]]
    if len(tfs) != 1 or len(cons) != 2 or len(tfs[0][1]["req"]) != 1:
        return f"expected one shared transform step waiting for one producer, got {_kinds(real)}"
    ref = f"@{tfs[0][0]}"
    with_, without = [c for c in cons if ref in c["req"]], [c for c in cons if ref not in c["req"]]
    if len(with_) != 1 or len(without) != 1 or without[0]["tfsIds"] != ["ghost"] or any(x.startswith("@") for x in without[0]["req"]):
        return "expected exactly one consumer step to wait for the shared transform step, the other for none (tfs_ids = uuid of a discarded object)"
    return None


def _w4(real: Dict[str, Any], o: Dict[str, Any]) -> Optional[str]:
    if "join" in _kinds(real) or "plan" not in real or real["plan"] is None:
        return f"expected a plan without join step, got {_kinds(real)} {real.get('err')}"
    produced = {u for s_ in real["plan"] for u in s_["outs"]}
    dangling = [u for s_ in real["plan"] for u in s_["req"] if u not in produced]
    if not dangling or o.get("planOK"):
        return "expected the consumer to require the uuid of the dropped link (a plan that is not closed)"
    return None


def _w5(real: Dict[str, Any], o: Dict[str, Any]) -> Optional[str]:
    joins = [s_ for s_ in (real.get("plan") or []) if s_["kind"] == "join"]
    if len(joins) != 2 or joins[0]["link"] != joins[1]["link"]:
        return f"expected two join steps of one link, got {_kinds(real)}"
    if not (set(joins[0]["outs"]) & set(joins[1]["outs"])) or o.get("planOK"):
        return "expected overlapping get_uuids() and a plan that is not runnable"
    return None


def _w7(real: Dict[str, Any], o: Dict[str, Any]) -> Optional[str]:
    joins = [s_ for s_ in (real.get("plan") or []) if s_["kind"] == "join"]
    if len(joins) != 2 or joins[1]["link"] not in joins[0]["req"] or joins[0]["link"] not in joins[1]["req"] or o.get("planOK"):
        return "expected two join steps that wait for each other's link uuid"
    return None


def _ntfs(real: Dict[str, Any]) -> Any:
    return _kinds(real).count("tfs")


def _tfs_req(real: Dict[str, Any]) -> Any:
    return tuple(tuple(s_["req"]) for s_ in (real.get("plan") or []) if s_["kind"] == "tfs")


def _join_lfu(real: Dict[str, Any]) -> Any:
    return tuple(tuple(s_["lfu"]) for s_ in (real.get("plan") or []) if s_["kind"] == "join")


def _rfu1(real: Dict[str, Any]) -> Any:
    return tuple(s_["rfu1"] for s_ in (real.get("plan") or []) if s_["kind"] == "tfs")


def _last_any(real: Dict[str, Any]) -> Any:
    fg = [s_ for s_ in (real.get("plan") or []) if s_["kind"] == "fg"]
    return fg[-1]["any"] if fg else None


# the closed witnesses of Props/C04_plan.lean as synthetic worlds (feature index = uuid of the Lean literal)
WITNESSES: List[Dict[str, Any]] = [
    {"name": "C04.plan_tfs_dedup_witness", "expect": _w1,
     "spec": {"feats": [_f(0, 0), _f(1, 1), _f(2, 0, [0, 1]), _f(3, 0, [0, 1])], "links": [{"jt": "inner", "lcls": 0, "rcls": 1}, {"jt": "left", "lcls": 0, "rcls": 1}],
              "keys": [{"link": 0, "lf": 0, "rf": 1, "children": [2]}, {"link": 1, "lf": 0, "rf": 1, "children": [3]}], "order": [],
              "queue": [["f", 0], ["f", 1], ["l", 0], ["f", 2], ["l", 1], ["f", 3]]}},
    {"name": "C04.plan_tfs_shared_producer_witness", "expect": _w2, "variant": _tfs_req, "tries": 40,
     "spec": {"feats": [_f(0, 1, [], 0), _f(0, 1, [], 1), _f(1, 0, [0], 0), _f(1, 0, [1], 1)], "links": [], "keys": [], "order": [], "queue": [["f", 0], ["f", 1]]}},
    {"name": "C04.plan_dropped_join_witness", "expect": _w4,
     "spec": {"feats": [_f(0, 2), _f(1, 1), _f(2, 0, [0, 1])], "links": [{"jt": "inner", "lcls": 0, "rcls": 1}], "keys": [{"link": 0, "lf": 0, "rf": 1, "children": [2]}], "order": [],
              "queue": [["f", 0], ["f", 1], ["l", 0], ["f", 2]]}},
    {"name": "C04.plan_two_orientations_witness", "expect": _w5,
     "spec": {"feats": [_f(0, 0), _f(1, 1), _f(2, 2, [0, 1]), _f(3, 2, [0, 1])], "links": [{"jt": "inner", "lcls": 0, "rcls": 1}],
              "keys": [{"link": 0, "lf": 0, "rf": 1, "children": [2]}, {"link": 0, "lf": 1, "rf": 0, "children": [3]}], "order": [],
              "queue": [["f", 0], ["f", 1], ["l", 0], ["l", 1], ["f", 2], ["f", 3]]}},
    {"name": "C04.plan_any_uuid_order_witness", "expect": lambda real, o: None if _ntfs(real) in (0, 1) and "err" not in real else "expected a plan with zero or one transform step",
     "variant": _ntfs, "tries": 40,
     "spec": {"feats": [_f(0, 0), _f(1, 1), _f(2, 0, [0]), _f(2, 0, [1])], "links": [], "keys": [], "order": [], "queue": [["f", 0], ["f", 1], ["f", 2]]}},
    {"name": "C04.plan_cyclic_order_witness", "expect": _w7,
     "spec": {"feats": [_f(0, 0), _f(1, 0), _f(2, 0, [0, 1]), _f(3, 0, [0, 1])], "links": [{"jt": "inner", "lcls": 0, "rcls": 1}, {"jt": "left", "lcls": 0, "rcls": 1}],
              "keys": [{"link": 0, "lf": 0, "rf": 0, "children": [2]}, {"link": 1, "lf": 0, "rf": 0, "children": [3]}], "order": [[0, [1]], [1, [0]]],
              "queue": [["f", 0], ["f", 1], ["l", 0], ["l", 1], ["f", 2], ["f", 3]]}},
    {"name": "C04.plan_store_val_order_witness", "expect": lambda real, o: None if _last_any(real) in ("1", "2") else f"expected the consumer's any_uuid to be reset to a left uuid, got {_last_any(real)}",
     "variant": _last_any, "tries": 40,
     "spec": {"feats": [_f(0, 0), _f(0, 0), _f(1, 0), _f(1, 0), _f(2, 0, [1, 3])], "links": [{"jt": "inner", "lcls": 0, "rcls": 1}], "keys": [{"link": 0, "lf": 0, "rf": 0, "children": [4]}],
              "order": [], "queue": [["f", 0], ["f", 1], ["l", 0], ["f", 2]]}},
    {"name": "C04.plan_parents_order_witness", "expect": lambda real, o: None if _ntfs(real) == 1 and len(_tfs_req(real)[0]) == 1 else f"expected one transform step waiting for one parent, got {_kinds(real)}",
     "variant": _tfs_req, "tries": 40,
     "spec": {"feats": [_f(0, 1, [], 0), _f(0, 1, [], 1), _f(1, 0, [0, 1])], "links": [], "keys": [], "order": [], "queue": [["f", 0], ["f", 1]]}},
    {"name": "C04.plan_rfu_order_witness", "expect": lambda real, o: None if _rfu1(real) in (("3",), ("4",)) else f"expected right_framework_uuid to be one of the right step's features, got {_rfu1(real)}",
     "variant": lambda real: _rfu1(real), "tries": 40,
     "spec": {"feats": [_f(0, 0), _f(0, 0), _f(1, 1), _f(1, 1), _f(2, 0, [1, 3])], "links": [{"jt": "inner", "lcls": 0, "rcls": 1}], "keys": [{"link": 0, "lf": 0, "rf": 1, "children": [4]}],
              "order": [], "queue": [["f", 0], ["f", 1], ["l", 0], ["f", 2]]}},
    {"name": "C04.plan_union_noop_witness",
     "expect": lambda real, o: None if (_kinds(real) == ["fg", "fg", "join", "fg", "fg"] and real["plan"][4]["req"] == ["1"] and "1" in real["plan"][2]["req"] and real["plan"][2]["fw"] == real["plan"][4]["fw"])
     else "expected the bystander step to require only its ancestor although the JoinStep matches it",
     "spec": {"feats": [_f(0, 0), _f(1, 0), _f(2, 0, [0, 1]), _f(3, 0, [0])], "links": [{"jt": "inner", "lcls": 0, "rcls": 1}], "keys": [{"link": 0, "lf": 0, "rf": 0, "children": [2]}],
              "order": [], "queue": [["f", 0], ["f", 1], ["l", 0], ["f", 2], ["f", 3]]}},
    {"name": "C04.plan_children_order_witness", "expect": lambda real, o: None if _join_lfu(real) in ((("1",),), (("2",),)) else f"expected left_framework_uuids to be one of the two left steps, got {_join_lfu(real)}",
     "variant": _join_lfu, "tries": 40,
     "spec": {"feats": [_f(0, 0, [], 0), _f(0, 0, [], 1), _f(1, 0), _f(2, 0, [0, 2]), _f(2, 0, [1, 2])], "links": [{"jt": "inner", "lcls": 0, "rcls": 1}],
              "keys": [{"link": 0, "lf": 0, "rf": 0, "children": [3, 4]}], "order": [], "queue": [["f", 0], ["f", 1], ["l", 0], ["f", 2]]}},
]


def witness_suite(ctx: Ctx) -> None:
    items, owner = [], []
    for w in WITNESSES:
        for _ in range(min(w.get("tries", 1), 24 if ctx.quick else 60)):
            queue, graph, lt = build_world(w["spec"], ctx.rng)
            cap = run_real(queue, graph, lt)
            world, nm, meta = export_world(cap)
            ctx.case("plan_witness", w["name"], True, witness=w["name"])
            items.append((w["name"], world, nm, meta, cap))
            owner.append(w)
    outs = compare_batch(ctx, "plan_witness", items)
    variants: Dict[str, Set[Any]] = {}
    failed: Set[str] = set()
    for w, (name, world, nm, meta, cap), o in zip(owner, items, outs):
        if name in failed:
            continue
        real = real_outcome(cap, nm)
        why = w["expect"](real, o)
        if why:
            failed.add(name)
            ctx.disagree("plan_witness", name, real, "the real code does not show the witnessed behaviour: " + why)
        elif "variant" in w:
            variants.setdefault(name, set()).add(w["variant"](real))
    for name, vs in variants.items():
        ctx.tag("plan_witness_variants:" + name, len(vs))
        if len(vs) < 2:
            ctx.note(f"{name}: only one of the two iteration orders occurred in this run's real executions")


# ------------------------------------------------------------------------------------------------------------------


def run(ctx: Ctx) -> None:
    ctx.extra["plan_rule"] = (
        "C04_plan: arguments of the real create_execution_plan (real prepared requests: link specs with 2-3 sources, long chains, independent units, joins in the middle of a DAG, "
        "multi-framework DAGs/chains without links; synthetic worlds built from Feature/Graph/Link/LinkTrekker objects) are exported and the three stages of the real function are "
        "compared with the Lean model step by step; non-trivial = the plan has a JOIN or TFS step"
    )
    synth_suite(ctx, ctx.budget(250, 6000))
    sub_suite(ctx, ctx.budget(40, 1500))
    e2e_suite(ctx, ctx.budget(60, 1500))
    variants_suite(ctx, ctx.budget(3, 40), 8)
    witness_suite(ctx)


def search(ctx: Ctx, broken: List[str]) -> None:
    run(ctx)


def replay(ctx: Ctx, body: Dict[str, Any]) -> None:
    """Replays the recorded case of one of this module's suites on the real code (comparison with the model + oracles)."""
    suite, case = body.get("suite"), body.get("case")
    if isinstance(case, dict) and "world" in case and "case" in case:
        case = case["case"]  # recorded disagreement
    if suite in ("plan_synth", "plan_witness") and isinstance(case, dict) and "feats" in case:
        queue, graph, lt = build_world(case, ctx.rng)
        cap = run_real(queue, graph, lt)
        world, nm, meta = export_world(cap)
        ctx.case(suite, case, True)
        compare_batch(ctx, suite, [(case, world, nm, meta, cap)])
    elif suite in ("plan_e2e", "plan_oracle") and isinstance(case, dict) and "spec" in case:
        spec = case["spec"]
        sess, cap, exc = prepare_captured(spec)
        if "args" in cap:
            world, nm, meta = export_world(cap)
            ctx.case("plan_e2e", case, True)
            compare_batch(ctx, "plan_e2e", [(case, world, nm, meta, cap)])
    elif suite == "plan_variants":
        variants_suite(ctx, 3, 8)
    else:
        run(ctx)
