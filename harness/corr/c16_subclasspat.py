"""C16 extension `subclasspat`: the three notations stay equivalent for USER SUBCLASSES of the name-chaining groups, over HISTORIES.

The property quantifies over feature groups that take part in name chaining.  The documented way to write one is to inherit from
`FeatureChainParserMixin` - directly, or by subclassing a stock group (aggregation, missing value, time window, scaling, ...) - and to
declare the class attributes the mixin's docstring lists: PREFIX_PATTERN / SUFFIX_PATTERN (which chained names are mine),
PROPERTY_MAPPING (which option descriptions are mine), IN_FEATURE_SEPARATOR, MIN_IN_FEATURES / MAX_IN_FEATURES.  The main module
only ever runs the stock classes, one request per throw-away universe.  Here the input class is

    universes   1..3 families of classes (stock family = a stock implementation + generated subclasses of it, user family = a
                generated class written directly on the mixin + subclasses): child / grandchild / siblings / control subclasses that
                override nothing, every class overriding any subset of {PREFIX_PATTERN with its own suffix literal, an additional
                SUFFIX_PATTERN, PROPERTY_MAPPING with its own option key, IN_FEATURE_SEPARATOR, MAX_IN_FEATURES}
    histories   several requests in ONE process over one universe: different sets of enabled classes (parent only, subclass
                only, both, with siblings), parent asked before / after / never before its subclass, the same request repeated
                later, every request written as chained name, nested options, JSON document (and the name inside a JSON
                document), the notations evaluated in a random order.

oracle (written from the property text and the documented meaning of class attributes - plain attribute inheritance):
    * a class takes a chained name iff the name fits ITS declared pattern(s) (nearest declaration up the class hierarchy),
      an option / JSON description iff the description is complete for ITS declared property mapping; among the enabled classes
      that take a feature a subclass supersedes its ancestors; exactly one class must remain, otherwise the feature is rejected
      (none found / several found).  Every notation of every request must resolve to exactly that chain of classes,
    * the values are those of applying the operations one at a time, left to right (stock operations evaluated alone by the
      stock classes under their stock names on a separate root, user operations in plain Python) - in every notation,
    * names carrying the suffix of a class that is not enabled are rejected,
    * a request repeated later in the history gives the same outcome, and a request gives the same outcome in a FRESH process
      that builds the same classes and issues only this request (suite subpat_fresh).

suites
  subpat_fn     histories of direct calls of match_feature_group_criteria / input_features / _extract_source_features / the
                group's parameter extraction on the real classes in random class order, judged by the reference above and compared
                with the Lean model of the stock group (C16.matchCriteria / inputFeatures / extractSource / extractParams) after
                transporting the subclass's own suffix literal / option key to the stock ones.
  subpat_e2e    histories of mloda.run_all requests (SYNC) on Pandas / PyArrow / python-dict.
  subpat_fresh  a sample of the e2e (request, notation) pairs re-evaluated in a new interpreter.
"""
from __future__ import annotations

import datetime
import json
import os
import re
import signal
import subprocess
import sys
from typing import Any, Dict, List, Optional, Sequence, Set, Tuple

from harness.core import Ctx, cjson, env_for_subprocess
from harness import fgfactory as F
from harness.corr import c16

SUITES = {"subpat_fn", "subpat_e2e", "subpat_fresh"}
ASSUMPTIONS = [
    "subclasspat: generated suffix literals are lower-case words without '_' that differ from every stock literal tail, so a chained name "
    "fits the patterns of exactly the classes that declare (or inherit) its last literal; the reference nevertheless evaluates the declared "
    "regular expressions themselves (Python re)",
    "subclasspat: an own option key is generated only for families whose property mapping has a single operation key held in a class "
    "attribute (aggregation, missing value, scaling, user family); the subclass then overrides that attribute and PROPERTY_MAPPING together",
    "subclasspat: an additional SUFFIX_PATTERN on a subclass of a STOCK group is exercised at function level only (the stock groups read "
    "their operation parameter from PREFIX_PATTERN alone); end to end it is exercised on the user family",
    "subclasspat: e2e runs use the SYNC mode; reference values of a stock operation come from the stock class run alone under its stock "
    "name on the same framework (what one stock operation computes is C19's / the main module's subject)",
    "subclasspat: the fresh-process comparison re-creates the generated classes under the same names from the recorded universe",
    "subclasspat: subclasses of the stock time window group with an own suffix literal are generated at a low rate; their name notation is the "
    "open finding F-C16-window-subclass-literal (the group's own suffix parser hard-wires 'window'); the function-level model comparison "
    "skips extractParams for exactly these classes",
]

WINDOW_CLASS = "subclass-of-time-window-group-with-own-suffix-literal-written-as-name"

STOCK_E2E = {
    "PandasDataFrame": ["AggregatedFeatureGroup", "MissingValueFeatureGroup", "TimeWindowFeatureGroup"],
    "PyArrowTable": ["AggregatedFeatureGroup", "MissingValueFeatureGroup", "TimeWindowFeatureGroup"],
    "PythonDictFramework": ["MissingValueFeatureGroup"],
}
USER = "User"
USER_OPS = {"neg": lambda v: -v, "dbl": lambda v: 2 * v, "inc": lambda v: v + 1, "sqr": lambda v: v * v}
USER_KEY = "user_op"
N_ROWS = 7

_G: List[Any] = []


def groups() -> Any:
    if not _G:
        _G.append(c16.Groups())
    return _G[0]


# --------------------------------------------------------------------------------------------------------------------
# what the stock classes declare (read from the classes: these ARE the declarations the reference works from)


def stock_decl(fam: str) -> Dict[str, Any]:
    b = groups().bases[fam]
    pat = b.PREFIX_PATTERN
    m = re.search(r"([a-z][a-z_]*)\$$", pat)
    if m is None:
        raise ValueError(f"suffix pattern of {fam} has no literal tail: {pat!r}")
    keyattrs = [(a, v) for a, v in vars(b).items() if a.isupper() and isinstance(v, str) and v in b.PROPERTY_MAPPING and v != "in_features"]
    required = [str(getattr(k, "value", k)) for k, spec in b.PROPERTY_MAPPING.items() if not (isinstance(spec, dict) and "default" in {str(getattr(x, "value", x)) for x in spec})]
    return {
        "fam": fam,
        "head": pat[: m.start(1)],
        "lit": m.group(1),
        "keyattr": keyattrs[0][0] if len(keyattrs) == 1 else None,
        "key": keyattrs[0][1] if len(keyattrs) == 1 else None,
        "required": required,
        "sep": b.IN_FEATURE_SEPARATOR,
        "minin": b.MIN_IN_FEATURES,
        "maxin": b.MAX_IN_FEATURES,
    }


_SD: Dict[str, Dict[str, Any]] = {}


def sd(fam: str) -> Dict[str, Any]:
    if fam == USER:
        return {"fam": USER, "head": r".*__([\w]+)_", "lit": None, "keyattr": "OP_KEY", "key": USER_KEY, "required": [USER_KEY, "in_features"], "sep": "&", "minin": 1, "maxin": 1}
    if fam not in _SD:
        _SD[fam] = stock_decl(fam)
    return _SD[fam]


def stock_tails() -> Set[str]:
    """last '_'-separated word of every stock suffix literal (generated literals avoid them)"""
    out = {"d", "text", "window", "aggr"}
    for fam in groups().bases:
        try:
            out.add(stock_decl(fam)["lit"].rsplit("_", 1)[-1])
        except Exception:
            pass
    return out


# --------------------------------------------------------------------------------------------------------------------
# universes: declarations (plain JSON) -> real classes


def stock_root_name(fam: str) -> str:
    return "@" + fam


def is_stock_root(name: str) -> bool:
    return name.startswith("@")


class Universe:
    """spec = {"fw", "root", "cols", "classes": [decl...]}; decl = {"name","fam","parent","prefix","suffix","key","sep","maxin"}
    (parent: another decl's name, "@<family>" = the stock implementation on fw, "@mixin" = written directly on the mixin)"""

    def __init__(self, spec: Dict[str, Any]):
        self.spec = spec
        self.fw: str = spec["fw"]
        self.decls: Dict[str, Dict[str, Any]] = {d["name"]: d for d in spec["classes"]}
        self.real: Dict[str, Any] = {}
        self.root: Any = None

    # ---- the reference's reading of the declarations: nearest declaration up the hierarchy
    def ancestors(self, name: str) -> List[str]:
        out = []
        cur = name
        while not is_stock_root(cur):
            p = self.decls[cur]["parent"]
            if p == "@mixin":
                break
            out.append(p)
            cur = p
        return out

    def fam(self, name: str) -> str:
        return name[1:] if is_stock_root(name) else self.decls[name]["fam"]

    def declared(self, name: str, attr: str) -> Any:
        cur = name
        while True:
            if is_stock_root(cur):
                s = sd(cur[1:])
                return {"prefix": s["lit"], "suffix": None, "key": s["key"], "sep": s["sep"], "maxin": s["maxin"]}[attr]
            d = self.decls[cur]
            if d.get(attr) is not None:
                return d[attr]
            if d["parent"] == "@mixin":
                return {"prefix": None, "suffix": None, "key": USER_KEY, "sep": "&", "maxin": 1}[attr]
            cur = d["parent"]

    def patterns(self, name: str) -> List[str]:
        head = sd(self.fam(name))["head"]
        return [head + lit + "$" for lit in (self.declared(name, "prefix"), self.declared(name, "suffix")) if lit]

    def literals(self, name: str) -> List[str]:
        return [lit for lit in (self.declared(name, "prefix"), self.declared(name, "suffix")) if lit]

    def all_names(self) -> List[str]:
        fams = []
        for d in self.spec["classes"]:
            if d["fam"] != USER and d["fam"] not in fams:
                fams.append(d["fam"])
        return [stock_root_name(f) for f in fams] + [d["name"] for d in self.spec["classes"]]

    # ---- real classes
    def build(self) -> "Universe":
        G = groups()
        for d in self.spec["classes"]:
            attrs: Dict[str, Any] = {"__module__": F.MODNAME}
            s = sd(d["fam"])
            if d["parent"] == "@mixin":
                parent: Any = None
            elif is_stock_root(d["parent"]):
                parent = G.impls[d["parent"][1:]][self.fw] if self.fw in G.impls[d["parent"][1:]] else G.any_impl(d["parent"][1:])
            else:
                parent = self.real[d["parent"]]
            if d.get("prefix"):
                attrs["PREFIX_PATTERN"] = s["head"] + d["prefix"] + "$"
            if d.get("suffix"):
                attrs["SUFFIX_PATTERN"] = s["head"] + d["suffix"] + "$"
            if d.get("sep"):
                attrs["IN_FEATURE_SEPARATOR"] = d["sep"]
            if d.get("maxin"):
                attrs["MAX_IN_FEATURES"] = d["maxin"]
            if parent is None:
                cls = make_user_root(d["name"], attrs, d.get("key") or USER_KEY)
            else:
                if d.get("key"):
                    pm = parent.PROPERTY_MAPPING
                    old = getattr(parent, s["keyattr"])
                    attrs[s["keyattr"]] = d["key"]
                    attrs["PROPERTY_MAPPING"] = {(d["key"] if k == old else k): v for k, v in pm.items()}
                cls = type(d["name"], (parent,), attrs)
            setattr(F.DYN, d["name"], cls)
            self.real[d["name"]] = cls
        if self.spec.get("root"):
            self.root = F.make_group(self.spec["root"], root_data=decode_cols(self.spec["cols"]))
        return self

    def cls(self, name: str) -> Any:
        if is_stock_root(name):
            G = groups()
            return G.impls[name[1:]][self.fw] if self.fw in G.impls[name[1:]] else G.any_impl(name[1:])
        return self.real[name]

    def forget(self) -> None:
        for n in list(self.real) + ([self.spec["root"]] if self.root is not None else []):
            if hasattr(F.DYN, n):
                delattr(F.DYN, n)
        self.real.clear()
        self.root = None


def make_user_root(name: str, attrs: Dict[str, Any], key: str) -> Any:
    """a feature group written directly on the mixin, following the recipe of the stock groups (operation from the name through the
    class's own pattern attributes, else from the options; source through the mixin's _extract_source_features)"""
    from mloda.core.abstract_plugins.components.feature_chainer.feature_chain_parser import FeatureChainParser
    from mloda.core.abstract_plugins.components.feature_chainer.feature_chain_parser_mixin import FeatureChainParserMixin
    from mloda.core.abstract_plugins.feature_group import FeatureGroup
    from mloda_plugins.feature_group.experimental.default_options_key import DefaultOptionKeys

    def calculate_feature(cls: Any, data: Any, features: Any) -> Any:
        cols = F.to_columns(data)
        new: Dict[str, List[Any]] = {}
        for feature in features.features:
            fname = feature.get_name()
            pats = [p for p in (getattr(cls, "PREFIX_PATTERN", None), getattr(cls, "SUFFIX_PATTERN", None)) if p]
            op, _ = FeatureChainParser.parse_feature_name(fname, pats)
            if op is None:
                op = feature.options.get(cls.OP_KEY)
            if op not in USER_OPS:
                raise ValueError(f"Unsupported user operation: {op}")
            src = cls._extract_source_features(feature)[0]
            new[fname] = [None if v is None else USER_OPS[op](v) for v in cols[src]]
        return F.add_columns(data, new)

    ns = {
        "OP_KEY": key,
        "PROPERTY_MAPPING": {
            key: {**{k: k for k in USER_OPS}, DefaultOptionKeys.context: True, DefaultOptionKeys.strict_validation: True},
            DefaultOptionKeys.in_features: {"explanation": "source", DefaultOptionKeys.context: True},
        },
        "MIN_IN_FEATURES": 1,
        "MAX_IN_FEATURES": 1,
        "calculate_feature": classmethod(calculate_feature),
        **attrs,
    }
    return type(name, (FeatureChainParserMixin, FeatureGroup), ns)


def encode_cols(cols: Dict[str, List[Any]]) -> Dict[str, Any]:
    return {k: ("@days" if k == "reference_time" else v) for k, v in cols.items()}


def decode_cols(cols: Dict[str, Any]) -> Dict[str, List[Any]]:
    return {k: ([datetime.datetime(2024, 1, d) for d in range(1, N_ROWS + 1)] if v == "@days" else list(v)) for k, v in cols.items()}


# --------------------------------------------------------------------------------------------------------------------
# generators


def gen_lit(rng: Any, used: Set[str]) -> str:
    while True:
        w = "".join(rng.choice("abcdefghijklmnopqrstuvwxyz") for _ in range(rng.randint(2, 5)))
        if rng.random() < 0.2:
            w += rng.choice("0123456789")
        if w in used or w in USER_OPS:
            continue
        used.add(w)
        return w


def gen_key(rng: Any, used: Set[str]) -> str:
    while True:
        k = rng.choice(["kind", "how", "op", "mode", "fn"]) + "_" + "".join(rng.choice("abcdefgh") for _ in range(3))
        if k not in used:
            used.add(k)
            return k


SHAPES = ["child", "child", "chain2", "chain2", "siblings", "child+control", "chain2+sibling", "control+child"]


def gen_family(rng: Any, fam: str, used: Set[str], level: str, cname: Any) -> List[Dict[str, Any]]:
    """declarations of one family.  level: "fn" (all overrides) or "e2e" (no extra SUFFIX_PATTERN / separator on stock families)"""
    s = sd(fam)
    decls: List[Dict[str, Any]] = []

    def new(parent: str, kind: str) -> str:
        d: Dict[str, Any] = {"name": cname(), "fam": fam, "parent": parent, "prefix": None, "suffix": None, "key": None, "sep": None, "maxin": None, "kind": kind}
        if kind in ("prefix", "prefix+key", "prefix+suffix"):
            d["prefix"] = gen_lit(rng, used)
        if kind in ("suffix", "prefix+suffix"):
            d["suffix"] = gen_lit(rng, used)
        if kind in ("key", "prefix+key"):
            d["key"] = gen_key(rng, used)
        if kind == "sep":
            d["prefix"] = gen_lit(rng, used)
            d["sep"] = rng.choice(["+", "|", ";"])
            d["maxin"] = rng.choice([None, 2, 3])
        decls.append(d)
        return d["name"]

    def kind(allow_control: bool = False) -> str:
        ks = ["prefix"] * 6
        if s["keyattr"]:
            ks += ["prefix+key", "prefix+key", "key"]
        if level == "fn" or fam == USER:
            ks += ["suffix", "prefix+suffix"]
        if level == "fn" and fam == USER:
            ks += ["sep", "sep", "sep"]
        if allow_control:
            ks += ["control"] * 2
        return rng.choice(ks)

    if fam == USER:
        top = new("@mixin", rng.choice(["prefix", "prefix", "prefix", "suffix", "prefix+suffix"]))
    else:
        top = stock_root_name(fam)
    shape = rng.choice(SHAPES)
    if shape == "child":
        new(top, kind())
    elif shape == "chain2":
        a = new(top, kind())
        new(a, kind(True))
    elif shape == "siblings":
        new(top, kind())
        new(top, kind())
    elif shape == "child+control":
        a = new(top, kind())
        new(a, "control")
    elif shape == "control+child":
        a = new(top, "control")
        new(a, kind())
    else:
        a = new(top, kind())
        new(a, kind(True))
        new(top, kind())
    for d in decls:
        d["shape"] = shape
    return decls


def num_col(rng: Any) -> List[Any]:
    col = [rng.choice([None, rng.randint(-5, 20), rng.randint(0, 9), rng.randint(0, 9) + 0.5]) for _ in range(N_ROWS)]
    if all(v is None for v in col):
        col[rng.randrange(N_ROWS)] = 3
    if col[0] is None and rng.random() < 0.5:
        col[0] = 1
    return col


def gen_op(rng: Any, fam: str) -> Dict[str, Any]:
    if fam == USER:
        return {"g": USER, "p": [rng.choice(sorted(USER_OPS))]}
    return c16.gen_op(groups(), rng, fam, e2e=True)


def suffix_of(fam: str, p: List[Any], lit: str) -> str:
    """the last segment of a chained name for operation p written with the suffix literal `lit`"""
    s = sd(fam)
    if fam == USER:
        return f"{p[0]}_{lit}"
    stock = c16.op_suffix({"g": fam, "p": p})
    if not stock.endswith(s["lit"]):
        raise ValueError(f"stock suffix {stock!r} does not end with the stock literal {s['lit']!r}")
    return stock[: len(stock) - len(s["lit"])] + lit


def options_of(fam: str, p: List[Any], key: Optional[str]) -> Dict[str, Any]:
    if fam == USER:
        return {key or USER_KEY: p[0]}
    d = dict(c16.op_options({"g": fam, "p": p}))
    s = sd(fam)
    if key is not None and s["key"] is not None and key != s["key"]:
        d = {(key if k == s["key"] else k): v for k, v in d.items()}
    return d


# --------------------------------------------------------------------------------------------------------------------
# the reference (property text + documented meaning of the class attributes)


def ref_parse(U: Universe, cname: str, name: str) -> Any:
    """None = not one of the class's names, "ValueError" = fits the pattern but has no source, else the source part"""
    for p in U.patterns(cname):
        if re.match(p, name) is None:
            continue
        parts = name.rsplit("__", 1)
        if len(parts) == 1 or not parts[0]:
            return "ValueError"
        return parts[0]
    return None


def ref_takes(U: Universe, cname: str, name: str, optkeys: Optional[Set[str]]) -> bool:
    """does class `cname` take the feature (name, options)?  optkeys: keys present in the (otherwise valid) options"""
    r = ref_parse(U, cname, name)
    if r == "ValueError":
        return False
    if r is not None:
        return True
    if optkeys is None:
        return False
    s = sd(U.fam(cname))
    required = [(U.declared(cname, "key") if k == s["key"] else k) for k in s["required"]]
    return all(k in optkeys for k in required)


def ref_choose(U: Universe, enabled: Sequence[str], name: str, optkeys: Optional[Set[str]]) -> Tuple[str, Any]:
    """("one", class) | ("none-found", None) | ("multiple", [classes]) among the enabled classes; subclasses supersede ancestors"""
    takers = [c for c in enabled if ref_takes(U, c, name, optkeys)]
    minimal = [c for c in takers if not any(c in U.ancestors(o) for o in takers if o != c)]
    if len(minimal) == 1:
        return "one", minimal[0]
    if not minimal:
        return "none-found", None
    return "multiple", sorted(minimal)


# --------------------------------------------------------------------------------------------------------------------
# suite subpat_fn


FN_FAMS = list(c16.MODELLED) + [USER, USER]


def materialise(q: Dict[str, Any]) -> Optional[Dict[str, Any]]:
    """the option dict of a query (queries are kept JSON-plain so that a replay file reproduces them)"""
    from mloda.user import Feature

    if q["opts"] is None:
        return None
    d = {k: (tuple(v) if isinstance(v, list) else v) for k, v in q["opts"].items()}
    names, how = q.get("in_names"), q.get("in_how")
    if names is not None:
        d["in_features"] = ",".join(names) if how == "str" else frozenset(names) if how == "fset" else Feature(names[0])
    return d


def run_fn_history(ctx: Ctx, rng: Any, spec: Dict[str, Any], queries: List[Dict[str, Any]], lean_acc: List[Tuple[Dict[str, Any], Any, Any]]) -> None:
    from mloda.core.abstract_plugins.components.feature_chainer.feature_chain_parser_mixin import FeatureChainParserMixin
    from mloda.core.abstract_plugins.components.feature_name import FeatureName
    from mloda.user import Feature, Options

    U = Universe(spec).build()
    asked: Set[str] = set()
    try:
        for qi, q in enumerate(queries):
            cname, name = q["cls"], q["name"]
            cls = U.cls(cname)
            fam = U.fam(cname)
            s = sd(fam)
            od = materialise(q)
            o = Options() if od is None else Options(context=dict(od)) if q["where"] == "context" else Options(group=dict(od))
            optkeys = set(od) if od is not None else None
            anc = U.ancestors(cname)
            order = "no-ancestor" if not anc else ("ancestor-asked-before" if any(a in asked or is_stock_root(a) for a in anc) else "ancestor-not-asked-yet")
            asked.add(cname)
            case = {"U": spec, "queries": queries, "at": qi}
            own = [k for k in ("prefix", "suffix", "key", "sep") if not is_stock_root(cname) and U.decls[cname].get(k)]
            ctx.case("subpat_fn", {"U": spec["classes"], "q": q}, not is_stock_root(cname), fn_family=fam, fn_order=order, fn_own="+".join(own) or ("stock" if is_stock_root(cname) else "control"),
                     fn_name_kind=q["name_kind"], fn_opts=q["opts_kind"], fn_depth=len(anc))  # fmt: skip
            # --- match_feature_group_criteria
            exp_m = ref_takes(U, cname, name, optkeys)
            try:
                got_m: Any = cls.match_feature_group_criteria(name, o)
            except Exception as e:
                got_m = c16.errclass(e)
            if got_m is not exp_m:
                ctx.violation("subpat_fn", case, f"{cname} ({fam}; declares {U.patterns(cname)}, key {U.declared(cname, 'key')!r}).match_feature_group_criteria({name!r}, {q['opts_kind']} options) = {got_m}; "
                              f"by its declared attributes: {exp_m} [{order}]", got_m, exp_m)  # fmt: skip
            # --- input_features / _extract_source_features
            r = ref_parse(U, cname, name)
            innames = q.get("in_names")
            sep, maxin, minin = U.declared(cname, "sep"), U.declared(cname, "maxin"), s["minin"]
            if r == "ValueError":
                exp_i: Any = {"err": "ValueError"}
                exp_s: Any = {"err": "ValueError"}
            else:
                parts = r.split(sep) if r is not None else (sorted(innames) if innames is not None else None)
                if parts is None:
                    exp_i = exp_s = None  # no in_features in the options: what happens is the main module's subject
                else:
                    exp_s = sorted(parts)
                    exp_i = {"err": "ValueError"} if (len(parts) < minin or (maxin is not None and len(parts) > maxin)) else sorted(parts)
            try:
                fs = cls().input_features(o, FeatureName(name)) or []
                got_i: Any = sorted(f.get_name() for f in fs)
            except Exception as e:
                got_i = c16.errclass(e)
            try:
                got_s: Any = sorted(cls._extract_source_features(Feature(name, o)))
            except Exception as e:
                got_s = c16.errclass(e)
            mixin_inputs = getattr(cls.input_features, "__func__", cls.input_features) is FeatureChainParserMixin.input_features
            if mixin_inputs and exp_i is not None and got_i != exp_i:
                ctx.violation("subpat_fn", case, f"{cname} ({fam}; declares {U.patterns(cname)}, separator {sep!r}, {minin}..{maxin} inputs).input_features({name!r}) = {got_i}; by its declared attributes: {exp_i} [{order}]",
                              got_i, exp_i)  # fmt: skip
            if exp_s is not None and got_s != exp_s:
                ctx.violation("subpat_fn", case, f"{cname} ({fam}; declares {U.patterns(cname)})._extract_source_features({name!r}) = {got_s}; by its declared attributes: {exp_s} [{order}]", got_s, exp_s)
            # --- Lean model of the stock group, own literal / key transported to the stock ones
            if fam != USER and U.declared(cname, "suffix") is None and U.declared(cname, "sep") == s["sep"] and U.declared(cname, "maxin") == s["maxin"]:
                own_lit, own_key = U.declared(cname, "prefix"), U.declared(cname, "key")
                tname = transport_name(name, own_lit, s["lit"], fam)
                topts = None if od is None else {(s["key"] if k == own_key else (own_key if k == s["key"] and own_key != s["key"] else k)): v for k, v in od.items()}
                to = Options() if topts is None else (Options(context=topts) if q["where"] == "context" else Options(group=topts))
                wire = {"group": fam, "name": tname, "opts": c16.opts_enc(to)}
                lean_acc.append(({"op": "C16.matchCriteria", **wire}, got_m, case))
                try:
                    enc_i: Any = sorted((c16.enc(f) for f in (cls().input_features(o, FeatureName(name)) or [])), key=cjson)
                except Exception as e:
                    enc_i = c16.errclass(e)
                lean_acc.append(({"op": "C16.inputFeatures", **wire}, enc_i, case))
                lean_acc.append(({"op": "C16.extractSource", **wire}, got_s, case))
                if not (fam == "TimeWindowFeatureGroup" and own_lit != s["lit"]):  # its own suffix parser hard-wires the stock literal (see WINDOW_CLASS)
                    try:
                        got_p: Any = c16.real_params(groups(), fam, cls, Feature(name, o))
                    except Exception as e:
                        got_p = c16.errclass(e)
                    lean_acc.append(({"op": "C16.extractParams", **wire}, got_p, case))
    finally:
        U.forget()


def transport_name(name: str, own: str, stock: str, fam: str) -> str:
    """swap the class's own suffix literal and the stock literal at the end of the name (a bijection on names; literals do not overlap)"""
    if own == stock:
        return name
    lead = "__" if sd(fam)["head"].endswith("__") else "_"
    if name.endswith(lead + own):
        return name[: len(name) - len(own)] + stock
    if name.endswith(lead + stock):
        return name[: len(name) - len(stock)] + own
    return name


def gen_fn_history(rng: Any, counter: List[int]) -> Tuple[Dict[str, Any], List[Dict[str, Any]]]:
    used = set(stock_tails())

    def cname() -> str:
        counter[0] += 1
        return f"S16f_{counter[0]}"

    fam = rng.choice(FN_FAMS)
    decls = gen_family(rng, fam, used, "fn", cname)
    G = groups()
    fw = "PandasDataFrame"
    if fam != USER:
        fw = next(f for f in ("PandasDataFrame", "PyArrowTable", "PythonDictFramework") if f in G.impls[fam])
    spec = {"fw": fw, "root": None, "cols": {}, "classes": decls}
    U = Universe(spec)
    names = U.all_names()
    lits: List[str] = []
    for n in names:
        for lit in U.literals(n):
            if lit not in lits:
                lits.append(lit)
    keys: List[str] = []
    for n in names:
        k = U.declared(n, "key")
        if k and k not in keys:
            keys.append(k)
    seps = sorted({U.declared(n, "sep") for n in names})
    queries: List[Dict[str, Any]] = []
    order = list(names)
    rng.shuffle(order)
    # every class is asked at least once, in a random order; then more random questions (repeats included)
    plan = order + [rng.choice(names) for _ in range(rng.randint(2, 6))]
    for cn in plan:
        r = rng.random()
        k = rng.choice([1, 1, 1, 2, 3])
        srcs = [c16.gen_source(rng) for _ in range(k)]
        if len(set(srcs)) != len(srcs):
            srcs = srcs[:1]
        op = gen_op(rng, fam)
        if r < 0.62:
            lit = rng.choice(lits)
            base = rng.choice(seps).join(srcs) if rng.random() < 0.7 else "&".join(srcs)
            if rng.random() < 0.35:
                base += "__" + suffix_of(fam, gen_op(rng, fam)["p"], rng.choice(lits))
            name, kind = base + "__" + suffix_of(fam, op["p"], lit), "literal-of-universe"
            if rng.random() < 0.12:
                name, kind = "__" + suffix_of(fam, op["p"], lit), "no-source"
            elif rng.random() < 0.06:
                name, kind = suffix_of(fam, op["p"], lit), "no-separator"
            elif rng.random() < 0.08:
                name, kind = name + rng.choice(["_", "x", "__", "~0"]), "trailing"
        elif r < 0.72:
            name, kind = srcs[0] + "__" + suffix_of(fam, op["p"], gen_lit(rng, set(used))), "unknown-literal"
        else:
            name, kind = rng.choice(["placeholder", "f1", srcs[0]]), "plain"
        ro = rng.random()
        q: Dict[str, Any] = {"cls": cn, "name": name, "name_kind": kind, "opts": None, "opts_kind": "none", "where": "context", "in_names": None, "in_how": None}
        if ro < 0.55 or kind == "plain" and ro < 0.9:
            key = rng.choice(keys) if keys else None
            d = options_of(fam, op["p"], key)
            q["opts_kind"] = f"complete:{'own-key' if key != sd(fam)['key'] else 'stock-key'}"
            if fam == "GeoDistanceFeatureGroup" and len(srcs) != 2:
                srcs = [srcs[0], srcs[0] + "q"]
            q["in_names"] = list(srcs)
            q["in_how"] = rng.choice(["str", "fset", "feat"]) if len(srcs) == 1 else rng.choice(["fset", "str"])
            if rng.random() < 0.15:
                q["opts_kind"], q["in_names"], q["in_how"] = "no-in_features", None, None  # complete-ness is judged by the keys present
            q["opts"] = {k: (list(v) if isinstance(v, tuple) else v) for k, v in d.items()}
            q["where"] = "context" if rng.random() < 0.75 else "group"
        queries.append(q)
    return spec, queries


def run_fn_suite(ctx: Ctx) -> None:
    rng = ctx.rng
    counter = [0]
    acc: List[Tuple[Dict[str, Any], Any, Any]] = []
    for _ in range(ctx.budget(260, 5000)):
        spec, queries = gen_fn_history(rng, counter)
        run_fn_history(ctx, rng, spec, queries, acc)
    compare_with_model(ctx, acc)


def compare_with_model(ctx: Ctx, acc: List[Tuple[Dict[str, Any], Any, Any]]) -> None:
    if not acc or ctx.lean is None:
        return
    outs = ctx.lean.batch([r for r, _, _ in acc])
    skipped = 0
    for (r, impl, case), o in zip(acc, outs):
        if r["op"] == "C16.inputFeatures" and isinstance(o, dict) and "main" in o:
            o = sorted(o["main"] + o["extras"], key=cjson)
        if r["op"] == "C16.extractSource" and isinstance(o, list):
            o = sorted(o)
        if r["op"] == "C16.extractParams" and isinstance(o, list) and r["group"] == "TextCleaningFeatureGroup":
            o = sorted(o, key=cjson)
            impl = sorted(impl, key=cjson) if isinstance(impl, list) else impl
        se = c16.same_err(impl, o)
        ctx.tag("fn_model_op", r["op"].split(".")[1])
        if se is None:
            skipped += 1
        elif se is False:
            ctx.disagree("subpat_fn", {"request": r, "U": case["U"]["classes"], "q": case["queries"][case["at"]]}, impl, o)
    ctx.tag("fn_model_unmodelled_skipped", "n", skipped)


# --------------------------------------------------------------------------------------------------------------------
# suite subpat_e2e


class RunTimeout(BaseException):
    pass


def run_request(feats: List[Any], fw: str, classes: Set[Any], timeout: float = 8.0) -> Dict[str, Any]:
    from mloda.user import mloda

    tr = c16.make_trace()

    def _alarm(*_a: Any) -> None:
        raise RunTimeout()

    old = signal.signal(signal.SIGALRM, _alarm)
    # repeating: a first alarm that lands at the recursion limit (Feature.__hash__ deep-copies nested options) becomes a RecursionError,
    # which mloda's Options.__deepcopy__ swallows - the next tick raises again
    signal.setitimer(signal.ITIMER_REAL, timeout, 0.5)
    try:
        try:
            res = mloda.run_all(list(feats), compute_frameworks={F.FRAMEWORKS[fw]}, plugin_collector=F.collector(set(classes)), function_extender={tr})
        finally:
            signal.setitimer(signal.ITIMER_REAL, 0)
            signal.signal(signal.SIGALRM, old)
    except RunTimeout:
        return {"ok": False, "kind": "timeout", "msg": f"no result within {timeout}s"}
    except Exception as e:
        s = str(e)
        calc = "Traceback" in s or bool(tr.events)
        kind = "multiple" if "Multiple feature groups" in s else "none-found" if "No feature groups found" in s else ("calc:" if calc else "") + type(e).__name__
        tail = s.strip().splitlines()[-1] if s.strip() else ""
        m = re.findall(r"(\w+Error: [^\\\n']{0,140})", s)
        return {"ok": False, "kind": kind, "msg": (m[-1] if m else tail)[:180]}
    cols: Dict[str, List[Any]] = {}
    for r in res:
        cols.update(F.to_columns(r))
    return {"ok": True, "cols": cols, "trace": [c for c, _ in tr.events]}


def level_name(U: Universe, chain: Dict[str, Any], upto: int) -> str:
    s = chain["src"]
    for lv in chain["levels"][:upto]:
        s += "__" + suffix_of(U.fam(lv["cls"]), lv["p"], lv["lit"])
    return s


def build_notation(U: Universe, chain: Dict[str, Any], notation: Dict[str, Any], tag: str) -> Tuple[Any, str, List[Tuple[str, Optional[Set[str]], bool]]]:
    """-> (feature to request, result column, per level from the top: (name, option keys or None, written-as-name))"""
    from mloda.core.api.feature_config.loader import load_features_from_config
    from mloda.user import Feature, Options

    lv = chain["levels"]
    d = len(lv)
    kind = notation["kind"]
    full = level_name(U, chain, d)
    desc: List[Tuple[str, Optional[Set[str]], bool]] = []
    if kind in ("name", "json-name"):
        for i in range(d, 0, -1):
            desc.append((level_name(U, chain, i), None, True))
        if kind == "name":
            return Feature(full), full, desc
        fs = load_features_from_config(json.dumps([{"name": full}] if notation.get("form") == "nameobj" else [full]))
        return (fs[0] if not isinstance(fs[0], str) else Feature(fs[0])), full, desc
    if kind == "options":
        k0 = notation.get("mixed_at", 0)  # levels below k0 are written as a chained name
        cur: Any = None
        levels_desc = []
        for i in range(k0, d):
            o = options_of(U.fam(lv[i]["cls"]), lv[i]["p"], U.declared(lv[i]["cls"], "key"))
            as_group = notation.get("where", "context") == "group" and i == k0 and i == d - 1  # group options only where in_features is a plain name
            if i == k0:
                inner = level_name(U, chain, i)
                leaf = "str" if as_group else notation.get("leaf", "str")
                o["in_features"] = inner if leaf == "str" else frozenset([inner]) if leaf == "fset" else Feature(inner)
            else:
                o["in_features"] = cur
            nm = f"{tag}o{i}"
            cur = Feature(nm, Options(group=o)) if as_group else Feature(nm, Options(context=o))
            levels_desc.append((nm, set(o), False))
        desc = list(reversed(levels_desc)) + [(level_name(U, chain, i), None, True) for i in range(k0, 0, -1)]
        return cur, f"{tag}o{d - 1}", desc
    if kind == "json":
        top = lv[-1]
        o = options_of(U.fam(top["cls"]), top["p"], U.declared(top["cls"], "key"))
        inner = level_name(U, chain, d - 1)
        nm = f"{tag}j{d - 1}"
        form = notation["form"]
        if form == "ctx":
            item: Any = {"name": nm, "in_features": [inner], "context_options": o}
        elif form == "optflat":
            item = {"name": nm, "in_features": [inner], "options": o}
        else:
            item = {"name": nm, "options": {**o, "in_features": inner}}
        fs = load_features_from_config(json.dumps([item]))
        desc = [(nm, set(o) | {"in_features"}, False)] + [(level_name(U, chain, i), None, True) for i in range(d - 1, 0, -1)]
        return fs[0], nm, desc
    raise KeyError(kind)


def expected_resolution(U: Universe, enabled: Sequence[str], desc: List[Tuple[str, Optional[Set[str]], bool]]) -> Dict[str, Any]:
    """walk from the requested feature down to the source, as the engine resolves (outermost first)"""
    classes: List[str] = []
    for name, optkeys, _ in desc:
        how, c = ref_choose(U, enabled, name, optkeys)
        if how != "one":
            return {"ok": False, "kind": how, "at": name, "candidates": c}
        classes.append(c)
    return {"ok": True, "classes": list(reversed(classes))}


_REF_ROOTS: Dict[str, Any] = {}
_REF_CACHE: Dict[str, Any] = {}


def stock_segment_values(fw: str, ops: List[Tuple[str, List[Any]]], col: List[Any]) -> Optional[List[Any]]:
    """a run of stock operations evaluated by the stock classes under their stock names (separate root, only stock classes enabled)"""
    key = cjson([fw, ops, col])
    if key in _REF_CACHE:
        return _REF_CACHE[key]
    if fw not in _REF_ROOTS:
        data = {"z": [0] * N_ROWS, "reference_time": decode_cols({"reference_time": "@days"})["reference_time"]}
        _REF_ROOTS[fw] = (F.make_group(F.uniq("R16sref_"), root_data=data), data)
    root, data = _REF_ROOTS[fw]
    data["z"] = list(col)
    G = groups()
    nm = "z" + "".join("__" + c16.op_suffix({"g": fam, "p": p}) for fam, p in ops)
    r = run_request([nm], fw, {root, *(G.impls[b][fw] for b in STOCK_E2E[fw])})
    out = r["cols"].get(nm) if r["ok"] else None
    _REF_CACHE[key] = out
    return out


def reference_values(U: Universe, chain: Dict[str, Any], col: List[Any]) -> Optional[List[Any]]:
    """the operations applied left to right: maximal runs of stock operations by the stock classes, user operations in plain Python"""
    cur: Optional[List[Any]] = list(col)
    seg: List[Tuple[str, List[Any]]] = []
    for lv in list(chain["levels"]) + [None]:
        fam = U.fam(lv["cls"]) if lv is not None else None
        if lv is not None and fam != USER:
            seg.append((fam, lv["p"]))
            continue
        if seg and cur is not None:
            cur = stock_segment_values(U.fw, seg, cur)
        seg = []
        if lv is not None and cur is not None:
            cur = [None if v is None else USER_OPS[lv["p"][0]](v) for v in cur]
    return cur


def evaluate(U: Universe, req: Dict[str, Any], notation: Dict[str, Any], tag: str) -> Tuple[Dict[str, Any], Dict[str, Any], List[Tuple[str, Optional[Set[str]], bool]]]:
    """-> (canonical outcome of the real run, expectation of the reference, level description)"""
    feat, col, desc = build_notation(U, req["chain"], notation, tag)
    exp = expected_resolution(U, req["enabled"], desc)
    r = run_request([feat], U.fw, {U.root, *(U.cls(c) for c in req["enabled"])})
    if r["ok"]:
        names = {U.cls(c).__name__: c for c in U.all_names() + [stock_root_name(f) for f in STOCK_E2E[U.fw]]}
        out = {"ok": True, "classes": [names.get(t, t) for t in r["trace"] if t != U.root.__name__], "vals": r["cols"].get(col)}
    else:
        out = {"ok": False, "kind": r["kind"], "msg": r.get("msg", "")}
    return out, exp, desc


def outcome_key(o: Dict[str, Any]) -> Any:
    return {"ok": True, "classes": o["classes"], "vals": o["vals"]} if o["ok"] else {"ok": False, "kind": o["kind"]}


def window_class(U: Universe, nt: Dict[str, Any], desc: List[Tuple[str, Optional[Set[str]], bool]], exp: Dict[str, Any], out: Dict[str, Any]) -> Optional[str]:
    """narrow class of the TimeWindow finding: a level resolved to a subclass of the stock time window group whose declared suffix literal is
    its own and that is WRITTEN AS A CHAINED NAME.  The group's own suffix parser hard-wires the stock literal, so the parameters are then looked
    up in the options: the run fails in calculate_feature ('Could not extract time window parameters'), or - when an outer time window level
    hands its parameters down as GROUP options - the inner level silently computes with the outer level's parameters."""
    if not exp["ok"]:
        return None
    hit = False
    for (name, optkeys, as_name), c in zip(desc, reversed(exp["classes"])):
        if as_name and U.fam(c) == "TimeWindowFeatureGroup" and U.declared(c, "prefix") != sd("TimeWindowFeatureGroup")["lit"]:
            hit = True
    if not hit:
        return None
    if not out["ok"]:
        return WINDOW_CLASS if out["kind"].startswith("calc:") and "time window parameters" in out.get("msg", "") else None
    top_is_window_in_group_options = U.fam(exp["classes"][-1]) == "TimeWindowFeatureGroup" and (
        (nt["kind"] == "json" and nt["form"] in ("optflat", "optin")) or (nt["kind"] == "options" and desc[0][1] is not None and nt.get("where") == "group" and len([d for d in desc if d[1] is not None]) == 1)
    )
    return WINDOW_CLASS if top_is_window_in_group_options and out["classes"] == exp["classes"] else None


def judge(ctx: Ctx, U: Universe, spec: Dict[str, Any], history: List[Dict[str, Any]], ri: int, nt: Dict[str, Any], out: Dict[str, Any], exp: Dict[str, Any],
          desc: List[Tuple[str, Optional[Set[str]], bool]], ref_vals: Optional[List[Any]], order: str) -> None:  # fmt: skip
    req = history[ri]
    case = {"U": spec, "history": history, "at": ri, "notation": nt}
    what = f"request {ri + 1}/{len(history)} [{order}] enabled={req['enabled']} feature {level_name(U, req['chain'], len(req['chain']['levels']))!r} written as {nt}"
    decl = {c: {"patterns": U.patterns(c), "key": U.declared(c, "key")} for c in req["enabled"]}
    if exp["ok"] != out["ok"]:
        ctx.violation("subpat_e2e", case, f"{what}: the run gives {outcome_key(out)} {out.get('msg', '')}; by the declared attributes {cjson(decl)} it resolves to {exp}"[:900], outcome_key(out), exp,
                      finding_class=window_class(U, nt, desc, exp, out))  # fmt: skip
        return
    if not exp["ok"]:
        if out["kind"] != exp["kind"]:
            ctx.violation("subpat_e2e", case, f"{what}: rejected as {out['kind']} ({out.get('msg', '')}); by the declared attributes {cjson(decl)} it is {exp}"[:900], out["kind"], exp["kind"])
        return
    if out["classes"] != exp["classes"]:
        ctx.violation("subpat_e2e", case, f"{what}: ran through {out['classes']}; by the declared attributes {cjson(decl)} the chain of groups is {exp['classes']}"[:900], out["classes"], exp["classes"])
    if ref_vals is not None and (out["vals"] is None or not c16.vals_close(out["vals"], ref_vals, 1e-9)):
        ctx.violation("subpat_e2e", case, f"{what}: yields {out['vals']}; applying the operations one at a time left to right yields {ref_vals}"[:900], out["vals"], ref_vals,
                      finding_class=window_class(U, nt, desc, exp, out))  # fmt: skip


NOTATION_KINDS = ["name", "options", "json", "json-name"]


def gen_notations(rng: Any, depth: int) -> List[Dict[str, Any]]:
    nts: List[Dict[str, Any]] = [{"kind": "name"}]
    o: Dict[str, Any] = {"kind": "options", "leaf": rng.choice(["str", "str", "fset", "feat"]), "where": rng.choice(["context", "context", "group"])}
    if depth >= 2 and rng.random() < 0.5:
        o["mixed_at"] = rng.randint(1, depth - 1)
    nts.append(o)
    nts.append({"kind": "json", "form": rng.choice(["ctx", "optflat", "optin"])})
    if rng.random() < 0.5:
        nts.append({"kind": "json-name", "form": rng.choice(["string", "nameobj"])})
    rng.shuffle(nts)
    return nts


def gen_e2e_history(rng: Any, counter: List[int]) -> Tuple[Dict[str, Any], List[Dict[str, Any]]]:
    used = set(stock_tails())

    def cname() -> str:
        counter[0] += 1
        return f"S16e_{counter[0]}"

    fw = rng.choice(["PandasDataFrame", "PandasDataFrame", "PyArrowTable", "PythonDictFramework"])
    pool = STOCK_E2E[fw] + [USER]
    weights = {"AggregatedFeatureGroup": 4, "MissingValueFeatureGroup": 4, "TimeWindowFeatureGroup": 1, USER: 3}
    fams: List[str] = []
    for _ in range(rng.choice([1, 2, 2, 3])):
        cand = [f for f in pool if f not in fams]
        if not cand:
            break
        fams.append(rng.choices(cand, weights=[weights[f] for f in cand])[0])
    decls: List[Dict[str, Any]] = []
    for fam in fams:
        decls += gen_family(rng, fam, used, "e2e", cname)
    src = c16.gen_source(rng)
    counter[0] += 1
    spec = {"fw": fw, "root": f"R16s_{counter[0]}", "cols": encode_cols({src: num_col(rng), "reference_time": []}), "classes": decls}
    U = Universe(spec)
    by_fam: Dict[str, List[str]] = {}
    for n in U.all_names():
        by_fam.setdefault(U.fam(n), []).append(n)
    # stock groups of the framework that have no generated subclass still take part (as further levels of a chain)
    extra_stock = [stock_root_name(f) for f in STOCK_E2E[fw] if f not in by_fam and f != "TimeWindowFeatureGroup"]
    history: List[Dict[str, Any]] = []
    opening = rng.choice(["parents-first", "subclasses-first", "any", "any"])
    for ri in range(rng.randint(2, 5)):
        if history and rng.random() < 0.15:
            rep = json.loads(json.dumps(rng.choice(history)))
            rep["repeat_of"] = True
            rep["notations"] = gen_notations(rng, len(rep["chain"]["levels"]))
            history.append(rep)
            continue
        enabled: List[str] = list(extra_stock)
        for fam, members in by_fam.items():
            tops = [m for m in members if not U.ancestors(m)]
            subs = [m for m in members if U.ancestors(m)]
            if ri == 0 and opening == "parents-first":
                pick = tops
            elif ri == 0 and opening == "subclasses-first":
                pick = [rng.choice(subs)] if subs else tops
            else:
                mode = rng.choice(["all", "all", "subs", "one-sub", "tops", "random"])
                pick = members if mode == "all" else subs if mode == "subs" and subs else [rng.choice(subs)] if mode == "one-sub" and subs else tops if mode == "tops" else [m for m in members if rng.random() < 0.6]
            enabled += pick
        enabled = sorted(set(enabled), key=U.all_names().__add__(extra_stock).index)
        depth = rng.choice([1, 1, 2, 2, 3])
        levels: List[Dict[str, Any]] = []
        cand_all = U.all_names() + extra_stock
        for li in range(depth):
            prev_fam = U.fam(levels[-1]["cls"]) if levels else None
            cands = [c for c in cand_all if U.fam(c) != prev_fam]
            if not cands:
                break
            en = [c for c in cands if c in enabled]
            # mostly a generated class that is enabled; sometimes a class that is not (its names must then be rejected)
            subs_en = [c for c in en if not is_stock_root(c)]
            r = rng.random()
            c = rng.choice(subs_en) if subs_en and r < 0.6 else rng.choice(en) if en and r < 0.88 else rng.choice(cands)
            if li < depth - 1 and c not in enabled and en:
                c = rng.choice(en)  # a class that is not enabled only at the top (one rejection reason per request)
            lits = U.literals(c)
            levels.append({"cls": c, "p": gen_op(rng, U.fam(c))["p"], "lit": rng.choice(lits)})
        if not levels:
            continue
        history.append({"enabled": enabled, "chain": {"src": src, "levels": levels}, "notations": gen_notations(rng, len(levels)), "opening": opening if ri == 0 else None})
    return spec, history


def order_tag(U: Universe, history: List[Dict[str, Any]], ri: int) -> str:
    """was an ancestor of the request's top-level class enabled (hence asked) in an earlier request of this history?"""
    top = history[ri]["chain"]["levels"][-1]["cls"]
    anc = U.ancestors(top)
    if not anc:
        return "top-class-has-no-ancestor"
    earlier = set()
    for r in history[:ri]:
        earlier |= set(r["enabled"])
    top_before = top in earlier
    anc_before = any(a in earlier for a in anc)
    anc_now = any(a in history[ri]["enabled"] for a in anc)
    if anc_before and not top_before:
        return "ancestor-first"
    if top_before and not anc_before:
        return "subclass-first" + ("-ancestor-now" if anc_now else "")
    if not top_before and not anc_before:
        return "both-new" if anc_now else "subclass-only-so-far"
    return "both-asked-before"


def run_e2e_history(ctx: Ctx, spec: Dict[str, Any], history: List[Dict[str, Any]], fresh_pool: Optional[List[Dict[str, Any]]], hid: int) -> None:
    U = Universe(spec).build()
    cols = decode_cols(spec["cols"])
    src_col = cols[history[0]["chain"]["src"]] if history else []
    seen: Dict[str, Dict[str, Any]] = {}
    try:
        for ri, req in enumerate(history):
            order = order_tag(U, history, ri)
            top = req["chain"]["levels"][-1]["cls"]
            ref_vals = reference_values(U, req["chain"], src_col)
            results: Dict[str, Tuple[Dict[str, Any], Dict[str, Any]]] = {}
            for ni, nt in enumerate(req["notations"]):
                out, exp, desc = evaluate(U, req, nt, f"h{hid}r{ri}n{ni}")
                results[cjson(nt)] = (out, {**exp, "known_class": window_class(U, nt, desc, exp, out)})
                own = [k for k in ("prefix", "suffix", "key") if not is_stock_root(top) and U.decls[top].get(k)]
                ctx.case("subpat_e2e", {"U": spec["classes"], "fw": spec["fw"], "request": req, "notation": nt}, True, e2e_fw=U.fw, e2e_order=order, e2e_notation=nt["kind"], e2e_depth=len(req["chain"]["levels"]),
                         e2e_top_family=U.fam(top), e2e_top_own="+".join(own) or ("stock" if is_stock_root(top) else "control"), e2e_top_enabled=top in req["enabled"],
                         e2e_expected="resolves" if exp["ok"] else exp["kind"], e2e_enabled_relatives=enabled_relatives(U, req["enabled"], top), e2e_repeat=bool(req.get("repeat_of")),
                         e2e_lit="suffix-pattern" if req["chain"]["levels"][-1]["lit"] == U.declared(top, "suffix") else "prefix-pattern")  # fmt: skip
                judge(ctx, U, spec, history, ri, nt, out, exp, desc, ref_vals, order)
                # the same (request, notation) seen earlier in this history: same outcome
                k = cjson([req["enabled"], req["chain"], nt])
                if k in seen and outcome_key(seen[k]) != outcome_key(out):
                    ctx.violation("subpat_e2e", {"U": spec, "history": history, "at": ri, "notation": nt}, f"request {ri + 1} written as {nt} gives {outcome_key(out)}; the identical request gave {outcome_key(seen[k])} earlier in the same process",
                                  outcome_key(out), outcome_key(seen[k]))  # fmt: skip
                seen.setdefault(k, out)
                if fresh_pool is not None:
                    fresh_pool.append({"U": spec, "request": {k_: v for k_, v in req.items() if k_ != "notations"}, "notation": nt, "tag": f"h{hid}r{ri}n{ni}", "in_history": outcome_key(out), "order": order,
                                       "history": history, "at": ri})  # fmt: skip
            # notations whose expectation is the same must behave the same (values always, classes when expected equal)
            oks = [(k, o) for k, (o, e) in results.items() if o["ok"] and e.get("known_class") is None]
            for (k1, o1), (k2, o2) in zip(oks, oks[1:]):
                if not c16.vals_close(o1["vals"], o2["vals"], 1e-9):
                    ctx.violation("subpat_e2e", {"U": spec, "history": history, "at": ri}, f"request {ri + 1}: notation {k1} yields {o1['vals']}, notation {k2} yields {o2['vals']}", o1["vals"], o2["vals"])
    finally:
        U.forget()


def enabled_relatives(U: Universe, enabled: Sequence[str], top: str) -> str:
    anc = [a for a in U.ancestors(top) if a in enabled]
    desc = [c for c in enabled if top in U.ancestors(c)]
    sib = [c for c in enabled if c != top and U.fam(c) == U.fam(top) and c not in anc and c not in desc]
    return "+".join(x for x, l in (("ancestor", anc), ("descendant", desc), ("sibling", sib)) if l) or "alone"


def run_e2e_suite(ctx: Ctx) -> List[Dict[str, Any]]:
    rng = ctx.rng
    counter = [0]
    pool: List[Dict[str, Any]] = []
    for hid in range(ctx.budget(70, 1600)):
        spec, history = gen_e2e_history(rng, counter)
        if history:
            run_e2e_history(ctx, spec, history, pool, hid)
    return pool


# --------------------------------------------------------------------------------------------------------------------
# suite subpat_fresh: the same (request, notation) in a new interpreter


def fresh_main() -> None:
    import logging

    logging.disable(logging.CRITICAL)
    job = json.loads(sys.stdin.read())
    U = Universe(job["U"]).build()
    out, _, _ = evaluate(U, job["request"], job["notation"], job["tag"])
    sys.stdout.write("FRESH-RESULT " + cjson(outcome_key(out)) + "\n")
    sys.stdout.flush()
    os._exit(0)


def run_fresh_suite(ctx: Ctx, pool: List[Dict[str, Any]]) -> None:
    if not pool:
        return
    rng = ctx.rng
    n = ctx.budget(16, 120)
    # prefer requests whose top class is a generated class and that come late in their history (most state before them)
    late = [j for j in pool if j["at"] >= 1 and not is_stock_root(j["request"]["chain"]["levels"][-1]["cls"])]
    jobs = rng.sample(late, min(len(late), n - n // 4)) if late else []
    chosen = {id(j) for j in jobs}
    rest = [j for j in pool if id(j) not in chosen]
    jobs += rng.sample(rest, min(len(rest), n - len(jobs)))
    env = env_for_subprocess()
    par = 8
    for i in range(0, len(jobs), par):
        procs = []
        for j in jobs[i : i + par]:
            p = subprocess.Popen(["/venv/bin/python", "-c", "from harness.corr.c16_subclasspat import fresh_main; fresh_main()"], stdin=subprocess.PIPE, stdout=subprocess.PIPE, stderr=subprocess.PIPE,
                                 text=True, env=env, cwd=str(os.path.dirname(os.path.dirname(os.path.dirname(os.path.abspath(__file__))))))  # fmt: skip
            p.stdin.write(cjson({"U": j["U"], "request": j["request"], "notation": j["notation"], "tag": j["tag"]}))  # type: ignore[union-attr]
            p.stdin.close()  # type: ignore[union-attr]
            procs.append((j, p))
        for j, p in procs:
            try:
                so = p.stdout.read()  # type: ignore[union-attr]
                se = p.stderr.read()  # type: ignore[union-attr]
                p.wait(timeout=120)
            except Exception as e:  # noqa: BLE001
                p.kill()
                raise RuntimeError(f"fresh-process evaluation did not finish: {e!r}")
            line = next((l for l in so.splitlines() if l.startswith("FRESH-RESULT ")), None)
            if line is None:
                raise RuntimeError(f"fresh-process evaluation printed no result (rc={p.returncode}): {se[-600:]}")
            fresh = json.loads(line[len("FRESH-RESULT ") :])
            here = json.loads(cjson(j["in_history"]))
            ctx.case("subpat_fresh", {"U": j["U"]["classes"], "request": j["request"], "notation": j["notation"]}, True, fresh_order=j["order"], fresh_at=j["at"], fresh_outcome="resolves" if here["ok"] else here["kind"])
            same = fresh["ok"] == here["ok"] and (fresh.get("kind") == here.get("kind") if not here["ok"] else fresh["classes"] == here["classes"] and c16.vals_close(fresh["vals"], here["vals"], 1e-9))
            if not same:
                ctx.violation("subpat_fresh", {"U": j["U"], "history": j["history"], "at": j["at"], "notation": j["notation"]},
                              f"request {j['at'] + 1} of a history [{j['order']}] written as {j['notation']} gives {here} in the history's process, {fresh} in a fresh process issuing only this request"[:900], here, fresh)  # fmt: skip


# --------------------------------------------------------------------------------------------------------------------


def run(ctx: Ctx) -> None:
    import logging

    logging.disable(logging.CRITICAL)
    groups()
    run_fn_suite(ctx)
    pool = run_e2e_suite(ctx)
    run_fresh_suite(ctx, pool)


def search(ctx: Ctx, broken: List[str]) -> None:
    run(ctx)


def replay(ctx: Ctx, body: Dict[str, Any]) -> None:
    import logging

    logging.disable(logging.CRITICAL)
    case = body.get("case") or {}
    if body.get("suite") == "subpat_e2e" and "history" in case:
        run_e2e_history(ctx, case["U"], case["history"], None, 0)
    elif body.get("suite") == "subpat_fresh" and "history" in case:
        pool: List[Dict[str, Any]] = []
        run_e2e_history(ctx, case["U"], case["history"], pool, 0)
        run_fresh_suite(ctx, [j for j in pool if j["at"] == case["at"]])
    elif body.get("suite") == "subpat_fn" and "queries" in case:
        acc: List[Tuple[Dict[str, Any], Any, Any]] = []
        run_fn_history(ctx, ctx.rng, case["U"], case["queries"], acc)
        compare_with_model(ctx, acc)
    else:
        run(ctx)
