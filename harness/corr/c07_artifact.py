"""C07 extension `artifact`: histories on ONE prepared session whose feature groups keep RUN-TIME STATE on the FeatureSet
they are handed (the documented artifact pattern: `features.save_artifact`, `artifact()` class, docs/in_depth/artifacts.md).

Input class (generated, never replayed from a fixed example)
  world    1-3 "fit" feature groups over api columns v / w or over the output of an earlier fit group (chains), optionally a
           stateless consumer group and a documentation-style static root group that publishes a constant artifact.
           A fit group computes [min, max, sum, n] of its source column FROM THE DATA OF THIS RUN, keeps it in a slot on the
           FeatureSet and derives its output columns from it.
             slot    single  features.save_artifact = <value>                      (published under the name of one feature of the set)
                     multi   features.save_artifact = {key: value, ...}            (multi-artifact dict, SklearnArtifact style)
                     attr    a private attribute on the FeatureSet (no artifact class)
             policy  share         fit once per run, every feature of the set re-uses the fit found in the slot
                     assert_empty  raises when the slot is not empty at the start of the run (mloda's own artifact test group does this)
                     accumulate    adds its keys to the dict found in the slot (SklearnArtifact.save_sklearn_artifact), one key per
                                   category seen in THIS run's data
                     overwrite     always refits and overwrites (insensitive to the slot: control)
             fail    never / before (raises on a flagged api row before touching the slot) / after_store (fits, stores, then raises)
             load    the requested features carry the artifact in their options (artifact_to_load): transform-only, nothing is saved
  history  2-7 calls of run / stream_run (exhaust, close after k items, raise after k items), SYNC or THREADING, with omitted api_data
           (the stored one), new api_data (other length / values, so that a stale fit is visible) or failing api_data.

Oracle (from the property text): every call of the history gives exactly what (a) a FRESH prepared session with equal fresh
arguments and that call's api_data gives - result tables, get_artifacts() after a completed call, raised or not and how -,
(b) for run calls a fresh run_all gives, and (c) an independent reference evaluation of the scenario (plain Python over the
world definition and that call's api_data: expected columns, expected artifacts, expected error).

Parent: generates the cases with ctx.rng and judges; children (`python -m harness.corr.c07_artifact --child`) only execute real mloda code.
The Lean model of C07 (Model/Session.lean) has no step kind whose output depends on run-time state of the plan objects, so there is
no model comparison in this module (oracle only).
"""
from __future__ import annotations

import json
import subprocess
import sys
import traceback
from concurrent.futures import ThreadPoolExecutor
from typing import Any, Dict, List, Optional, Set, Tuple

SUITES = {"artifact_history", "artifact_call"}

ASSUMPTIONS = [
    "artifact: SYNC and THREADING only (in MULTIPROCESSING steps are pickled into workers, state written to a FeatureSet there never "
    "reaches the session's objects); THREADING only for requests whose needed groups form a chain (sibling groups on one dataset race on "
    "the unchanged tree: C02/C06 finding), failing or abandoned streams in SYNC only (as in the main history suite)",
    "artifact: get_artifacts() is judged after a completed run / fully consumed stream_run only; what it returns after a failed or "
    "abandoned call (the previous runner's artifacts) is recorded in the evidence distribution but not judged",
    "artifact: the name under which a single artifact is published is 'the name of one feature of the set' (set order) - compared as "
    "'one of the names of that group'; which tables an early-stopping stream consumer receives is compared as count + sub-multiset",
    "artifact: error kinds are compared as an enum (flagRaised / slotNotEmpty / other)",
]

MARK = "@@C07ARTIFACT@@"
OPS = ("shift", "rev", "tot", "scale")
API_COLS = ("v", "w")

# ======================================================================================
# scenario definition shared by the child (real groups) and the parent (reference evaluation)
# ======================================================================================


def fit_of(x: List[int]) -> List[int]:
    return [min(x), max(x), sum(x), len(x)]


def apply_op(op: str, x: List[int], p: List[int]) -> List[int]:
    if op == "shift":
        return [v - p[0] for v in x]
    if op == "rev":
        return [p[1] - v for v in x]
    if op == "tot":
        return [v + p[2] for v in x]
    return [v * p[3] for v in x]  # scale


def group_names(g: Dict[str, Any]) -> List[str]:
    if g["kind"] == "fit":
        return [f"{g['src']}__{o}" for o in g["ops"]]
    if g["kind"] == "plain":
        return [f"{g['src']}__plus"]
    return [f"d{g['id']}"]


def group_of_name(world: Dict[str, Any], name: str) -> Optional[Dict[str, Any]]:
    for g in world["groups"]:
        if name in group_names(g):
            return g
    return None


def needed_groups(world: Dict[str, Any], request: List[str]) -> List[Dict[str, Any]]:
    """groups that run for this request (requested features + transitive sources), in definition (= dependency) order"""
    need: Set[int] = set()
    todo = list(request)
    while todo:
        n = todo.pop()
        g = group_of_name(world, n)
        if g is None or g["id"] in need:
            continue
        need.add(g["id"])
        if g["kind"] != "doc":
            todo.append(g["src"])
    return [g for g in world["groups"] if g["id"] in need]


def chain_only(world: Dict[str, Any], request: List[str]) -> bool:
    """every dataset (the api table, the output of a group) has at most one consuming group among the needed ones"""
    cons: Dict[str, int] = {}
    for g in needed_groups(world, request):
        if g["kind"] == "doc":
            continue
        src = group_of_name(world, g["src"])
        key = "api" if src is None else f"g{src['id']}"
        cons[key] = cons.get(key, 0) + 1
    return all(v <= 1 for v in cons.values())


def request_names(c: Dict[str, Any]) -> List[str]:
    return [r["name"] for r in c["request"]]


# ======================================================================================
# child side: real mloda code only
# ======================================================================================


def _err_enum(e: BaseException) -> str:
    s = repr(e) + str(e)
    if "slot not empty" in s:
        return "slotNotEmpty"
    if "flag set" in s:
        return "flagRaised"
    return "other:" + type(e).__name__ + ":" + str(e)[-160:]


class ConsumerError(Exception):
    pass


def _api(d: Any) -> Any:
    if d is None:
        return None
    return {"K": {"v": list(d["v"]), "w": list(d["w"]), "flag": list(d["flag"])}}


def _tables(res: List[Any]) -> List[Any]:
    from harness import fgfactory as F

    return sorted(sorted([k, v] for k, v in F.to_columns(r).items()) for r in res)


def _mk_fit(g: Dict[str, Any], fw: Any) -> Any:
    from harness import fgfactory as F
    from mloda.user import Feature
    from mloda.provider import BaseArtifact

    src, slot, policy, fail, gid = g["src"], g["slot"], g["policy"], g["fail"], g["id"]
    attr = "fit_cache" if slot == "attr" else "save_artifact"
    key = f"fit_{gid}_{src}"

    class FitArtifact(BaseArtifact):
        """default behaviour: the artifact is handed back to the framework"""

    def input_features(self: Any, options: Any, feature_name: Any) -> Any:
        return {Feature(src)} | ({Feature("flag")} if fail != "never" else set())

    def calculate_feature(cls: Any, data: Any, features: Any) -> Any:
        cols = F.to_columns(data)
        flagged = fail != "never" and any(v == 1 for v in cols.get("flag", []))
        if fail == "before" and flagged:
            raise RuntimeError("flag set")
        cur = getattr(features, attr, None)
        if policy == "assert_empty" and cur is not None:
            raise ValueError(f"slot not empty at the start of the run: {cur!r}")
        x = cols[src]
        fit = fit_of(x)
        if slot != "attr" and features.artifact_to_load:
            params = cls.load_artifact(features)  # transform-only: parameters come with the request
        elif slot == "multi":
            if policy == "share":
                d = cur if isinstance(cur, dict) else {}
                if key not in d:
                    d[key] = fit
            elif policy == "accumulate":
                d = cur if isinstance(cur, dict) else {}
                d[key] = fit
                for rank, val in enumerate(sorted(set(x))):
                    d[f"cat_{gid}_{val}"] = rank
            else:
                d = {key: fit}
            params = d[key]
            if features.artifact_to_save:
                features.save_artifact = d
        else:
            params = cur if (policy == "share" and cur is not None) else fit
            if slot == "attr" or features.artifact_to_save:
                setattr(features, attr, params)
        if fail == "after_store" and flagged:
            raise RuntimeError("flag set")
        new = {n: apply_op(n.rsplit("__", 1)[1], x, params) for n in sorted(features.get_all_names())}
        return F.add_columns(data, new)

    extra: Dict[str, Any] = {"input_features": input_features, "calculate_feature": classmethod(calculate_feature)}
    if slot != "attr":
        extra["artifact"] = staticmethod(lambda: FitArtifact)
    return F.make_group(F.uniq(f"A07f{gid}_"), derived={n: {"parents": [], "expr": ["const", 0]} for n in group_names(g)}, frameworks={fw}, extra=extra)


def _mk_doc(g: Dict[str, Any], fw: Any) -> Any:
    """the group of docs/in_depth/artifacts.md / tests/test_core/test_artifacts: a static root that publishes a constant artifact"""
    from harness import fgfactory as F
    from mloda.provider import BaseArtifact

    policy = g["policy"]

    def before(cls: Any, data: Any, features: Any) -> None:
        if features.artifact_to_save:
            if policy == "assert_empty" and features.save_artifact is not None:
                raise ValueError(f"slot not empty at the start of the run: {features.save_artifact!r}")
            features.save_artifact = "BasicArtifact"

    return F.make_group(F.uniq(f"A07d{g['id']}_"), root_data={f"d{g['id']}": [1, 2, 3]}, frameworks={fw}, hooks={"before_calc": before},
                        extra={"artifact": staticmethod(lambda: BaseArtifact)})  # fmt: skip


_WORLDS: Dict[str, Any] = {}


def _world(w: Dict[str, Any]) -> Any:
    from harness import fgfactory as F
    from mloda.provider import ApiDataFeatureGroup

    k = json.dumps(w, sort_keys=True)
    if k not in _WORLDS:
        fw = F.FW_SHORT[w["fw"]]
        classes: Set[Any] = {ApiDataFeatureGroup}
        for g in w["groups"]:
            if g["kind"] == "fit":
                classes.add(_mk_fit(g, fw))
            elif g["kind"] == "plain":
                n = group_names(g)[0]
                classes.add(F.make_group(F.uniq(f"A07p{g['id']}_"), derived={n: {"parents": [g["src"]], "expr": ["add", ["col", g["src"]], ["const", g["add"]]]}}, frameworks={fw}))
            else:
                classes.add(_mk_doc(g, fw))
        _WORLDS[k] = (fw, F.collector(classes))
    return _WORLDS[k]


def _do_op(session: Any, op: Dict[str, Any]) -> Dict[str, Any]:
    from mloda.user import ParallelizationMode

    modes = {ParallelizationMode.THREADING} if op["mode"] == "threading" else {ParallelizationMode.SYNC}
    d = _api(op["d"])

    def arts() -> Any:
        try:
            return {"ok": {str(k): v for k, v in session.get_artifacts().items()}}
        except Exception as e:
            return {"raised": _err_enum(e)}

    if op["op"] == "run":
        try:
            t = _tables(session.run(api_data=d, parallelization_modes=modes))
            return {"tables": t, "artifacts": arts()}
        except Exception as e:
            return {"raised": _err_enum(e), "artifacts_after": arts()}
    c = op["consumer"]
    items: List[Any] = []
    err = None
    complete = False
    gen = session.stream_run(api_data=d, parallelization_modes=modes)
    try:
        if c["t"] == "exhaust":
            for r in gen:
                items.append(r)
            complete = True
        else:
            stopped = False
            for _ in range(c["k"]):
                try:
                    items.append(next(gen))
                except StopIteration:
                    stopped = True
                    break
            if not stopped:
                if c["t"] == "close":
                    gen.close()
                else:
                    try:
                        gen.throw(ConsumerError("consumer"))
                    except (ConsumerError, StopIteration):
                        pass
    except Exception as e:
        err = _err_enum(e)
    out: Dict[str, Any] = {"streamed": _tables(items), "err": err}
    if complete and err is None:
        out["artifacts"] = arts()
    else:
        out["artifacts_after"] = arts()
    return out


def ch_history(c: Dict[str, Any]) -> Dict[str, Any]:
    from mloda.user import mloda, Feature, ParallelizationMode

    fw, pc = _world(c["world"])
    stored = _api(c["stored"])

    def feats() -> List[Any]:
        out: List[Any] = []
        for r in c["request"]:
            if r.get("options"):
                out.append(Feature(r["name"], options=dict(r["options"])))
            else:
                out.append(Feature(r["name"]) if r["as_feature"] else r["name"])
        return out

    try:
        session = mloda.prepare(feats(), compute_frameworks={fw}, api_data=stored, plugin_collector=pc)
    except Exception as e:
        return {"prepare_err": _err_enum(e)}
    outcomes, fresh, fresh_all = [], [], []
    for op in c["ops"]:
        outcomes.append(_do_op(session, op))
        d_eff = op["d"] if op["d"] is not None else c["stored"]
        op2 = dict(op, d=d_eff)
        try:
            s2 = mloda.prepare(feats(), compute_frameworks={fw}, api_data=_api(d_eff), plugin_collector=pc)
            fresh.append(_do_op(s2, op2))
        except Exception as e:
            fresh.append({"raised": _err_enum(e)})
        if op["op"] == "run":
            modes = {ParallelizationMode.THREADING} if op["mode"] == "threading" else {ParallelizationMode.SYNC}
            try:
                fresh_all.append({"tables": _tables(mloda.run_all(feats(), compute_frameworks={fw}, api_data=_api(d_eff), plugin_collector=pc, parallelization_modes=modes))})
            except Exception as e:
                fresh_all.append({"raised": _err_enum(e)})
        else:
            fresh_all.append(None)
    return {"outcomes": outcomes, "fresh": fresh, "fresh_all": fresh_all}


def child_main() -> None:
    import logging

    logging.disable(logging.CRITICAL)
    import threading

    threading.excepthook = lambda args: None
    batch = json.load(sys.stdin)
    outs = []
    for c in batch:
        try:
            o = ch_history(c)
        except BaseException:
            o = {"crash": traceback.format_exc()[-1200:]}
        outs.append(o)
    sys.stdout.write("\n" + MARK + json.dumps(outs, default=str) + "\n")
    sys.stdout.flush()


# ======================================================================================
# parent side
# ======================================================================================


def run_children(batches: List[List[Dict[str, Any]]]) -> List[List[Dict[str, Any]]]:
    from harness.core import env_for_subprocess, VERIF

    def one(i: int) -> List[Dict[str, Any]]:
        if not batches[i]:
            return []
        p = subprocess.run(["/venv/bin/python", "-m", "harness.corr.c07_artifact", "--child"], input=json.dumps(batches[i]), cwd=str(VERIF), env=env_for_subprocess(),
                           stdout=subprocess.PIPE, stderr=subprocess.PIPE, text=True, timeout=1200)  # fmt: skip
        if MARK not in p.stdout:
            raise RuntimeError(f"C07 artifact child {i} produced no result rc={p.returncode}\n{p.stderr[-1500:]}")
        return json.loads(p.stdout.split(MARK, 1)[1])

    with ThreadPoolExecutor(max_workers=max(1, len(batches))) as ex:
        return list(ex.map(one, range(len(batches))))


def gen_api(rng: Any, fail: bool = False) -> Dict[str, Any]:
    n = rng.randint(1, 4)
    return {"v": [rng.randint(0, 20) for _ in range(n)], "w": [rng.randint(-9, 9) for _ in range(n)], "flag": [1 if (fail and i == n - 1) else 0 for i in range(n)]}


def gen_world(rng: Any) -> Dict[str, Any]:
    groups: List[Dict[str, Any]] = []
    used_src: Set[str] = set()
    fit_features: List[str] = []
    for i in range(rng.choice([1, 1, 2, 2, 3])):
        cands = [s for s in API_COLS if s not in used_src]
        chain = [s for s in fit_features if s not in used_src and s.count("__") < 2]
        if chain and (not cands or rng.random() < 0.45):
            src = rng.choice(chain)
        else:
            src = rng.choice(cands)
        used_src.add(src)
        slot = rng.choice(["single", "single", "multi", "multi", "attr"])
        pol = ["share", "share", "share", "assert_empty", "assert_empty", "overwrite"] + (["accumulate", "accumulate"] if slot == "multi" else [])
        g = {"id": i, "kind": "fit", "src": src, "ops": sorted(rng.sample(OPS, rng.randint(1, 3))), "slot": slot, "policy": rng.choice(pol),
             "fail": rng.choice(["never", "before", "after_store", "after_store"]) if src in API_COLS else "never", "load": None}  # fmt: skip
        groups.append(g)
        fit_features += group_names(g)
    nid = len(groups)
    if rng.random() < 0.3:
        groups.append({"id": nid, "kind": "plain", "src": rng.choice(fit_features), "add": rng.randint(1, 9)})
        nid += 1
    if rng.random() < 0.3:
        groups.append({"id": nid, "kind": "doc", "policy": rng.choice(["assert_empty", "assert_empty", "overwrite"])})
    return {"fw": rng.choice(["pa", "pd", "py"]), "groups": groups}


def gen_case(rng: Any) -> Dict[str, Any]:
    world = gen_world(rng)
    fits = [g for g in world["groups"] if g["kind"] == "fit"]
    offered = [n for g in world["groups"] for n in group_names(g)]
    # the request: at least one feature of a fit group, some more features, sometimes an api column itself
    names = {rng.choice(group_names(rng.choice(fits)))}
    for n in offered:
        if rng.random() < 0.35:
            names.add(n)
    if rng.random() < 0.2:
        names.add(rng.choice(API_COLS))
    req_names = sorted(names)
    rng.shuffle(req_names)
    # transform-only mode: a leaf fit group (nobody consumes its features) whose requested features carry the artifact
    consumed = {g["src"] for g in world["groups"] if g["kind"] != "doc"}
    options_of: Dict[str, Any] = {}
    for g in fits:
        mine = [n for n in req_names if n in group_names(g)]
        # (options of a requested feature are inherited by the input features it creates; a loading group over another fit group
        # would make that group run twice - once per options - which is planning, not this property's subject: api sources only)
        if mine and g["slot"] != "attr" and g["src"] in API_COLS and not (set(group_names(g)) & consumed) and rng.random() < 0.2:
            params = [rng.randint(0, 5), rng.randint(6, 30), rng.randint(0, 50), rng.randint(1, 4)]
            g["load"] = params
            for n in mine:
                options_of[n] = {m: params for m in mine}
    request = [{"name": n, "as_feature": rng.random() < 0.5, "options": options_of.get(n)} for n in req_names]
    stored = gen_api(rng)
    can_fail = any(g.get("fail", "never") != "never" for g in needed_groups(world, req_names))
    thread_ok = chain_only(world, req_names)
    ntab = len({(group_of_name(world, n) or {"id": "api"})["id"] for n in req_names})
    ops = []
    for _ in range(rng.randint(2, 7)):
        mode = "threading" if (thread_ok and rng.random() < 0.25) else "sync"
        r = rng.random()
        if r < 0.2:
            d = None
        elif r < 0.72:
            d = gen_api(rng)
        else:
            d = gen_api(rng, fail=True)
        if rng.random() < 0.6:
            ops.append({"op": "run", "d": d, "mode": mode})
        else:
            t = rng.choice(["exhaust", "exhaust", "close", "raise"])
            failing = can_fail and d is not None and 1 in d["flag"]
            if failing or t != "exhaust":
                mode = "sync"
            ops.append({"op": "stream", "d": d, "mode": mode, "consumer": {"t": t, "k": rng.randint(0, ntab + 1)}})
    return {"kind": "artifact_history", "world": world, "request": request, "stored": stored, "ops": ops}


# ---- reference evaluation (scenario definition only; no mloda, no earlier runs) ---------------------------------------


def reference(c: Dict[str, Any], d: Dict[str, Any]) -> Dict[str, Any]:
    """what one call with api data `d` must give: {"tables": [...], "artifacts": {...}} or {"raised": kind}"""
    world, req = c["world"], request_names(c)
    need = needed_groups(world, req)
    if 1 in d["flag"] and any(g.get("fail", "never") != "never" for g in need):
        return {"raised": "flagRaised"}
    cols: Dict[str, List[int]] = {"v": list(d["v"]), "w": list(d["w"])}
    arts: Dict[str, Any] = {}
    tables: List[Any] = []
    api_req = sorted(n for n in req if n in API_COLS)
    if api_req:
        tables.append(sorted([n, cols[n]] for n in api_req))
    for g in need:
        if g["kind"] == "doc":
            cols[f"d{g['id']}"] = [1, 2, 3]
            arts[f"<one of G{g['id']}>"] = "BasicArtifact"
        elif g["kind"] == "plain":
            cols[group_names(g)[0]] = [v + g["add"] for v in cols[g["src"]]]
        else:
            x = cols[g["src"]]
            params = g["load"] if g["load"] is not None else fit_of(x)
            for n in group_names(g):
                cols[n] = apply_op(n.rsplit("__", 1)[1], x, params)
            if g["load"] is None:
                if g["slot"] == "single":
                    arts[f"<one of G{g['id']}>"] = fit_of(x)
                elif g["slot"] == "multi":
                    arts[f"fit_{g['id']}_{g['src']}"] = fit_of(x)
                    if g["policy"] == "accumulate":
                        for rank, val in enumerate(sorted(set(x))):
                            arts[f"cat_{g['id']}_{val}"] = rank
        mine = sorted(n for n in req if n in group_names(g))
        if mine:
            tables.append(sorted([n, cols[n]] for n in mine))
    return {"tables": sorted(tables), "artifacts": arts}


def canon_artifacts(c: Dict[str, Any], a: Any) -> Any:
    """a single artifact is published under the name of ONE feature of the set -> '<one of Gi>'"""
    if not isinstance(a, dict) or "ok" not in a:
        return a
    out: Dict[str, Any] = {}
    for k, v in a["ok"].items():
        g = group_of_name(c["world"], k)
        if g is not None and (g["kind"] == "doc" or g.get("slot") == "single"):
            k2 = f"<one of G{g['id']}>"
            k = k2 if k2 not in out else k  # two names of one group published: keep both visible
        out[k] = v
    return out


def same_outcome(op: Dict[str, Any], a: Dict[str, Any], b: Dict[str, Any]) -> bool:
    """equality of two outcomes of the same call, modulo which tables an early-stopping consumer happened to receive"""
    ka = {k for k in a if k in ("tables", "raised", "streamed")}
    if ka != {k for k in b if k in ("tables", "raised", "streamed")}:
        return False
    if "tables" in a:
        return a["tables"] == b["tables"]
    if "raised" in a:
        return a["raised"] == b["raised"] or (a["raised"].startswith("other") and b["raised"].startswith("other"))
    if a["err"] != b["err"] and not (str(a["err"]).startswith("other") and str(b["err"]).startswith("other")):
        return False
    if op["consumer"]["t"] == "exhaust" and a["err"] is None:
        return a["streamed"] == b["streamed"]
    return len(a["streamed"]) == len(b["streamed"])


def brief(o: Any) -> Any:
    if not isinstance(o, dict):
        return o
    return {k: v for k, v in o.items() if k != "artifacts_after"}


def judge(ctx: Any, c: Dict[str, Any], o: Dict[str, Any]) -> None:
    suite = "artifact_history"
    world = c["world"]
    req = request_names(c)
    need = needed_groups(world, req)
    fits = [g for g in need if g["kind"] == "fit"]
    sensitive = any((g["kind"] == "fit" and g["load"] is None and g["policy"] in ("share", "assert_empty", "accumulate")) or (g["kind"] == "doc" and g["policy"] == "assert_empty") for g in need)
    ctx.case(suite, c, sensitive and len(c["ops"]) >= 2, art_fw=world["fw"], art_length=len(c["ops"]), art_groups=len(need),
             art_chain=any(g["kind"] != "doc" and group_of_name(world, g["src"]) is not None for g in need))  # fmt: skip
    for g in need:
        if g["kind"] == "fit":
            ctx.tag("art_group", f"{g['slot']}:{g['policy']}:fail_{g['fail']}" + (":load" if g["load"] is not None else ""))
        else:
            ctx.tag("art_group", g["kind"] + (":" + g["policy"] if g["kind"] == "doc" else ""))
    if "prepare_err" in o:
        ctx.violation(suite, c, f"prepare of a well-formed request failed: {o['prepare_err']}", o, "ok")
        return
    prior = "none"  # what the previous call of the history left behind
    prev_d: Any = None
    for k, (op, impl, fresh, fall) in enumerate(zip(c["ops"], o["outcomes"], o["fresh"], o["fresh_all"])):
        d_eff = op["d"] if op["d"] is not None else c["stored"]
        ref = reference(c, d_eff)
        kind = op["op"] + ":" + op["mode"] + (":" + op["consumer"]["t"] if op["op"] == "stream" else "")
        ctx.case("artifact_call", [c, k], k >= 1 and sensitive, art_op=kind + (":fail" if "raised" in ref else ""), art_prior=prior,
                 art_data="first" if prev_d is None else ("same" if prev_d == d_eff else "changed"), art_outcome=next(x for x in ("tables", "raised", "streamed") if x in impl) + (":err" if impl.get("err") else ""))  # fmt: skip
        if "artifacts_after" in impl and k >= 1:
            ctx.tag("art_get_artifacts_after_incomplete_call", "raises" if "raised" in impl["artifacts_after"] else "returns an earlier run's artifacts")
        where = {"case": c, "index": k}
        head = f"call {k} ({kind}, api_data={d_eff}) after {k} earlier calls on the prepared session"
        impl_c = dict(impl)
        if "artifacts" in impl_c:
            impl_c["artifacts"] = canon_artifacts(c, impl_c["artifacts"])
        fresh_c = dict(fresh)
        if "artifacts" in fresh_c:
            fresh_c["artifacts"] = canon_artifacts(c, fresh_c["artifacts"])
        # (a) fresh prepared session with equal fresh arguments and this call's api data
        if not same_outcome(op, impl_c, fresh_c):
            ctx.violation(suite, where, f"{head} gives {brief(impl_c)} but a fresh session gives {brief(fresh_c)}", brief(impl_c), brief(fresh_c))
        elif "artifacts" in impl_c and "artifacts" in fresh_c and impl_c["artifacts"] != fresh_c["artifacts"]:
            ctx.violation(suite, where, f"{head}: get_artifacts() gives {impl_c['artifacts']} but a fresh session publishes {fresh_c['artifacts']}", impl_c["artifacts"], fresh_c["artifacts"])
        # (b) fresh run_all with the same arguments (results only)
        if fall is not None and not same_outcome(op, impl_c, fall):
            ctx.violation(suite, where, f"{head} gives {brief(impl_c)} but a fresh run_all gives {fall}", brief(impl_c), fall)
        # (c) reference evaluation of the scenario definition
        if "tables" in impl_c:
            if impl_c["tables"] != ref.get("tables"):
                ctx.violation(suite, where, f"{head} returned {impl_c['tables']}; reference evaluation: {ref.get('tables', ref)}", impl_c["tables"], ref)
        elif "raised" in impl_c:
            if impl_c["raised"] != ref.get("raised"):
                ctx.violation(suite, where, f"{head} raised {impl_c['raised']}; reference evaluation: {ref.get('tables', ref)}", impl_c["raised"], ref)
        else:
            items, lim = impl_c["streamed"], (None if op["consumer"]["t"] == "exhaust" else op["consumer"]["k"])
            if "tables" in ref:
                want = len(ref["tables"]) if lim is None else min(lim, len(ref["tables"]))
                if [t for t in items if t not in ref["tables"]] or len(items) != want or len({json.dumps(t) for t in items}) != len(items) or impl_c["err"] is not None:
                    ctx.violation(suite, where, f"{head} streamed {items} err={impl_c['err']}; reference: {want} distinct tables out of {ref['tables']}", brief(impl_c), ref)
            elif impl_c["err"] not in (ref["raised"], None) or (impl_c["err"] is None and lim is None):
                ctx.violation(suite, where, f"{head} streamed {items} err={impl_c['err']}; reference evaluation fails with {ref['raised']}", brief(impl_c), ref)
        if "artifacts" in impl_c and "artifacts" in ref and impl_c["artifacts"] != ref["artifacts"]:
            ctx.violation(suite, where, f"{head}: get_artifacts() gives {impl_c['artifacts']}; reference evaluation (fit of this call's data): {ref['artifacts']}", impl_c["artifacts"], ref["artifacts"])
        # what this call leaves behind for the next one
        if "raised" in ref:
            prior = "failed_" + ("after_store" if any(g["fail"] == "after_store" for g in fits) else "before_store")
        elif op["op"] == "stream" and op["consumer"]["t"] != "exhaust":
            prior = "abandoned_stream"
        else:
            prior = "completed"
        prev_d = d_eff


def execute(ctx: Any, cases: List[Dict[str, Any]], nworkers: int) -> None:
    nworkers = max(1, min(nworkers, len(cases)))
    batches: List[List[Dict[str, Any]]] = [[] for _ in range(nworkers)]
    where: List[Tuple[int, int]] = []
    for i, c in enumerate(cases):
        b = i % nworkers
        where.append((b, len(batches[b])))
        batches[b].append(c)
    results = run_children(batches)
    for c, (b, j) in zip(cases, where):
        o = results[b][j]
        if "crash" in o:
            raise RuntimeError("C07 artifact child crashed on " + json.dumps(c)[:600] + "\n" + o["crash"])
        judge(ctx, c, o)


def run(ctx: Any) -> None:
    ctx.extra["rule"] = (ctx.extra.get("rule", "") + " | artifact: histories (run / stream_run exhaust, close, raise / failing api data / omitted api data, SYNC + THREADING, "
                         "length 2-7, api data of other length and values on every call) on one prepared session whose feature groups keep run-time state on "
                         "the FeatureSet (save_artifact single value / multi-artifact dict / private attribute; share-the-fit, assert-slot-empty, accumulate, "
                         "overwrite; failing before / after storing; artifact loaded from options); every call compared with a fresh prepared session "
                         "(tables, get_artifacts(), error kind), a fresh run_all and a reference evaluation of the scenario; non-trivial = history of >= 2 "
                         "calls with at least one needed group whose behaviour or published artifacts depend on the slot it finds")  # fmt: skip
    cases = [gen_case(ctx.rng) for _ in range(ctx.budget(150, 1800))]
    execute(ctx, cases, ctx.budget(6, 12))


def search(ctx: Any, broken: List[str]) -> None:
    run(ctx)


def replay(ctx: Any, body: Dict[str, Any]) -> None:
    case = body.get("case")
    if isinstance(case, dict) and "case" in case:
        case = case["case"]
    if isinstance(case, list):
        case = case[0]
    if not isinstance(case, dict) or case.get("kind") != "artifact_history":
        run(ctx)
        return
    execute(ctx, [case], 1)


if __name__ == "__main__":
    if "--child" in sys.argv:
        child_main()
