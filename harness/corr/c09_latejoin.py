"""C09 extension `latejoin`: a dataset in the Arrow Flight store that has SEVERAL consumers of different kinds, one of them late.

Input class (MULTIPROCESSING with the long-lived flight server, generated structurally):

    S_l (root, PyArrow) ------------------.
                                           join (inner | left | outer, same framework) --> Z.x...        requested
    S_r (root, PyArrow) ------------------'
       `--> D0 --> ... --> Dn-1 (PyArrow, same compute-framework object as S_r)
                              `--> [TransformFrameworkStep PyArrow -> Pandas | PythonDict] --> P.p...    requested

One compute-framework object (that of S_r, or - as a variation - that of S_l) is at the same time a side of a same-framework
join and the source of a framework transformation that starts at a feature DERIVED on it.  Its dataset is uploaded to the
flight store more than once under one key (by the root step for the join, by the derived step for the transformation) and is
downloaded by two different kinds of step (JoinStep, TransformFrameworkStep) at unrelated moments.

Schedules: the root of the OTHER side of the join is held back until every feature group behind the framework transformation
has finished (a bounded gate on the harness's own event log + a grace period, or a plain sleep of 1-3 s), so that the join is
the LAST consumer of the dataset; controls: the derived side itself is slow, nobody is slow.

Oracle (from the property text, both halves):
  * "no dataset is dropped while a step that still needs it has not run": (a) the history of the store as its clients produce it
    (harness-side wrappers around FlightServer.upload_table / download_table / drop_tables, inherited by the forked workers, timestamps
    from CLOCK_MONOTONIC): no step asks for a key that was uploaded and has been dropped since; (b) the un-faulted run has to
    succeed, and (c) its result tables have to equal an independent reference evaluation of the request (rows sorted, join
    results have no row order);
  * "nothing is left behind": the store listing of the long-lived server has not grown, no process / non-daemon thread of the
    call is alive - after every call, also the second of two runs against the same server.
Known finding of the unchanged tree next to this class, under the OPPOSITE schedule (the join begins BEFORE a step of the chain on
its right object): F-C09-latejoin-right-chain-step-after-join (findings.d/C09_latejoin.json); its class is decided per run from the
observed step order (`right_step_after_join` and not `join_last`), so the late-join class itself is never excused.
There is no operation of the C09 Lean driver (tracker `reports`, `joinAll`) that describes the store across an MP run, so the
cases are judged by the oracle alone (the orchestrator-side protocol is the subject of the `life` extension).
"""
from __future__ import annotations

import json
import os
import threading
import time
from typing import Any, Dict, List, Optional, Set, Tuple

from harness.core import Ctx
from harness import fgfactory as F
from harness import schedlib as S
from harness.corr.c09 import leftovers

SUITES = {"latejoin"}

ASSUMPTIONS = [
    "latejoin: a late consumer is produced by holding a root calculation back (bounded wait on the harness's event log for the 'end' events of the groups behind the "
    "framework transformation plus a grace period of 0.5-1.0 s, or a sleep of 1-3 s); whether the join really began after those groups ended is read from the "
    "step observers' timestamps (CLOCK_MONOTONIC, shared by all processes) and recorded per case (tag join_last)",
    "latejoin: the flight store's history during a run is the sequence of its clients' calls (upload logged after it returned, download and drop before they are sent); "
    "a drop that does not go through FlightServer.drop_tables is still seen as a failed download of a stored key",
    "latejoin: keys are unique per source and the join consumer reads source columns only, so the reference join (dict keyed by the join key) is well defined",
]

# group name -> {"after": [group names], "max": s, "grace": s} | {"sleep": s}; set before a run, inherited by the forked workers
DELAY: Dict[str, Dict[str, Any]] = {}


def _ended_groups(path: Optional[str]) -> Set[str]:
    out: Set[str] = set()
    if not path:
        return out
    try:
        with open(path) as f:
            for line in f:
                try:
                    e = json.loads(line)
                except Exception:
                    continue
                if e.get("ev") == "end":
                    out.add(e.get("group"))
    except OSError:
        pass
    return out


def _before_calc(cls: Any, data: Any, features: Any) -> None:
    d = DELAY.get(cls.__name__)
    if not d:
        return
    t0 = time.time()
    if "sleep" in d:
        time.sleep(d["sleep"])
        F.log_event(ev="held", group=cls.__name__, how="sleep", waited=round(time.time() - t0, 3))
        return
    need = set(d["after"])
    path = os.environ.get(F.LOG_ENV)
    opened = False
    while time.time() - t0 < d["max"]:
        if need <= _ended_groups(path):
            opened = True
            break
        time.sleep(0.02)
    time.sleep(d["grace"])
    F.log_event(ev="held", group=cls.__name__, how="gate", opened=opened, waited=round(time.time() - t0, 3))


HOOKS = {"before_calc": _before_calc}


# ------------------------------------------------------------------------------------------------------------------
# harness-side observation of the flight store's clients (no change to /repo): every upload / download / drop with its key(s)

_store_saved: Dict[str, Any] = {}


def install_store_observers() -> None:
    from mloda.core.runtime.flight.flight_server import FlightServer as FS

    if _store_saved:
        return
    for n in ("upload_table", "download_table", "drop_tables"):
        _store_saved[n] = FS.__dict__[n]
    up, down, drop = FS.upload_table, FS.download_table, FS.drop_tables

    def upload_table(location: str, table: Any, table_key: str) -> None:
        r = up(location, table, table_key)
        F.log_event(ev="fput", key=str(table_key))  # logged once the dataset is stored
        return r

    def download_table(location: str, table_key: Any) -> Any:
        F.log_event(ev="fget", key=str(table_key))
        try:
            r = down(location, table_key)
        except BaseException as e:
            F.log_event(ev="fget_fail", key=str(table_key), err=repr(e)[-160:])
            raise
        F.log_event(ev="fget_ok", key=str(table_key))
        return r

    def drop_tables(location: str, table_key: Set[str]) -> None:
        F.log_event(ev="fdrop", keys=sorted(str(k) for k in table_key))  # logged before the request is sent
        return drop(location, table_key)

    FS.upload_table = staticmethod(upload_table)  # type: ignore[method-assign]
    FS.download_table = staticmethod(download_table)  # type: ignore[method-assign]
    FS.drop_tables = staticmethod(drop_tables)  # type: ignore[method-assign]


def remove_store_observers() -> None:
    from mloda.core.runtime.flight.flight_server import FlightServer as FS

    for n, v in _store_saved.items():
        setattr(FS, n, v)
    _store_saved.clear()


def store_history(events: List[Dict[str, Any]]) -> Dict[str, Any]:
    """The store as its clients saw it during one run (events are sorted by CLOCK_MONOTONIC time):
    `premature`: downloads of a key that had been uploaded and was dropped again (not re-uploaded) before the download began -
                 the dataset was dropped while the downloading step, which still needed it, had not run;
    `vanished`: failed downloads ("not found") of a key that was uploaded and for which no drop request was seen (a drop that bypassed drop_tables);
    `never_uploaded`: downloads of a key nobody had uploaded so far (a step was pointed at the wrong object: not a drop)."""
    present: Dict[str, bool] = {}
    premature: List[str] = []
    never: List[str] = []
    vanished: List[str] = []
    drops_during, nput, nget = 0, 0, 0
    for e in events:
        ev = e.get("ev")
        if ev == "fput":
            present[e["key"]] = True
            nput += 1
        elif ev == "fdrop":
            for k in e["keys"]:
                if present.get(k):
                    present[k] = False
                    drops_during += 1
        elif ev == "fget":
            nget += 1
            k = e["key"]
            if k not in present:
                never.append(k)
            elif not present[k]:
                premature.append(k)
        elif ev == "fget_fail" and present.get(e["key"]) and "not found" in str(e.get("err")):
            vanished.append(e["key"])  # stored, no drop request seen, yet gone when a step asked for it
    return {"premature": premature, "vanished": vanished, "never_uploaded": never, "uploads": nput, "downloads": nget, "drops_of_stored_keys": drops_during}


# ------------------------------------------------------------------------------------------------------------------
# generator


def _expr(rng: Any, parents: List[str]) -> Any:
    e: Any = ["col", parents[0]]
    for q in parents[1:]:
        e = [rng.choice(["add", "sub"]), e, ["col", q]]
    if rng.random() < 0.6:
        e = [rng.choice(["add", "mul"]), e, ["const", rng.randint(1, 4)]]
    return e


def gen_spec(rng: Any, in_class: Optional[bool] = None) -> Dict[str, Any]:
    """A join-DAG spec in schedlib's link-spec shape (sources / links / consumer / tops / request) plus a schedule.
    `in_class`: force (True) / leave to chance (None) the late-join class: derived side = join right, the join's other root held back."""
    uid = F.uniq("")
    other_fw = rng.choice(["pd", "pd", "py"])
    jointype = rng.choice(["inner", "left", "outer"])
    deriv_role = "right" if (in_class or rng.random() < 0.6) else "left"  # which side of the join carries the derived chain
    # sources: unique keys; with the chain on the right object (which is never merged into) the key sets may differ, with the chain on the
    # left object (whose row set the join changes at a moment the plan does not fix) they coincide
    n = rng.randint(1, 4)
    keys = rng.sample([1, 2, 3, 4, 5, 6], n)
    srcs = []
    for i in range(2):
        ks = list(keys)
        if deriv_role == "right" and rng.random() < 0.6:
            ks = rng.sample([1, 2, 3, 4, 5, 6], rng.randint(1, 4))  # key sets differ: inner / left / outer give different row sets
        rng.shuffle(ks)
        cols: Dict[str, List[Any]] = {f"k{uid}_{i}": ks}
        for j in range(rng.randint(1, 2)):
            cols[f"v{uid}_{i}{j}"] = [rng.randint(0, 9) for _ in ks]
        srcs.append({"name": f"S{uid}_{i}", "fw": "pa", "key": f"k{uid}_{i}", "cols": cols})
    swap = rng.random() < 0.3  # which source index is the link's left
    li, ri = (1, 0) if swap else (0, 1)
    link = {"type": jointype, "left": li, "right": ri}
    di = ri if deriv_role == "right" else li  # source index that carries the derived chain
    vals = [[c for c in s_["cols"] if c != s_["key"]] for s_ in srcs]
    # the join consumer: every feature reads value columns of BOTH sources
    zfeats: Dict[str, Any] = {}
    for j in range(rng.randint(1, 2)):
        zfeats[f"x{uid}_{j}"] = {"parents": (ps := [rng.choice(vals[li]), rng.choice(vals[ri])]), "expr": _expr(rng, ps)}
    consumer = {"name": f"Z{uid}", "fw": "pa", "features": zfeats}
    # the derived chain on the framework of its source (one single-feature group per link of the chain)
    tops = []
    nder = rng.randint(1, 3)
    prev = rng.choice(vals[di])
    ders = []
    for k in range(nder):
        f = f"d{uid}_{k}"
        par = [prev] + ([rng.choice(vals[di])] if rng.random() < 0.3 else [])
        par = list(dict.fromkeys(par))
        tops.append({"name": f"D{uid}_{k}", "fw": "pa", "features": {f: {"parents": par, "expr": _expr(rng, par)}}})
        ders.append(f)
        prev = f
    # behind the framework transformation: one group on the other framework reading the LAST derived feature, optionally one more on top
    ncross = rng.randint(1, 2)
    pfeats = {f"p{uid}_{j}": {"parents": [prev], "expr": _expr(rng, [prev])} for j in range(ncross)}
    tops.append({"name": f"P{uid}", "fw": other_fw, "features": pfeats})
    behind = [f"P{uid}"]
    cross = list(pfeats)
    if rng.random() < 0.3:
        q = f"q{uid}"
        tops.append({"name": f"Q{uid}", "fw": other_fw, "features": {q: {"parents": [cross[0]], "expr": _expr(rng, [cross[0]])}}})
        behind.append(f"Q{uid}")
        cross.append(q)
    # request: always the join consumer and the last feature behind the transformation; the rest at random; order at random
    req = [rng.choice(list(zfeats)), cross[-1]]
    req += [f for f in list(zfeats) + cross[:-1] if f not in req and rng.random() < 0.5]
    if deriv_role == "right":
        req += [f for f in ders if rng.random() < 0.25]  # an intermediate result of the chain (the right object is never merged into)
    rng.shuffle(req)
    # schedule
    r = rng.random()
    slow = "other" if (in_class or r < 0.4) else ("derived" if r < 0.7 else "none")
    sched: Dict[str, Any] = {"slow": slow}
    other_root = srcs[li if deriv_role == "right" else ri]["name"]
    if slow == "other":
        if rng.random() < 0.75:
            sched.update({"group": other_root, "after": behind, "max": 6.0, "grace": round(rng.uniform(0.5, 1.0), 2)})
        else:
            sched.update({"group": other_root, "sleep": round(rng.uniform(1.0, 3.0), 2)})
    elif slow == "derived":
        sched.update({"group": srcs[di]["name"], "sleep": round(rng.uniform(0.3, 0.8), 2)})
    return {"sources": srcs, "links": [link], "consumer": consumer, "tops": tops, "request": [{"name": f, "options": {}} for f in req],
            "latejoin": {"deriv_role": deriv_role, "deriv_source": di, "other_fw": other_fw, "nder": nder, "behind": behind, "sched": sched}}  # fmt: skip


def prepare(spec: Dict[str, Any]) -> Any:
    from mloda.user import mloda

    classes, links, feats, fws = S.build_link_request(spec, HOOKS)
    fws = set(fws) | {F.FW_SHORT[g["fw"]] for g in spec.get("tops", [])}
    return mloda.prepare(list(feats), compute_frameworks=fws, links=links, plugin_collector=F.collector(set(classes.values())))


# ------------------------------------------------------------------------------------------------------------------
# reference evaluation (plain Python, from the request alone)


def reference_tables(spec: Dict[str, Any]) -> Any:
    """Canonical expected result: one table per feature group with requested features (mloda returns one table per step),
    single-source features on their source's rows, the join consumer's features on the joined rows; rows sorted."""
    srcs = spec["sources"]
    link = spec["links"][0]
    L, R = srcs[link["left"]], srcs[link["right"]]
    src_of = {c: i for i, s_ in enumerate(srcs) for c in s_["cols"]}
    groups = S.link_groups(spec)
    defs = {f: d for g in groups for f, d in g["features"].items()}
    owner = {f: g["name"] for g in groups for f in g["features"]}
    memo: Dict[str, Set[int]] = {}

    def sides(f: str) -> Set[int]:
        if f in src_of:
            return {src_of[f]}
        if f not in memo:
            memo[f] = set().union(*[sides(p_) for p_ in defs[f]["parents"]])
        return memo[f]

    def rows_of(s_: Dict[str, Any]) -> Dict[Any, Dict[str, Any]]:
        return {k: {c: v[i] for c, v in s_["cols"].items()} for i, k in enumerate(s_["cols"][s_["key"]])}

    lrows, rrows = rows_of(L), rows_of(R)
    if link["type"] == "inner":
        jkeys = [k for k in lrows if k in rrows]
    elif link["type"] == "left":
        jkeys = list(lrows)
    else:
        jkeys = list(lrows) + [k for k in rrows if k not in lrows]
    lnull, rnull = {c: None for c in L["cols"]}, {c: None for c in R["cols"]}
    joined = [{**lrows.get(k, lnull), **rrows.get(k, rnull)} for k in jkeys]

    def val(row: Dict[str, Any], f: str) -> Any:
        if f not in row:
            for p_ in defs[f]["parents"]:
                val(row, p_)
            row[f] = F.eval_expr(defs[f]["expr"], row)
        return row[f]

    by_group: Dict[str, List[str]] = {}
    for r in spec["request"]:
        by_group.setdefault(owner[r["name"]], []).append(r["name"])
    out = []
    for g, names in by_group.items():
        sd = set().union(*[sides(f) for f in names])
        base = joined if len(sd) == 2 else [dict(r_) for r_ in rows_of(srcs[next(iter(sd))]).values()]
        rows = sorted([[val(dict(r_), f) for f in sorted(names)] for r_ in base], key=lambda x: json.dumps(x, default=str))
        out.append([[c, [row[j] for row in rows]] for j, c in enumerate(sorted(names))])
    return sorted(out, key=lambda x: json.dumps(x, default=str))


# ------------------------------------------------------------------------------------------------------------------
# one case


FINDING_RIGHT_STEP_AFTER_JOIN = "mp-step-on-join-right-object-begins-after-the-join-began"


def _schedule_facts(spec: Dict[str, Any], exp: Dict[str, Any], events: List[Dict[str, Any]]) -> Dict[str, Any]:
    """What the run really did (timestamps of the step observers):
    join_last  - the join began after every group behind the transformation had ended (the late consumer of this suite);
    right_step_after_join - the chain hangs on the join's RIGHT object and one of its own steps (a derived group's step or the
                 transform step that reads it) began after the join had begun (the join registers `right merged into left` while it runs;
                 from then on such a step is handed the joined LEFT object: input class of the known finding of this suite)."""
    lj = spec["latejoin"]
    behind = set(lj["behind"])
    steps = exp["steps"]
    m = exp["_step_uuid_to_idx"]
    join_idx = {i for i, st in enumerate(steps) if st["kind"] == "join"}
    d_names = {g["name"] for g in spec["tops"] if g["name"].startswith("D")}
    chain_idx = {i for i, st in enumerate(steps) if (st["kind"] == "fg" and st["group"] in d_names) or st["kind"] == "tfs"}
    begin: Dict[int, int] = {}
    for e in events:
        if e.get("ev") == "sbegin" and e.get("step") in m:
            begin.setdefault(m[e["step"]], e["t"])
    t_join = [begin[i] for i in join_idx if i in begin]
    ended = {e.get("group"): e["t"] for e in events if e.get("ev") == "end" and e.get("group") in behind}
    held = [e for e in events if e.get("ev") == "held"]
    join_last = bool(t_join) and behind <= set(ended) and min(t_join) > max(ended.values())
    after = sorted(i for i in chain_idx if t_join and i in begin and begin[i] > min(t_join))
    return {"join_last": join_last, "join_began": bool(t_join), "right_step_after_join": lj["deriv_role"] == "right" and bool(after), "chain_steps_after_join_began": after,
            "held": [{k: e.get(k) for k in ("group", "how", "opened", "waited")} for e in held]}  # fmt: skip


def run_case(ctx: Ctx, spec: Dict[str, Any], stream: bool, runs: int, base_threads: Set[int], flight_pid: Optional[int]) -> None:
    lj = spec["latejoin"]
    try:
        sess = prepare(spec)
    except Exception as e:  # a request the planner rejects is not a case of this suite
        ctx.tag("latejoin_prepare_rejected", type(e).__name__)
        return
    exp = S.export_plan(sess)
    steps = exp["steps"]
    d_groups = {spec["sources"][lj["deriv_source"]]["name"]} | {g["name"] for g in spec["tops"] if g["name"].startswith("D")}
    uploads_shared = sum(1 for st in steps if st["kind"] == "fg" and st.get("need_to_upload") and st["group"] in d_groups)
    has_tfs = any(st["kind"] == "tfs" and st["from"] == "PyArrowTable" and st["to"] != "PyArrowTable" for st in steps)
    has_join = any(st["kind"] == "join" and st["left"] == st["right"] for st in steps)
    expected = reference_tables(spec)
    sched = lj["sched"]
    kinds = {"x": "join", "p": "cross", "q": "cross", "d": "derived"}
    for rep in range(runs):
        DELAY.clear()
        if sched.get("group"):
            DELAY[sched["group"]] = {k: v for k, v in sched.items() if k in ("after", "max", "grace", "sleep")}
        before = S.flight_keys()
        flakes0 = S.FLAKES["hangs_retried"]
        rr = S.run_session(sess, "mp", stream=stream, timeout=60)
        DELAY.clear()
        left = leftovers(base_threads, flight_pid)
        after = S.flight_keys()
        facts = _schedule_facts(spec, exp, rr.events)
        hist = store_history(rr.events)
        case = {"spec": spec, "mode": "mp", "stream": stream, "run_index": rep}
        in_class = lj["deriv_role"] == "right" and has_tfs and has_join and uploads_shared >= 2 and facts["join_last"]
        # a genuine defect of the unchanged tree lives next to this class, under the OPPOSITE schedule (see findings.d/C09_latejoin.json)
        fclass = FINDING_RIGHT_STEP_AFTER_JOIN if (facts["right_step_after_join"] and not facts["join_last"]) else None
        ctx.case("latejoin", case, in_class, lj_deriv_side=lj["deriv_role"], lj_slow=sched["slow"], lj_how=("sleep" if "sleep" in sched else "gate" if "after" in sched else "-"),
                 lj_jointype=spec["links"][0]["type"], lj_nder=lj["nder"], lj_behind=len(lj["behind"]), lj_other_fw=lj["other_fw"], lj_stream=stream,
                 lj_first_requested=kinds.get(spec["request"][0]["name"][0], "?"), lj_uploads_of_shared_object=uploads_shared, lj_join_last=facts["join_last"],
                 lj_right_step_after_join=facts["right_step_after_join"], lj_in_class=in_class, lj_run_index=rep,
                 lj_store_uploads=hist["uploads"], lj_store_downloads=hist["downloads"], lj_store_drops_incl_final_sweep=hist["drops_of_stored_keys"],
                 lj_outcome="timeout" if rr.timed_out else ("raise" if rr.error else "return"))  # fmt: skip
        if rr.timed_out:
            ctx.violation("latejoin", case, "run did not end", None, None)
            continue
        if S.FLAKES["hangs_retried"] != flakes0:
            ctx.tag("leak_assertion_skipped_after_hang_retry", 1)
            S.kill_stray_children()
            after = before
        # half 2 of the property: no dataset is dropped while a step that still needs it has not run
        obs = {"schedule": {k: facts[k] for k in ("join_last", "right_step_after_join", "chain_steps_after_join_began")}, "store": hist, "error": (rr.error or "")[-300:] or None}
        if hist["premature"] or hist["vanished"]:
            gone = sorted(set(hist["premature"] + hist["vanished"]))
            ctx.violation("latejoin", case, f"a dataset was dropped from the flight store while a step that still needed it had not run: {len(gone)} key(s) uploaded, dropped and then "
                          f"asked for by a step (run {'raised' if rr.error else 'returned'}; join began after the groups behind the framework transformation ended: {facts['join_last']})",
                          obs, "every download finds the dataset it asks for", finding_class=fclass)  # fmt: skip
        elif rr.error is not None:
            ctx.violation("latejoin", case, "an un-faulted MULTIPROCESSING run of a legal request raised (a step did not get the dataset it needs)", obs, "run succeeds", finding_class=fclass)
        else:
            tables = rr.results if not stream else list(rr.yielded)
            got = S.tables_canon(tables, sort_rows=True)
            if got != expected:
                ctx.violation("latejoin", case, "the run returned tables that differ from the reference evaluation (a step worked on a dataset that is not the one it needs)", got, expected,
                              finding_class=fclass)  # fmt: skip
        # half 1: nothing left behind
        new = sorted(after - before)
        if new:
            ctx.violation("latejoin", case, f"{len(new)} dataset(s) uploaded by the run are still in the flight store after the call {'raised' if rr.error else 'returned'}", new, [])
        if left["threads"] or left["processes"]:
            ctx.violation("latejoin", case, f"workers of the run are still alive after the call ended: {left}", left, {"threads": [], "processes": []})
            S.kill_stray_children()


def suite(ctx: Ctx, n: int) -> None:
    S.install_step_observers()
    install_store_observers()
    base_threads = {t.ident for t in threading.enumerate()}
    fs = S.flight_server()
    flight_pid = fs.flight_server_process.pid
    try:
        for k in range(n):
            # two of three cases are forced into the class; the rest varies which side carries the chain / who is slow
            spec = gen_spec(ctx.rng, in_class=True if k % 3 != 2 else None)
            stream = ctx.rng.random() < 0.2
            runs = 1 if ctx.quick else ctx.rng.choice([1, 2])
            run_case(ctx, spec, stream, runs, base_threads, flight_pid)
    finally:
        DELAY.clear()
        remove_store_observers()
        S.stop_flight_server()


def run(ctx: Ctx) -> None:
    ctx.extra["rule"] = (ctx.extra.get("rule", "") + " | latejoin: generated join-DAGs in MULTIPROCESSING mode where one compute-framework object is a side of a same-framework join AND, "
                         "through a derived feature, the source of a framework transformation; the other root of the join is held back until the groups behind the transformation ended "
                         "(late join consumer); the run must succeed with the reference tables and leave the long-lived flight store and the process table as they were; "
                         "non-trivial = the join was observed to begin after those groups ended and the shared object is uploaded by >= 2 steps")  # fmt: skip
    suite(ctx, ctx.budget(10, 90))


def search(ctx: Ctx, broken: List[str]) -> None:
    suite(ctx, 30)


def replay(ctx: Ctx, body: Dict[str, Any]) -> None:
    case = body.get("case") or {}
    spec = case.get("spec")
    if not spec or "latejoin" not in spec:
        return run(ctx)
    S.install_step_observers()
    install_store_observers()
    base_threads = {t.ident for t in threading.enumerate()}
    fs = S.flight_server()
    try:
        # the generated class names of the recorded spec are reused as they are (unique within the recording run, fresh process here)
        run_case(ctx, spec, bool(case.get("stream")), 2, base_threads, fs.flight_server_process.pid)
    finally:
        DELAY.clear()
        remove_store_observers()
        S.stop_flight_server()
