"""C13 / slowack - streamed MULTIPROCESSING runs whose worker process acknowledges a drop command late.

Input class (generated, never replayed from a fixed request): one root group and k >= 2 sibling groups that all read root columns
on ONE compute framework, every sibling feature requested.  In MULTIPROCESSING (flight server) the root step and all sibling steps
are then served by ONE worker process, one after the other, through one command queue; after collecting a sibling's result the
orchestrator puts a "you may drop" command behind the steps that are already queued and waits (5 s) for the worker's acknowledgement.
The sibling calculation that the worker process executes at position p >= 2 (decided at RUN TIME by a per-process call counter, so
the hash-seed dependent plan order does not matter) sleeps 6.5 - 7.5 s: the acknowledgement of the earlier sibling's drop cannot
arrive in time.  Cheap controls: the same shapes with fast workers (MULTIPROCESSING / THREADING-free SYNC), early-stopping consumers,
repeated streamed runs on one session; in the thorough tier also slow siblings without a command queue (SYNC) and two slow siblings.

Every case is executed by the REAL mloda code in a child python process of its own (own private flight server, own hash seed; the
children run in parallel, a slow case costs ~2 x 8 s of sleeping).  The child only reports; the verdict is taken here.

Oracle (property text of C13): with the same arguments
  * list(stream_all(..)) / list(session.stream_run(..)) is the same MULTISET of tables as run_all(..) / session.run(..):
    nothing twice, nothing lost, nothing extra, same outcome kind (tables | raised error class);
  * every yielded item is a complete table of one feature-group step - judged against an independent reference evaluation of the
    generated request (the requested columns of exactly one group, all rows, reference values);
  * a consumer that stops after j items got j distinct tables of the batch result, and nothing is yielded after it stopped;
  * after the stream ended (drained, closed, dropped, exception thrown in) no worker process of the run is alive and no dataset of
    the run is left on the flight server.
Model: for session cases the observed step trace of the drained MULTIPROCESSING stream is replayed by the Lean scheduler model
(`C13.accepts`); the model's result count (a permutation of its `yielded`) must equal the number of yielded tables.
"""
from __future__ import annotations

import json
import os
import subprocess
import sys
import time
from concurrent.futures import ThreadPoolExecutor
from typing import Any, Dict, List, Optional, Tuple

SUITES = {"slowack", "slowack_model"}

ASSUMPTIONS = [
    "slowack: 'slow' is a calculation sleeping 6.5-7.5 s against the orchestrator's 5 s drop-acknowledge wait; that the wait really ran "
    "into its timeout is observed (harness-side timing wrapper around WorkerManager.wait_for_drop_completion, tag ack_timeouts) and a "
    "slow case counts as non-trivial only then; under extreme machine load a slow case may miss the window (tag class_hit=no)",
    "slowack: each case runs in a child python process with its own private flight server and PYTHONHASHSEED; worker processes are "
    "forked (Linux default start method), so the per-process call counter that picks the slow sibling starts at 0 in every worker",
    "slowack: liveness of worker processes is observed through multiprocessing.active_children() of the child after a 3 s grace period",
]

MARK = "@@C13SLOWACK@@"
RUN_TIMEOUT = 90.0

# ======================================================================================================================
# generator (parent side; pure JSON)
# ======================================================================================================================


def gen_case(rng: Any, slow: int, mode: str = "mp", thorough: bool = False, siblings: Optional[int] = None) -> Dict[str, Any]:
    """One request of the class + the history of calls to make with it.  `slow` = number of slow sibling calculations (0 = control)."""
    from harness import fgfactory as F

    uid = F.uniq("")
    fw = rng.choice(["pa", "pa", "pa", "pd", "py"])
    nrows = rng.randint(1, 4)
    ncols = rng.randint(1, 3)
    root = {"name": f"R{uid}", "fw": fw, "cols": {f"r{uid}_{i}": [rng.randint(-5, 9) for _ in range(nrows)] for i in range(ncols)}}
    rcols = list(root["cols"])
    k = rng.choice([2, 2, 3] if not thorough else [2, 2, 3, 3, 4])
    k = max(siblings or k, slow + 1)
    groups = []
    n = 0
    for g in range(k):
        feats: Dict[str, Any] = {}
        for _ in range(rng.choice([1, 1, 2])):
            parents = rng.sample(rcols, min(len(rcols), rng.choice([1, 1, 2])))
            expr: Any = ["col", parents[0]]
            for q in parents[1:]:
                expr = [rng.choice(["add", "sub", "mul"]), expr, ["col", q]]
            expr = [rng.choice(["add", "mul", "sub"]), expr, ["const", rng.randint(2, 4)]]
            feats[f"d{uid}_{n}"] = {"parents": parents, "expr": expr}
            n += 1
        groups.append({"name": f"G{uid}_{g}", "fw": fw, "features": feats})
    req = [f for g in groups for f in g["features"]]  # every sibling step carries a result
    if rng.random() < 0.5:
        req.append(rng.choice(rcols))  # ... and sometimes the root step too
    rng.shuffle(req)
    spec: Dict[str, Any] = {"roots": [root], "groups": groups, "request": [{"name": f, "options": {}} for f in req]}
    if slow:
        # positions (1-based) in the order in which ONE process executes sibling calculations; never the first one: an earlier sibling
        # must have finished so that its drop command waits behind the slow one
        positions = sorted(rng.sample(range(2, k + 1), slow))
        spec["slow"] = {"positions": positions, "seconds": round(rng.uniform(6.5, 7.5), 2)}
    api = rng.choice(["all", "session"])
    nres = len(groups) + (1 if any(f in rcols for f in req) else 0)
    if slow:
        beh = "drain" if not thorough else rng.choice(["drain", "drain", "drain", "close", "throw"])
        history = [["batch", "drain", 0], ["stream", beh, rng.randint(2, nres)]]
    else:
        history = [["batch", "drain", 0]]
        for _ in range(rng.randint(1, 3)):
            history.append(["stream", rng.choice(["drain", "drain", "close", "drop", "throw"]), rng.randint(1, nres)])
    return {"spec": spec, "mode": mode, "api": api, "history": history, "hashseed": rng.randint(0, 2**31 - 1)}


def step_tables(spec: Dict[str, Any]) -> List[Any]:
    """Independent reference: the complete result table of every feature-group step that carries requested features
    (canonical form of schedlib.tables_canon: a sorted list of tables, each a sorted list of [column, values])."""
    from harness import schedlib as S

    vals = S.reference(spec)
    want = {r["name"] for r in spec["request"]}
    out = []
    for g in [{"features": r["cols"]} for r in spec["roots"]] + spec["groups"]:
        cols = sorted(f for f in g["features"] if f in want)
        if cols:
            out.append([[c, vals[c]] for c in cols])
    return sorted(out, key=lambda x: json.dumps(x, default=str))


# ======================================================================================================================
# child: runs the real code, reports JSON
# ======================================================================================================================

_CALLS: Dict[int, int] = {}  # pid -> sibling calculations executed by that process in the current run
_ACKS: List[Dict[str, Any]] = []  # orchestrator side: duration of every wait for a drop acknowledgement in the current run


def _delay_hook(slow: Optional[Dict[str, Any]]) -> Any:
    from harness import fgfactory as F

    positions = set((slow or {}).get("positions", []))
    seconds = float((slow or {}).get("seconds", 0.0))

    def before_calc(cls: Any, data: Any, features: Any) -> None:
        if cls.SPEC["root_data"] is not None:
            return
        pid = os.getpid()
        pos = _CALLS.get(pid, 0) + 1
        _CALLS[pid] = pos
        is_slow = pos in positions
        F.log_event(ev="slot", group=cls.__name__, pos=pos, slow=is_slow)
        if is_slow:
            time.sleep(seconds)

    return before_calc


def _observe_acks() -> bool:
    """Timing wrapper (observation only, used for tags) around the orchestrator's wait for a worker's drop acknowledgement."""
    try:
        from mloda.core.runtime.worker_manager import WorkerManager as WM

        orig = WM.wait_for_drop_completion
    except Exception:
        return False

    def wait_for_drop_completion(self: Any, *a: Any, **kw: Any) -> Any:
        t0 = time.time()
        try:
            return orig(self, *a, **kw)
        finally:
            limit = kw.get("timeout", a[2] if len(a) > 2 else 5.0)
            d = time.time() - t0
            _ACKS.append({"dur": round(d, 2), "timed_out": bool(d >= float(limit) - 0.05)})

    WM.wait_for_drop_completion = wait_for_drop_completion  # type: ignore[method-assign]
    return True


def _child_case(job: Dict[str, Any]) -> Dict[str, Any]:
    import gc
    import multiprocessing
    import tempfile

    from harness import fgfactory as F
    from harness import schedlib as S
    from mloda.user import mloda, stream_all

    spec = job["spec"]
    mode = job["mode"]
    classes = S.build_classes(spec, hooks={"before_calc": _delay_hook(spec.get("slow"))})
    common: Dict[str, Any] = {"compute_frameworks": S.frameworks_of(spec), "plugin_collector": F.collector(set(classes.values()))}
    fs = S.flight_server() if mode == "mp" else None
    srv = S._flight  # the child's flight server may have been started by an earlier (MULTIPROCESSING) case of this child
    flight_pid = srv.flight_server_process.pid if srv is not None and srv.flight_server_process is not None else None
    runkw: Dict[str, Any] = {"parallelization_modes": {S.MODES[mode]}, "flight_server": fs}
    session = mloda.prepare(S.features_of(spec), **common) if job["api"] == "session" else None
    exp = S.export_plan(session) if session is not None else None
    out: Dict[str, Any] = {"runs": [], "plan": S.lean_plan(exp)["steps"] if exp is not None else None}

    def call(what: str, behaviour: str, k: int) -> Dict[str, Any]:
        items: List[Any] = []
        times: List[float] = []
        t0 = time.time()
        err = None
        try:
            if what == "batch":
                items = list(session.run(**runkw) if session is not None else mloda.run_all(S.features_of(spec), **common, **runkw))
            else:
                gen = session.stream_run(**runkw) if session is not None else stream_all(S.features_of(spec), **common, **runkw)
                for item in gen:
                    items.append(item)
                    times.append(round(time.time() - t0, 2))
                    if behaviour != "drain" and len(items) >= k:
                        if behaviour == "throw":
                            try:
                                gen.throw(RuntimeError("consumer failed"))
                            except (RuntimeError, StopIteration):
                                pass
                        break
                if behaviour in ("close", "throw"):
                    gen.close()
                del gen
                gc.collect()
        except BaseException as e:  # noqa
            err = {"type": type(e).__name__, "msg": ("".join(str(a) for a in e.args) if e.args else repr(e))[-400:]}
        return {"items": items, "times": times, "error": err}

    for what, behaviour, k in job["history"]:
        rec: Dict[str, Any] = {"what": what, "behaviour": behaviour, "k": k}
        for attempt in range(2):
            _CALLS.clear()
            del _ACKS[:]
            fd, path = tempfile.mkstemp(prefix="verif_ev_", suffix=".jsonl")
            os.close(fd)
            os.environ[F.LOG_ENV] = path
            t0 = time.time()
            fin, res = S.guarded(lambda: call(what, behaviour, k), RUN_TIMEOUT)
            rec["wall"] = round(time.time() - t0, 2)
            time.sleep(0.01)
            events = S.read_events(path)
            os.environ.pop(F.LOG_ENV, None)
            try:
                os.unlink(path)
            except OSError:
                pass
            if fin:
                break
            S.kill_stray_children()  # a hang that does not reproduce is a fork flake (see schedlib.run_session), one that does is reported
            rec["hang_retried"] = True
        if not fin:
            rec["timeout"] = True
            out["runs"].append(rec)
            break
        if isinstance(res, BaseException):
            raise res
        rec["error"] = res["error"]
        rec["tables"] = S.tables_canon(res["items"])
        rec["types"] = sorted({type(t).__name__ for t in res["items"]})
        rec["times"] = res["times"]
        slots = [e for e in events if e.get("ev") == "slot"]
        ends = {(e.get("pid"), e.get("group")): e["t"] for e in events if e.get("ev") == "end"}
        begins = {(e.get("pid"), e.get("group")): e["t"] for e in events if e.get("ev") == "begin"}
        rec["slots"] = [{"group": e["group"], "pos": e["pos"], "slow": e["slow"], "pid": e["pid"],
                         "dur": round((ends.get((e["pid"], e["group"]), e["t"]) - begins.get((e["pid"], e["group"]), e["t"])) / 1e9, 2)} for e in slots]  # fmt: skip
        rec["calc_pids"] = sorted({e["pid"] for e in events if e.get("ev") == "begin"})
        rec["main_pid"] = os.getpid()
        rec["acks"] = list(_ACKS)
        if exp is not None and what == "stream" and behaviour == "drain":
            rec["obs"] = S.obs_of(exp, events)
        # resources of the run
        deadline = time.time() + 3.0
        while True:
            alive = [p.pid for p in multiprocessing.active_children() if p.pid != flight_pid]
            if not alive or time.time() > deadline:
                break
            time.sleep(0.02)
        rec["alive"] = alive
        rec["flight_left"] = sorted(S.flight_keys()) if fs is not None else []
        if alive:
            S.kill_stray_children()
        out["runs"].append(rec)
    return out


def child_main() -> None:
    import logging
    import threading

    logging.disable(logging.CRITICAL)
    threading.excepthook = lambda args: None
    from harness import schedlib as S

    jobs = json.loads(sys.stdin.read())
    S.install_step_observers()
    observed = _observe_acks()
    outs = []
    for job in jobs:
        try:
            o = _child_case(job)
        except BaseException as e:  # noqa
            import traceback

            o = {"crash": traceback.format_exc()[-2000:], "runs": []}
        o["ack_observed"] = observed
        outs.append(o)
    S.stop_flight_server()
    sys.stdout.write(MARK + json.dumps(outs, default=str) + MARK)
    sys.stdout.flush()
    os._exit(0)


# ======================================================================================================================
# parent: scheduling of the children, oracle
# ======================================================================================================================


def run_children(batches: List[List[Dict[str, Any]]], par: int) -> List[List[Dict[str, Any]]]:
    from harness.core import env_for_subprocess, VERIF

    def one(i: int) -> List[Dict[str, Any]]:
        last = ""
        for attempt in range(2):  # a child that dies without a report (port clash, fork flake) is started once more
            env = env_for_subprocess()
            env["PYTHONHASHSEED"] = str(batches[i][0]["hashseed"] % 4294967295)
            env.pop("VERIF_EVENT_LOG", None)
            try:
                p = subprocess.run(["/venv/bin/python", "-m", "harness.corr.c13_slowack", "--child"], input=json.dumps(batches[i]), cwd=str(VERIF), env=env,
                                   stdout=subprocess.PIPE, stderr=subprocess.PIPE, text=True, timeout=RUN_TIMEOUT * 2 * sum(len(j["history"]) for j in batches[i]) + 120)  # fmt: skip
            except subprocess.TimeoutExpired as e:
                last = f"child timed out: {e}"
                continue
            if p.stdout.count(MARK) == 2:
                return list(json.loads(p.stdout.split(MARK)[1]))
            last = f"rc={p.returncode} stderr={p.stderr[-1500:]}"
        raise RuntimeError(f"C13 slowack child {i} produced no report: {last}")

    with ThreadPoolExecutor(max_workers=max(1, par)) as ex:
        return list(ex.map(one, range(len(batches))))


def _counts(tables: List[Any]) -> Dict[str, int]:
    c: Dict[str, int] = {}
    for t in tables:
        key = json.dumps(t, default=str)
        c[key] = c.get(key, 0) + 1
    return c

LATE_ACK = "multiprocessing-late-drop-ack-polled-as-step-result"


def late_ack_error(job: Dict[str, Any], rep: Dict[str, Any], run_: Dict[str, Any]) -> bool:
    """Input class of the open finding F-C13-slowack-late-ack: MULTIPROCESSING, >= 3 sibling steps on one worker, a slow one, the wait for a
    drop acknowledgement ran into its timeout in this run, and the run then died on the late ("DROP_COMPLETE", uuid) message being parsed as a
    step uuid by the result poll (AttributeError: 'tuple' object has no attribute 'replace')."""
    e = run_.get("error")
    return bool(
        e
        and job["mode"] == "mp"
        and len(job["spec"]["groups"]) >= 3
        and job["spec"].get("slow")
        and e["type"] == "AttributeError"
        and "'tuple' object has no attribute 'replace'" in e["msg"]
        and (any(a["timed_out"] for a in run_["acks"]) or not rep.get("ack_observed"))
    )


def _resources(ctx: Any, sub: Dict[str, Any], r: Dict[str, Any], beh: str) -> None:
    if r["alive"]:
        ctx.violation("slowack", sub, f"worker processes of the run still alive 3 s after the stream ended ({beh}{', raised' if r['error'] else ''})", r["alive"], [])
    if r["flight_left"]:
        ctx.violation("slowack", sub, f"datasets of the run left on the flight server after the stream ended ({beh}{', raised' if r['error'] else ''})", r["flight_left"], [])


def judge(ctx: Any, job: Dict[str, Any], rep: Dict[str, Any], lean_reqs: List[Any], metas: List[Any]) -> None:
    spec = job["spec"]
    case = {"spec": spec, "mode": job["mode"], "api": job["api"], "history": job["history"], "hashseed": job["hashseed"]}
    if rep.get("crash"):
        raise RuntimeError("C13 slowack child crashed:\n" + rep["crash"])
    ref = step_tables(spec)
    refc = _counts(ref)
    slow = spec.get("slow")
    nslow = len(slow["positions"]) if slow else 0
    batch: Optional[Dict[str, Any]] = None
    for i, r in enumerate(rep["runs"]):
        sub = dict(case, history=job["history"][: i + 1])
        what, beh, k = r["what"], r["behaviour"], r["k"]
        if r.get("timeout"):
            ctx.case("slowack", sub, False, sa_mode=job["mode"], sa_call=f"{what}/{beh}", sa_outcome="timeout")
            ctx.violation("slowack", sub, f"{what} run ({beh}) did not end within {RUN_TIMEOUT:.0f} s, twice", "timeout", "return or raise")
            return
        # is the input class hit?  (all sibling calculations in one process that is not the orchestrator's, a slow one at position >= 2,
        # and - observed on the orchestrator - at least one wait for a drop acknowledgement that ran into its timeout)
        pids = {s_["pid"] for s_ in r["slots"]}
        same_worker = len(pids) == 1 and r["main_pid"] not in pids and len(r["slots"]) == len(spec["groups"])
        slow_run = [s_ for s_ in r["slots"] if s_["slow"] and s_["dur"] >= 6.0]
        ack_to = sum(1 for a in r["acks"] if a["timed_out"])
        hit = job["mode"] == "mp" and same_worker and len(slow_run) == nslow and nslow > 0 and all(s_["pos"] >= 2 for s_ in slow_run) and ack_to >= 1
        nres = len(ref)
        outcome = "error" if r["error"] else "tables"
        ctx.case("slowack", sub, (hit if nslow else nres >= 2) and what == "stream", sa_mode=job["mode"], sa_call=f"{what}/{beh}", sa_api=job["api"], sa_fw=spec["roots"][0]["fw"],
                 sa_siblings=len(spec["groups"]), sa_result_steps=nres, sa_slow=nslow, sa_slow_pos=",".join(str(s_["pos"]) for s_ in slow_run) or "-", sa_one_worker=same_worker,
                 sa_ack_timeouts=(min(ack_to, 3) if rep.get("ack_observed") else "unobserved"), sa_outcome=outcome,
                 sa_class_hit=(("yes" if hit else "no") if job["mode"] == "mp" else "control-slow-without-command-queue") if nslow else "control", sa_wall_s=f"{int(r['wall'] // 4) * 4}-{int(r['wall'] // 4) * 4 + 4}")  # fmt: skip
        if r.get("hang_retried"):
            ctx.tag("slowack_hang_retried", 1)
        if what == "batch":
            batch = r
            continue
        assert batch is not None
        got = r["tables"]
        want = batch["tables"]
        if batch["error"] or r["error"]:
            bt, st_ = (batch["error"] or {}).get("type"), (r["error"] or {}).get("type")
            if bt != st_ and (beh == "drain" or bt is None):
                known = all(late_ack_error(job, rep, x) for x in (batch, r) if x["error"])
                ctx.violation("slowack", sub, "the streamed run and the batch run with the same arguments end differently (raised error / tables): "
                              f"stream -> {st_ or str(len(got)) + ' tables'}, batch -> {bt or str(len(want)) + ' tables'}",
                              r["error"] or f"{len(got)} tables", batch["error"] or f"{len(want)} tables", finding_class=LATE_ACK if known else None)  # fmt: skip
            elif bt == st_:
                ctx.tag("slowack_both_raise", f"{bt}{'(late ack polled as step result)' if late_ack_error(job, rep, batch) else ''}")
            if batch["error"]:
                _resources(ctx, sub, r, beh)
                continue
        gotc, wantc = _counts(got), _counts(want)
        # every yielded item is a complete table of one feature-group step (reference evaluation of the request)
        for t in got:
            if json.dumps(t, default=str) not in refc:
                ctx.violation("slowack", sub, "a yielded item is not the complete table (requested columns of one group, all rows, reference values) of one feature-group step",
                              t, ref)  # fmt: skip
                break
        _resources(ctx, sub, r, beh)
        if beh == "drain":
            if r["error"]:
                continue
            if gotc != wantc:
                twice = [json.loads(t) for t, n_ in gotc.items() if n_ > wantc.get(t, 0) and t in wantc]
                lost = [json.loads(t) for t, n_ in wantc.items() if n_ > gotc.get(t, 0)]
                extra = [json.loads(t) for t in gotc if t not in wantc]
                what_ = "multiset of streamed tables differs from the batch result of the same arguments:"
                what_ += f" {len(twice)} table(s) yielded more often than the batch returns them (yielded {len(got)}, batch {len(want)});" if twice else ""
                what_ += f" {len(lost)} table(s) lost;" if lost else ""
                what_ += f" {len(extra)} table(s) the batch does not return;" if extra else ""
                ctx.violation("slowack", sub, what_ + f" [{job['mode']}, {len(spec['groups'])} sibling steps on one framework, slow positions {slow['positions'] if slow else '-'}, "
                              f"drop-ack timeouts observed {ack_to}, yield times {r['times']}]", got, want)  # fmt: skip
        else:
            pool = dict(wantc)
            for t in got:
                key = json.dumps(t, default=str)
                if pool.get(key, 0) > 0:
                    pool[key] -= 1
                else:
                    ctx.violation("slowack", sub, "an item yielded before the consumer stopped is not a (distinct) complete table of the batch result", t, want)
                    break
            if len(got) > k:
                ctx.violation("slowack", sub, "generator yielded after the consumer stopped", len(got), k)
        if batch["alive"] or batch["flight_left"]:
            ctx.tag("slowack_batch_leftovers", 1)  # C09's subject; recorded, judged there
        if "obs" in r and rep.get("plan") is not None and not r["error"]:
            lean_reqs.append({"op": "C13.accepts", "steps": rep["plan"], "obs": r["obs"]})
            metas.append((sub, len(got), len(want), hit))


def plan_cases(ctx: Any) -> Tuple[List[List[Dict[str, Any]]], int]:
    thorough = not ctx.quick
    batches: List[List[Dict[str, Any]]] = []
    for i in range(ctx.budget(3, 24)):
        # two sibling steps: the smallest member of the class; every third slow case has >= 3 siblings (there the unchanged tree has the
        # open late-ack finding, which often makes BOTH calls raise - no verdict on duplicates from such a case)
        nslow = 2 if (thorough and i % 6 == 5) else 1
        sib = (3 if ctx.quick else ctx.rng.choice([3, 3, 4])) if (i % 3 == 2 or nslow > 1) else 2
        batches.append([gen_case(ctx.rng, nslow, "mp", thorough, siblings=sib)])
    if thorough:
        for _ in range(ctx.budget(1, 2)):  # slow siblings without a command queue: the drop happens in the orchestrator itself
            batches.append([gen_case(ctx.rng, 1, "sync", thorough)])
    nctl = ctx.budget(6, 60)
    per = 3 if ctx.quick else 6
    ctl = [gen_case(ctx.rng, 0, ctx.rng.choice(["mp", "mp", "mp", "sync"]), thorough) for _ in range(nctl)]
    batches += [ctl[i : i + per] for i in range(0, len(ctl), per)]
    return batches, (8 if thorough else 6)


def run_batches(ctx: Any, batches: List[List[Dict[str, Any]]], par: int) -> None:
    t0 = time.time()
    reports = run_children(batches, par)
    lean_reqs: List[Any] = []
    metas: List[Any] = []
    for jobs, reps in zip(batches, reports):
        for job, rep in zip(jobs, reps):
            judge(ctx, job, rep, lean_reqs, metas)
    if lean_reqs and ctx.lean is not None:
        outs = ctx.lean.batch(lean_reqs)
        for rq, (sub, nyield, nbatch, hit), o in zip(lean_reqs, metas, outs):
            ctx.case("slowack_model", {"case": sub, "obs": rq["obs"]}, bool(hit), sa_model_accepts=bool(o.get("ok")))
            if not o.get("ok"):
                ctx.disagree("slowack_model", {"case": sub, "obs": rq["obs"]}, "observed MULTIPROCESSING step trace of the drained stream", o)
                continue
            st = o["state"]
            if sorted(st["yielded"]) != sorted(st["results"]) or len(st["results"]) != nyield:
                ctx.disagree("slowack_model", {"case": sub}, {"yielded": nyield, "batch": nbatch}, {"yielded": st["yielded"], "results": st["results"]})
    ctx.extra["slowack_wall_s"] = round(time.time() - t0, 1)


def run(ctx: Any) -> None:
    rule = ctx.extra.get("rule", "")
    ctx.extra["rule"] = rule + (
        " || slowack: generated root + k>=2 requested sibling groups on one framework, MULTIPROCESSING with the flight server (all steps on one worker process), "
        "the sibling calculation the worker executes at a run-time chosen position >= 2 sleeps 6.5-7.5 s (> the 5 s drop-acknowledge wait); run_all|session.run vs "
        "stream_all|session.stream_run with the same arguments: same multiset (nothing twice / lost / extra), every item a complete step table per reference "
        "evaluation, no live worker and no flight dataset after the stream; controls with fast workers, early-stopping consumers, repeated streams; "
        "non-trivial = the drop-acknowledge wait was observed to time out with all siblings on one worker"
    )
    batches, par = plan_cases(ctx)
    run_batches(ctx, batches, par)


def search(ctx: Any, broken: List[str]) -> None:
    run(ctx)


def replay(ctx: Any, body: Dict[str, Any]) -> None:
    case = body.get("case", {})
    if "case" in case and "spec" not in case:
        case = case["case"]
    job = {"spec": case["spec"], "mode": case.get("mode", "mp"), "api": case.get("api", "all"), "history": case["history"], "hashseed": case.get("hashseed", 0)}
    if job["history"][0][0] != "batch":
        job["history"] = [["batch", "drain", 0]] + job["history"]
    run_batches(ctx, [[job]], 1)


if __name__ == "__main__":
    if "--child" in sys.argv:
        child_main()
