"""C10 extension `history`: HISTORIES of requests inside one process on feature groups whose declarations are SHARED,
long-lived objects.

Property C10 is a statement per request: the group / framework a feature resolves to (or the rejection) is a function of
THAT request - API framework list x the group's declared rule x the feature's own setting x availability x collector.
The main module c10.py creates a fresh universe of classes for every single request, so nothing a request leaves behind
in the classes can ever be seen.  Here a universe lives through a history of 2-5 requests (function level: 3-6 engine
set-ups), and the classes hand out their declarations BY REFERENCE, the way hand-written plugins do:

  rule     compute_framework_rule returns a class constant (`return cls.SUPPORTED`, inherited by subclasses -> one object
           for the whole chain), a module-level constant shared by unrelated groups with the same rule, a lazily cached
           set, or - control - a fresh set literal per call
  names    feature_names_supported returns a class constant which is also the name set of the one cached DataCreator the
           class hands out as input_data() (or fresh objects per call)
  index    index_columns returns a cached list (or a fresh list)
  domain   get_domain returns a Domain object cached per module (or a fresh one)

Suites (REAL mloda code; oracle from the property text; model = the per-request ops of the C10 driver, which know nothing
about histories - exactly what the property demands):

  hist_accessible  a sequence of PreFilterPlugins set-ups (different engine framework sets / collectors, discovery
                   restricted to the universe) on the same classes; on every mapping IdentifyFeatureGroupClass and
                   Engine.set_compute_framework with a generated feature.  Judged per step: mapping = collector-admitted
                   groups with rule ∩ frameworks ∩ available (declared rule!), identify outcome by c10.judge, every
                   mapping handed out earlier still reads as it did when it was handed out, and every declaration of every
                   class still reads as declared.  Model: C10.accessible / C10.identify per step.
  hist_e2e         a history of mloda.prepare / session.run requests (different API lists as classes or names, feature
                   pins by parameter or option, domains, collectors, occasionally links; a step is run at once, only
                   prepared, or prepared now and run after all later requests).  Per step: (i) the property oracle
                   (c10.o_expected / c10.judge) on the chosen group, the feature's framework set (= the intersection,
                   exactly), the group whose calculation ran and the python type of the table; (ii) the same request on
                   FRESHLY built classes (another creation order) must give the same outcome; (iii) all declarations
                   unchanged after the step.  Model: C10.setup + C10.resolve per step.
"""
from __future__ import annotations

import os
import tempfile
from typing import Any, Dict, List, Optional, Sequence, Tuple

from harness.core import Ctx
from harness import fgfactory as F
from harness.corr import c10 as M

SUITES = {"hist_accessible", "hist_e2e", "hist_universe_spec"}

ASSUMPTIONS = [
    "history: a feature group may return the same long-lived object from compute_framework_rule / feature_names_supported / input_data / index_columns / get_domain on every call (class constant, module constant, cached value); nothing in the FeatureGroup contract asks for fresh objects",
    "history: 'the same request in a fresh process' is evaluated as the same request on freshly built classes of the same specification (another class-creation order) in this process",
    "history: compared between history and fresh evaluation are the error kind / the chosen group, the feature's framework set and the group whose calculation ran - not the python table type, which legitimately depends on set iteration order when several frameworks are admissible (the type is judged against the admissible frameworks instead)",
]

RULE_STYLES = ["class_const", "class_const", "module_const", "cached", "fresh"]


# ------------------------------------------------------------------------------------------------
# universes whose declarations are shared objects


def gen_hist_universe(ctx: Ctx, cf: M.Cfws, uid: int) -> Dict[str, Any]:
    """same spec shape as c10.gen_universe (so c10's oracle helpers apply) + a small framework pool the rules and the
    API lists of the history are drawn from, + per class how each declaration is handed out (`share`)"""
    rng = ctx.rng
    pool = sorted(rng.sample(cf.avail, rng.randint(2, min(4, len(cf.avail)))))
    extra = [rng.choice(cf.unavail)] if cf.unavail and rng.random() < 0.25 else []
    n = rng.randint(1, 4)
    names = [f"u{uid}a", f"u{uid}b"]
    parents: List[Optional[int]] = []
    classes = []
    for c in range(n):
        parents.append(None if c == 0 or rng.random() < 0.45 else rng.randrange(c))
        own = [nm for nm in names if rng.random() < 0.8] or [names[0]]
        r = rng.random()
        if r < 0.22:
            rule: Any = "inherit"
        elif r < 0.3:
            rule = "any"
        else:
            k = 1 if rng.random() < 0.2 else rng.randint(2, len(pool))
            rule = sorted(set(rng.sample(pool, k) + ([extra[0]] if extra and rng.random() < 0.5 else [])))
        idx = None
        if rng.random() < 0.15:
            idx = [list(t) for t in rng.sample([("k",), ("k", "j"), ("j",)], rng.randint(1, 2))]
        classes.append({
            "names": own,
            "rule": rule,
            "domain": "inherit" if rng.random() < 0.7 else rng.choice(["d1", "d2", "default_domain"]),
            "idx": idx,
            "share": {
                "rule": rng.choice(RULE_STYLES),
                "names": rng.choice(["class_const", "class_const", "fresh"]),
                "idx": rng.choice(["cached", "fresh"]),
                "domain": rng.choice(["cached", "fresh"]),
            },
        })  # fmt: skip
    return {"uid": uid, "parents": parents, "classes": classes, "names": names, "pool": pool, "pool_unavailable": extra}


def build_shared(u: Dict[str, Any], cf: M.Cfws, order: Optional[Sequence[int]] = None) -> List[type]:
    """real classes for the spec; every build has its own 'module' namespace of shared constants"""
    from mloda.core.abstract_plugins.feature_group import FeatureGroup
    from mloda.core.abstract_plugins.components.domain import Domain
    from mloda.core.abstract_plugins.components.index.index import Index
    from mloda.core.abstract_plugins.components.input_data.creator.data_creator import DataCreator

    n = len(u["parents"])
    order = list(order) if order is not None else list(range(n))
    module_rules: Dict[Tuple[int, ...], set] = {}  # one set object per distinct rule, shared by unrelated groups
    module_domains: Dict[str, Any] = {}
    out: Dict[int, type] = {}

    def calc(cls: Any, data: Any, features: Any) -> Any:
        names = sorted(features.get_all_names())
        F.log_event(ev="begin", group=cls.__name__, features=names)
        return {nm: [cls.__name__, cls.__name__] for nm in names}

    for c in order:
        s = u["classes"][c]
        sh = s["share"]
        p = u["parents"][c]
        extra: Dict[str, Any] = {"calculate_feature": classmethod(calc)}
        # names / input data
        if sh["names"] == "class_const":
            const = set(s["names"])
            extra["NAMES"] = const
            extra["INPUT"] = DataCreator(const)
            extra["feature_names_supported"] = classmethod(lambda cls: cls.NAMES)
            extra["input_data"] = classmethod(lambda cls: cls.INPUT)
        # framework rule
        if s["rule"] == "any":
            extra["compute_framework_rule"] = classmethod(lambda cls: True)
        elif s["rule"] != "inherit":
            ids = tuple(s["rule"])
            if sh["rule"] == "class_const":
                extra["SUPPORTED"] = {cf.classes[i] for i in ids}
                extra["compute_framework_rule"] = classmethod(lambda cls: cls.SUPPORTED)
            elif sh["rule"] == "module_const":
                obj = module_rules.setdefault(ids, {cf.classes[i] for i in ids})
                extra["compute_framework_rule"] = classmethod(lambda cls, obj=obj: obj)
            elif sh["rule"] == "cached":

                def cached_rule(cls: Any, cache: Dict[str, Any] = {}, ids: Tuple[int, ...] = ids) -> Any:  # `cache`: one dict per definition
                    if "v" not in cache:
                        cache["v"] = {cf.classes[i] for i in ids}
                    return cache["v"]

                extra["compute_framework_rule"] = classmethod(cached_rule)
            else:
                extra["compute_framework_rule"] = classmethod(lambda cls, ids=ids: {cf.classes[i] for i in ids})
        # index columns
        if s["idx"] is not None:
            tuples = [tuple(t) for t in s["idx"]]
            if sh["idx"] == "cached":
                lst = [Index(t) for t in tuples]
                extra["index_columns"] = classmethod(lambda cls, lst=lst: lst)
            else:
                extra["index_columns"] = classmethod(lambda cls, tuples=tuples: [Index(t) for t in tuples])
        # domain
        if s["domain"] != "inherit":
            dn = s["domain"]
            if sh["domain"] == "cached":
                dobj = module_domains.setdefault(dn, Domain(dn))
                extra["get_domain"] = classmethod(lambda cls, dobj=dobj: dobj)
            else:
                extra["get_domain"] = classmethod(lambda cls, dn=dn: Domain(dn))
        out[c] = F.make_group(
            F.uniq(f"H{u['uid']}_{c}_"),
            root_data={nm: [c * 10 + 1, c * 10 + 2] for nm in s["names"]},
            bases=(FeatureGroup if p is None else out[p],),
            extra=extra,
        )
    return [out[c] for c in range(n)]


def declared(u: Dict[str, Any], c: int) -> Dict[str, Any]:
    rule = M.effective(u, c, "rule", "any")
    return {
        "rule": None if rule == "any" else list(rule),
        "names": sorted(u["classes"][c]["names"]),
        "input_names": sorted(u["classes"][c]["names"]),
        "domain": M.effective(u, c, "domain", "default_domain"),
        "idx": M.eff_idx(u, c),
    }


def reads(cf: M.Cfws, k: Any) -> Dict[str, Any]:
    """what the real class answers NOW"""
    r = k.compute_framework_rule()
    idx = k.index_columns()
    return {
        "rule": None if r is True else cf.ids(r),
        "names": sorted(k.feature_names_supported()),
        "input_names": sorted(k.input_data().feature_names),
        "domain": k.get_domain().name,
        "idx": None if idx is None else [list(i.index) for i in idx],
    }


def integrity(cf: M.Cfws, u: Dict[str, Any], classes: Sequence[type]) -> List[Dict[str, Any]]:
    """declarations that no longer read as declared: [{class, what, now, declared}]"""
    bad = []
    for c, k in enumerate(classes):
        d, r = declared(u, c), reads(cf, k)
        for key in d:
            if d[key] != r[key]:
                bad.append({"class": c, "what": key, "now": r[key], "declared": d[key]})
    return bad


def rule_objects(classes: Sequence[type]) -> List[Optional[int]]:
    """per class the identity of its rule object when the class hands out the SAME object on every call, else None"""
    out: List[Optional[int]] = []
    for k in classes:
        a, b = k.compute_framework_rule(), k.compute_framework_rule()  # type: ignore[attr-defined]
        out.append(id(a) if a is not True and a is b else None)
    return out


def engine_frameworks(cf: M.Cfws, api: Optional[List[int]]) -> List[int]:
    """loaded frameworks restricted by a non-empty API argument (what SetupComputeFramework hands to the engine)"""
    return [i for i in range(len(cf.classes)) if not api or i in api]


# ------------------------------------------------------------------------------------------------
# function level: a sequence of engine set-ups on the same classes


def gen_engine_cfws(ctx: Ctx, cf: M.Cfws, u: Dict[str, Any]) -> List[int]:
    rng = ctx.rng
    if rng.random() < 0.12:
        return list(range(len(cf.classes)))
    pool = u["pool"] + u["pool_unavailable"]
    ids = set(rng.sample(pool, rng.randint(1, len(pool))))
    if rng.random() < 0.15:
        ids.add(rng.choice(cf.avail))
    return sorted(ids)


def gen_hist_feature(ctx: Ctx, cf: M.Cfws, u: Dict[str, Any], offered: Sequence[int]) -> Tuple[str, Dict[str, Any]]:
    """mostly a name some group serves, a domain some group has, a pin among the offered frameworks"""
    rng = ctx.rng
    name = rng.choice(u["names"] * 8 + ["zz_unrelated"])
    doms = sorted({M.effective(u, c, "domain", "default_domain") for c in range(len(u["parents"]))})
    dom = None if rng.random() < 0.8 else rng.choice(doms * 3 + ["d1", "d2"])
    pin = None
    if rng.random() < 0.45:
        pin = rng.choice(list(offered) * 4 + u["pool"] + u["pool_unavailable"] + [rng.choice(cf.avail)])
    return name, {"domain": dom, "cfw": pin}


def suite_hist_accessible(ctx: Ctx, cf: M.Cfws) -> None:
    from mloda.core.prepare.accessible_plugins import PreFilterPlugins
    from mloda.core.prepare.identify_feature_group import IdentifyFeatureGroupClass
    from mloda.core.core.engine import Engine

    n = ctx.budget(800, 10000)
    reqs: List[Dict[str, Any]] = []
    checks: List[Tuple[str, Dict[str, Any], Any, bool, Dict[str, Any]]] = []
    for k in range(n):
        u = gen_hist_universe(ctx, cf, next(M._UID))
        order = M.creation_orders(ctx, u["parents"], 2)[-1]
        classes = build_shared(u, cf, order)
        nC = len(classes)
        for b in integrity(cf, u, classes):
            ctx.disagree("hist_universe_spec", {"u": u, **b}, b["now"], b["declared"])
        robj = rule_objects(classes)
        W = cf.world(u["parents"])
        steps: List[Dict[str, Any]] = []
        for _ in range(ctx.rng.randint(3, 6)):
            cfws_i = gen_engine_cfws(ctx, cf, u)
            name, feat = gen_hist_feature(ctx, cf, u, cfws_i)
            steps.append({"cfws": cfws_i, "pc": M.gen_collector(ctx, nC, allow_none=True), "name": name, "feature": feat, "links": M.gen_links(ctx) if ctx.rng.random() < 0.3 else None})
        case = {"u": u, "order": order, "steps": steps}
        handed: List[Tuple[int, Any, Any]] = []  # (step, mapping object, what it read when handed out)
        touched: List[Tuple[set, List[int]]] = []
        any_relies = False
        for i, st in enumerate(steps):
            scase = {**case, "step": i}
            cfws, pc = st["cfws"], st["pc"]
            with M.patched_discovery(classes):
                try:
                    acc = PreFilterPlugins({cf.classes[j] for j in cfws}, M.mk_collector(pc, classes)).get_accessible_plugins()
                    acc_res: Dict[str, Any] = {"ok": sorted([classes.index(g), cf.ids(s)] for g, s in acc.items())}
                    acc_order = [classes.index(g) for g in acc]
                except ValueError as e:
                    acc, acc_res, acc_order = None, {"err": M.err_kind(e)}, []
            # oracle: the collector-admitted classes, each with DECLARED rule ∩ engine frameworks ∩ available
            exp_acc = sorted([c, M.o_admissible_cfws(cf, u, c, cfws, None)] for c in range(nC) if M.o_collector(pc, c))
            relies = any(
                robj[c] is not None and robj[c] in objs and not set(fw) <= set(e_prev)
                for c, fw in exp_acc
                for objs, e_prev in touched
            )
            any_relies = any_relies or relies
            if (acc_res.get("ok") != exp_acc) if exp_acc else (acc_res != {"err": "noAccessibleGroups"}):
                ctx.violation("hist_accessible", scase, f"set-up {i} of the history: accessible plugins {acc_res}, the declared rules give {exp_acc or 'noAccessibleGroups'}", acc_res, exp_acc)
            reqs.append({"op": "C10.accessible", **W, "pc": pc, "fgs": [M.fg_json(u, c, st["name"]) for c in range(nC)], "cfws": cfws})
            checks.append(("accessible", scase, acc_res, relies, {}))
            if acc is not None:
                touched.append(({robj[c] for c in range(nC) if M.o_collector(pc, c) and robj[c] is not None}, [j for j in cfws if j in cf.avail]))
                handed.append((i, acc, acc_res["ok"]))
                # identify on the mapping itself (as the engine does), then the feature's framework set
                fobj = M.mk_feature(cf, st["name"], st["feature"], via_options=ctx.rng.random() < 0.3)
                try:
                    g, s = IdentifyFeatureGroupClass(fobj, acc, M.mk_links(st["links"], classes[0]), None).get()
                    first: Dict[str, Any] = {"ok": [classes.index(g), cf.ids(s)]}
                except ValueError as e:
                    first = {"err": M.err_kind(e)}
                exp = M.o_expected(cf, u, st["name"], st["feature"], cfws, pc, st["links"], range(nC))
                M.judge(ctx, "hist_accessible", scase, cf, u, exp, first, cfws, st["feature"], st["links"], None, before_feature_setting=True)
                acc_json = [{**M.fg_json(u, c, st["name"]), "cfws": dict((a, b) for a, b in acc_res["ok"])[c]} for c in acc_order]
                reqs.append({"op": "C10.identify", **W, "feature": st["feature"], "links": st["links"], "acc": acc_json})
                checks.append(("identify", scase, first, relies, {"expected": "one" if len(exp["pref"]) == 1 else "none" if not exp["pref"] else "multiple"}))
                if "ok" in first:
                    g_idx, s_ids = first["ok"]
                    f2 = M.mk_feature(cf, st["name"], st["feature"])
                    try:
                        Engine.set_compute_framework(None, f2, s)  # type: ignore[arg-type]
                        r2: Dict[str, Any] = {"ok": cf.ids(f2.compute_frameworks)}
                    except ValueError as e:
                        r2 = {"err": M.err_kind(e)}
                    okf = M.o_admissible_cfws(cf, u, g_idx, cfws, st["feature"]["cfw"])
                    if len(exp["pref"]) == 1 and exp["pref"][0] == g_idx and r2 != {"ok": okf}:
                        ctx.violation("hist_accessible", scase, f"set-up {i}: framework set of the feature {r2}, the intersection of engine frameworks, declared rule, feature setting and availability is {okf}", r2, okf)
            # nothing a set-up does may change what the classes declare
            for b in integrity(cf, u, classes):
                ctx.violation("hist_accessible", scase, f"after set-up {i} of the history group {b['class']} declares {b['what']} = {b['now']}; it was declared as {b['declared']} (the declaration object was changed in place)", b["now"], b["declared"])
            # mappings handed to earlier engines are theirs: they must still read as they did
            for j, mp, was in handed:
                now = sorted([classes.index(g), cf.ids(s)] for g, s in mp.items())
                if now != was:
                    ctx.violation("hist_accessible", scase, f"the accessible mapping handed out by set-up {j} read {was}; after set-up {i} it reads {now}", now, was)
        ctx.tag("hist_accessible_len", len(steps))
        ctx.tag("hist_accessible_relies_on_framework_not_offered_earlier", any_relies)
        for c in range(nC):
            if isinstance(u["classes"][c]["rule"], list):
                ctx.tag("hist_rule_share", u["classes"][c]["share"]["rule"])
        del handed, acc
        M.dispose(classes)
        M.maybe_collect()
    outs = ctx.lean.batch(reqs)
    for (kind, scase, impl, relies, tags), o in zip(checks, outs):
        if kind == "accessible":
            o2: Any = {"ok": sorted([c, sorted(s)] for c, s in o["ok"])} if "ok" in o else o
        else:
            r = o["r"]
            o2 = {"ok": [r["ok"][0], sorted(r["ok"][1])]} if "ok" in r else r
        ctx.case("hist_accessible", {**scase, "kind": kind}, relies, **({"hist_identify_outcome": "ok" if "ok" in impl else impl["err"], "hist_identify_expected": tags["expected"]} if kind == "identify" else {}))
        if impl != o2:
            ctx.disagree("hist_accessible", {**scase, "kind": kind}, impl, o2)


# ------------------------------------------------------------------------------------------------
# end to end: histories of requests


def gen_history(ctx: Ctx, cf: M.Cfws, u: Dict[str, Any]) -> List[Dict[str, Any]]:
    rng = ctx.rng
    nC = len(u["parents"])
    pool = u["pool"] + u["pool_unavailable"]
    steps = []
    for _ in range(rng.randint(2, 5)):
        r = rng.random()
        form = "classes"
        if r < 0.08:
            api: Optional[List[int]] = None
        elif r < 0.12:
            api = []
        else:
            k = rng.choice([1, 1, 2, 2, 3, len(pool)])
            api = sorted(set(rng.sample(pool, min(k, len(pool)))))
            form = rng.choice(["classes", "names"])
            if rng.random() < 0.05:
                api, form = api + [cf.unknown_id], "names"
        name, feat = gen_hist_feature(ctx, cf, u, [i for i in (api or []) if i != cf.unknown_id] or pool)
        en = [c for c in range(nC) if rng.random() < 0.8] or [rng.randrange(nC)]
        dis = [c for c in range(nC) if rng.random() < 0.08]
        steps.append({
            "name": name,
            "feature": feat,
            "via_options": rng.random() < 0.3,
            "api": api,
            "api_form": form,
            "pc": {"disabled": dis, "enabled": en},
            "links": M.gen_links(ctx, max_links=1) if rng.random() < 0.25 else None,
            "mode": rng.choice(["run", "run", "run", "prepare", "deferred"]),
        })  # fmt: skip
    return steps


def other_kind(k: str) -> str:
    """unexpected errors carry generated class names in their text: keep the exception type only"""
    return ":".join(k.split(":")[:2]) if k.startswith("other:") else k


class Runner:
    def __init__(self, cf: M.Cfws, log: str) -> None:
        self.cf = cf
        self.log = log
        self.link_side = F.make_group(F.uniq("HLinkSide_"), root_data={"zz_hlinkside": [0]})  # outside every universe

    def prepare(self, classes: Sequence[type], st: Dict[str, Any]) -> Tuple[Any, Dict[str, Any]]:
        from mloda.user import mloda

        cf = self.cf
        api = st["api"]
        if api is None:
            api_py: Any = None
        elif st["api_form"] == "names":
            api_py = [cf.classes[i].__name__ if i != cf.unknown_id else "NoSuchFramework" for i in api]
        else:
            api_py = {cf.classes[i] for i in api}
        fobj = M.mk_feature(cf, st["name"], st["feature"], via_options=st["via_options"])
        try:
            sess = mloda.prepare([fobj], compute_frameworks=api_py, links=M.mk_links(st["links"], self.link_side), plugin_collector=M.mk_collector(st["pc"], list(classes)))
        except Exception as e:
            return None, {"err": other_kind(M.err_kind(e)), "_err": M.err_kind(e)}
        sel = []
        for g, feats in sess.engine.feature_group_collection.items():
            for f in feats:
                if f.initial_requested_data and str(getattr(f.name, "name", f.name)) == st["name"]:
                    sel.append([classes.index(g) if g in classes else -1, cf.ids(f.compute_frameworks or ())])
        return sess, {"sel": sorted(sel)}

    def run(self, classes: Sequence[type], sess: Any) -> Dict[str, Any]:
        open(self.log, "w").close()
        names_ = [k.__name__ for k in classes]
        try:
            res = sess.run()
        except Exception as e:
            return {"run_err": other_kind(M.err_kind(e)), "_err": M.err_kind(e)}
        ran = sorted({e["group"] for e in M.read_events(self.log) if e.get("ev") == "begin"})
        return {"ran": [names_.index(g) for g in ran if g in names_], "types": sorted({type(t).__name__ for t in res}), "_types": [type(t) for t in res]}


def comparable(o: Dict[str, Any]) -> Dict[str, Any]:
    return {k: v for k, v in o.items() if k in ("err", "sel", "ran", "run_err")}


def run_history(ctx: Ctx, cf: M.Cfws, R: Runner, case: Dict[str, Any]) -> Dict[str, Any]:
    u, steps = case["u"], case["steps"]
    classes = build_shared(u, cf, case["order"])
    for b in integrity(cf, u, classes):
        ctx.disagree("hist_universe_spec", {"u": u, **b}, b["now"], b["declared"])
    robj = rule_objects(classes)
    results: List[Dict[str, Any]] = []
    broken: List[List[Dict[str, Any]]] = []
    deferred: List[Tuple[int, Any]] = []
    for i, st in enumerate(steps):
        os.environ[F.LOG_ENV] = R.log
        sess, obs = R.prepare(classes, st)
        if sess is not None and st["mode"] == "run":
            obs.update(R.run(classes, sess))
        elif sess is not None and st["mode"] == "deferred":
            deferred.append((i, sess))
        results.append(obs)
        broken.append(integrity(cf, u, classes))
        del sess
    for i, sess in deferred:  # run after every later request has been served
        results[i].update(R.run(classes, sess))
        broken[i] = broken[i] or integrity(cf, u, classes)
    del deferred
    # reference: each request alone, on freshly built classes
    refs: List[Dict[str, Any]] = []
    for st in steps:
        fresh = build_shared(u, cf, M.creation_orders(ctx, u["parents"], 2)[-1])
        sess, obs = R.prepare(fresh, st)
        if sess is not None and st["mode"] != "prepare":
            obs.update(R.run(fresh, sess))
        refs.append(obs)
        del sess
        M.dispose(fresh)
    M.dispose(classes)
    M.maybe_collect(40)
    return {"results": results, "refs": refs, "broken": broken, "robj": robj}


def relies_flags(cf: M.Cfws, u: Dict[str, Any], steps: List[Dict[str, Any]], exps: List[Dict[str, Any]], robj: List[Optional[int]]) -> List[str]:
    """per step: does what the property prescribes for it need a framework of a shared rule object that an EARLIER
    engine of the history was not offered?  'single' = the one admissible group needs it, 'ambiguity' = the request is
    ambiguous (must be rejected) and one of the competing groups needs it, '' = no"""
    nC = len(u["parents"])
    touched: List[Tuple[set, List[int]]] = []
    out = []
    for st, exp in zip(steps, exps):
        api_o = st["api"] if st["api"] else None
        flag = ""
        for g in exp["pref"]:
            adm = M.o_admissible_cfws(cf, u, g, api_o, st["feature"]["cfw"])
            if robj[g] is not None and any(robj[g] in objs and not set(adm) <= set(e_prev) for objs, e_prev in touched):
                flag = "single" if len(exp["pref"]) == 1 else "ambiguity"
        out.append(flag)
        offered = engine_frameworks(cf, st["api"])
        if offered and (st["feature"]["cfw"] is None or st["feature"]["cfw"] in offered):  # an engine is constructed
            touched.append(({robj[c] for c in range(nC) if M.o_collector(st["pc"], c) and robj[c] is not None}, [j for j in offered if j in cf.avail]))
    return out


def judge_history(ctx: Ctx, cf: M.Cfws, case: Dict[str, Any], h: Dict[str, Any], models: List[Dict[str, Any]]) -> None:
    u, steps = case["u"], case["steps"]
    nC = len(u["parents"])
    exps = [M.o_expected(cf, u, st["name"], st["feature"], st["api"] if st["api"] else None, st["pc"], st["links"], range(nC)) for st in steps]
    flags = relies_flags(cf, u, steps, exps, h["robj"])
    ctx.tag("hist_e2e_len", len(steps))
    ctx.tag("hist_e2e_distinct_api_lists", len({str(st["api"]) for st in steps}))
    ctx.tag("hist_e2e_relies_on_framework_not_offered_earlier", "yes" if any(flags) else "no")
    for c in range(nC):
        if isinstance(u["classes"][c]["rule"], list):
            ctx.tag("hist_rule_share", u["classes"][c]["share"]["rule"])
    for i, (st, exp, impl, ref, model) in enumerate(zip(steps, exps, h["results"], h["refs"], models)):
        scase = {**case, "step": i}
        feat, links = st["feature"], st["links"]
        api_o = st["api"] if st["api"] else None
        ctx.case(
            "hist_e2e", scase, bool(flags[i]) or i > 0,
            hist_step_mode=st["mode"], hist_step_relies=flags[i] or "no", hist_step_expected="one" if len(exp["pref"]) == 1 else "none" if not exp["pref"] else "multiple",
            hist_step_outcome=impl.get("err", impl.get("run_err", "ok")), hist_step_pin="pinned" if feat["cfw"] is not None else "free",
        )  # fmt: skip
        ctx.evaluations += 1  # the reference evaluation
        # (iii) declarations unchanged
        for b in h["broken"][i]:
            ctx.violation("hist_e2e", scase, f"after request {i} of the history group {b['class']} declares {b['what']} = {b['now']}; it was declared as {b['declared']} (the declaration object was changed in place by serving requests)", b["now"], b["declared"])
        # (ii) same request on freshly built classes
        if comparable(impl) != comparable(ref):
            ctx.violation("hist_e2e", scase, f"request {i} of the history gives {comparable(impl)}, the same request on freshly built classes gives {comparable(ref)}: resolution depends on the requests served before", comparable(impl), comparable(ref))
        # model (per request, no history)
        if "err" in model:
            if {"err": impl.get("err")} != model:
                ctx.disagree("hist_e2e", scase, comparable(impl), model)
        elif impl.get("sel") != [model["ok"]]:
            ctx.disagree("hist_e2e", scase, comparable(impl), model)
        # (i) the property
        if "err" in impl:
            M.judge(ctx, "hist_e2e", scase, cf, u, exp, {"err": impl["_err"]}, api_o, feat, links, model if "err" in model else None)
            continue
        if len(impl["sel"]) != 1:
            ctx.violation("hist_e2e", scase, f"request {i}: the requested feature was attached to groups {impl['sel']}", impl["sel"], exp["pref"])
            continue
        g, fws = impl["sel"][0]
        M.judge(ctx, "hist_e2e", scase, cf, u, exp, {"ok": [g, fws or [-1]]}, api_o, feat, links, None)
        okf = M.o_admissible_cfws(cf, u, g, api_o, feat["cfw"]) if 0 <= g < nC else []
        if exp["pref"] == [g] and fws != okf:
            ctx.violation("hist_e2e", scase, f"request {i}: framework set of the feature {fws}, the intersection of API list, declared rule, feature setting and availability is {okf}", fws, okf)
        if "run_err" in impl:
            ctx.violation("hist_e2e", scase, f"request {i} ({st['mode']}): resolved to group {g} but running it failed: {impl['_err']}", comparable(impl), [g])
        elif "ran" in impl:
            if impl["ran"] != [g]:
                ctx.violation("hist_e2e", scase, f"request {i} ({st['mode']}): resolved to group {g}, calculate_feature ran for groups {impl['ran']}", impl["ran"], [g])
            ok_types = cf.table_types(okf)
            for t in impl["_types"]:
                if exp["pref"] == [g] and t not in ok_types:
                    ctx.violation("hist_e2e", scase, f"request {i} ({st['mode']}): returned table of python type {t.__name__}, admissible frameworks give {sorted({x.__name__ for x in ok_types})}", t.__name__, sorted({x.__name__ for x in ok_types}))


def model_requests(cf: M.Cfws, case: Dict[str, Any]) -> List[Dict[str, Any]]:
    u = case["u"]
    nC = len(u["parents"])
    W = cf.world(u["parents"])
    reqs = []
    for st in case["steps"]:
        reqs.append({"op": "C10.setup", **W, "api": st["api"], "requested": [st["feature"]["cfw"]]})
        reqs.append({"op": "C10.resolve", **W, "pc": st["pc"], "fgs": [M.fg_json(u, c, st["name"]) for c in range(nC)], "cfws": engine_frameworks(cf, st["api"]), "feature": st["feature"], "links": st["links"]})
    return reqs


def models_of(outs: List[Any]) -> List[Dict[str, Any]]:
    ms = []
    for k in range(len(outs) // 2):
        s, r = outs[2 * k], outs[2 * k + 1]
        ms.append(s if "err" in s else (r["r"] if "err" in r["r"] else {"ok": [r["r"]["ok"][0], sorted(r["r"]["ok"][1])]}))
    return ms


def fixed_histories(cf: M.Cfws) -> List[Dict[str, Any]]:
    """two hand-made members of the class, so that every run contains them whatever the seed: one group with a class
    constant rule asked on one framework after the other; the same group next to a one-framework competitor"""
    pa_id, pd_id = cf.id_of[F.PyArrowTable], cf.id_of[F.PandasDataFrame]
    share = {"rule": "class_const", "names": "class_const", "idx": "cached", "domain": "cached"}

    def step(api: List[int], pc: List[int], pin: Optional[int] = None, mode: str = "run") -> Dict[str, Any]:
        return {"name": "", "feature": {"domain": None, "cfw": pin}, "via_options": False, "api": api, "api_form": "classes", "pc": {"disabled": [], "enabled": pc}, "links": None, "mode": mode}

    out = []
    for steps in (
        [step([pa_id], [0]), step([pd_id], [0]), step([pa_id, pd_id], [0], pin=pd_id), step([pa_id, pd_id], [0], pin=pa_id)],
        [step([pd_id], [0, 1], mode="prepare"), step([pa_id], [0]), step([pd_id], [0, 1]), step([pa_id, pd_id], [0, 1], mode="deferred"), step([pd_id], [0])],
    ):
        uid = next(M._UID)
        u = {
            "uid": uid, "parents": [None, None], "names": [f"u{uid}a", f"u{uid}b"], "pool": sorted([pa_id, pd_id]), "pool_unavailable": [],
            "classes": [
                {"names": [f"u{uid}a"], "rule": sorted([pa_id, pd_id]), "domain": "inherit", "idx": None, "share": dict(share)},
                {"names": [f"u{uid}a"], "rule": [pd_id], "domain": "inherit", "idx": None, "share": {**share, "rule": "fresh"}},
            ],
        }  # fmt: skip
        out.append({"u": u, "order": [0, 1], "steps": [{**s, "name": f"u{uid}a"} for s in steps]})
    return out


def suite_hist_e2e(ctx: Ctx, cf: M.Cfws, only: Optional[List[Dict[str, Any]]] = None) -> None:
    n = ctx.budget(400, 5000)
    tmp = tempfile.mkdtemp(prefix="c10h_")
    R = Runner(cf, os.path.join(tmp, "events.jsonl"))
    try:
        cases = list(only) if only is not None else fixed_histories(cf)
        while only is None and len(cases) < n:
            u = gen_hist_universe(ctx, cf, next(M._UID))
            cases.append({"u": u, "order": M.creation_orders(ctx, u["parents"], 2)[-1], "steps": gen_history(ctx, cf, u)})
        reqs: List[Dict[str, Any]] = []
        hs = []
        for case in cases:
            hs.append(run_history(ctx, cf, R, case))
            reqs += model_requests(cf, case)
        outs = ctx.lean.batch(reqs)
        pos = 0
        for case, h in zip(cases, hs):
            k = 2 * len(case["steps"])
            judge_history(ctx, cf, case, h, models_of(outs[pos : pos + k]))
            pos += k
    finally:
        os.environ.pop(F.LOG_ENV, None)
        import shutil

        shutil.rmtree(tmp, ignore_errors=True)


# ------------------------------------------------------------------------------------------------


def run(ctx: Ctx) -> None:
    ctx.extra["rule"] = (ctx.extra.get("rule", "") + " | history: universes of 1-4 groups over a pool of 2-4 available (+ sometimes one unavailable) frameworks whose "
        "rules / names / input data / index columns / domains are handed out by reference (class constant shared along the inheritance chain, module constant shared by "
        "unrelated groups, cached value; control: fresh objects); hist_accessible: 3-6 PreFilterPlugins set-ups per universe with different framework sets and collectors, "
        "identify + set_compute_framework on every mapping; hist_e2e: 2-5 requests per universe (API list as classes / names / None / empty / unknown name, feature pins, "
        "domains, collectors, links; run at once / prepared only / prepared and run after the later requests), each also evaluated alone on freshly built classes; "
        "non-trivial = a later step of a history")  # fmt: skip
    cf = M.Cfws()
    suite_hist_accessible(ctx, cf)
    suite_hist_e2e(ctx, cf)


def search(ctx: Ctx, broken: List[str]) -> None:
    run(ctx)


def replay(ctx: Ctx, body: Dict[str, Any]) -> None:
    case = body.get("case") or {}
    if body.get("suite") == "hist_e2e" and "steps" in case:
        cf = M.Cfws()
        suite_hist_e2e(ctx, cf, only=[{"u": case["u"], "order": case["order"], "steps": case["steps"]}])
    else:
        run(ctx)
