"""C14 extension `seq` - conversions are judged along the LIFE of one table object, not on single fresh tables.

The main C14 harness converts every generated table exactly once per path (one fresh object per conversion).  Inside mloda
one table object is converted several times: a dataset feeds consumers on several frameworks, and between those
conversions mloda legally changes the object IN PLACE (PandasDataFrame.transform adds a pd.Series as a new column to the
existing frame and returns the same frame; PythonDict feature groups add keys to the row dicts / append rows and return the
same list), while the consumers that received a mutable result (a DataFrame, a list of row dicts) work on it.

Input class (generated, not replayed)
  seq_hist  a POOL of table objects and a history of steps over it.  Object 0 is a generated table (value classes of the
            main harness: nulls, NaN, +-0, +-inf, large floats, empty / unicode strings, booleans, all-null columns, row dicts
            with permuted key order, pandas nullable dtypes).  Steps:
              conv    convert pool object i to another framework through one of the real entry points (the transformer's
                      `transform`, TransformFrameworkStep.transform - direct hop or the two-hop chain through Arrow -,
                      ComputeFramework.transform, ComputeFramework.convert_flyserver_data_back); the result joins the pool
              addcol  grow an object in place: pandas through the pd.Series path of PandasDataFrame.transform or
                      `frame[name] = values`; row dicts get a new key
              append / poprow   a row dict is appended to / removed from a list
              setval  one cell of a mutable object is overwritten (same value class)
            Histories are built in blocks `convert i -> change i or the result just handed out -> convert the SAME object i
            again` (same target or the other one, whose chain starts with the same hop), so that the same transformer is asked
            in the same direction for the same source object before and after a change.
  seq_e2e   mloda.run_all (SYNC): a root group on a source framework, derived groups on the same framework that add their
            feature in place (Series / in place / new table), and one consumer group on each of one or two OTHER frameworks, each
            depending on features of one producing group; the request order is permuted (it decides whether a framework switch
            is scheduled before or after a feature is added to the source table).

Oracle (property text: a conversion preserves column names, number and order of rows and every value)
  Every pool object has a SHADOW: a table of typed cells (main harness' canonical form) that is updated only by the reference
  semantics of the steps applied to that object (plain Python, never reads the real object).  The value-preserving image of a
  table is the same column table in every framework.
    * at every conversion: the result has the target type and equals the image of the source's shadow AS IT IS AT THAT MOMENT
      (null/NaN and the widening of a nullable integer column are the only tolerated differences - main harness' comparison);
      a result that passed becomes a pool object whose shadow is the table it was handed out as (with the tolerated
      representation change it carries);
    * after every step: every object of the pool still equals its own shadow - a table handed to one consumer is not changed
      by a later conversion, by growth of the source, or by what another consumer does with ITS table.
  seq_e2e: every group receives a table of its framework's type that contains its parent columns, every column it contains
  holds the reference values (bottom-up evaluation in plain Python), and the requested features equal the reference.

Model side: every conversion of a history is one independent conversion for the Lean Transform model (main driver): the
recorded hop sequence and result type are compared with C14.tfs / C14.cfw / C14.convertBack, the values with C14.approx.
"""
from __future__ import annotations

import copy
import itertools
from typing import Any, Dict, List, Optional, Set, Tuple

from harness.core import Ctx
from harness import fgfactory as F
from harness import schedlib as S
from harness.corr import c14 as M

SUITES = {"seq_hist", "seq_e2e"}

ASSUMPTIONS = [
    "seq: an Arrow table made from a pandas frame may share the frame's numeric buffers (pa.Table.from_pandas is zero-copy for "
    "null-free int/float columns; pyarrow documents it).  Overwriting an EXISTING cell of the frame afterwards therefore shows in "
    "tables converted from it earlier.  mloda has no path that overwrites a computed column (features are only added), so this is "
    "recorded as an observation (tag seq_zero_copy_alias) under a narrow predicate (descendant of the overwritten frame, exactly "
    "the overwritten cell, exactly the new value) and not judged; growth (new column / key / row) must never show in earlier results",
    "seq: generated tables have >= 1 row, integers within +-2^53 and a default pandas index (the zero-row, big-int and index "
    "classes are open findings of the main harness and are kept out of the histories); appended rows carry the same key set",
    "seq_e2e: SYNC only; every consumer depends on features of ONE producing group (a consumer on another framework whose parents "
    "come from two groups of the source framework is rejected by the unchanged planner - not a conversion matter)",
]

PA, PD, PY = M.PA, M.PD, M.PY
MUTABLE = {"pd", "py"}
FWS = ["pa", "pd", "py"]
PP_NAME, LP_NAME = "PandasPyArrowTransformer", "PythonDictPyArrowTransformer"

INT_VALS = M.SMALL_INTS + [2**31, -(2**31) - 1, M.TWO53]


# --------------------------------------------------------------------------------------
# shadows: plain column tables  {"fw": .., "cols": [{"name", "kind", "vals"}]}


def gen_val(rng: Any, kind: str) -> Any:
    if kind == "int":
        return rng.choice(INT_VALS)
    if kind == "float":
        return rng.choice(M.FLOATS)
    if kind == "str":
        return rng.choice(M.STRS)
    if kind == "bool":
        return rng.choice(M.BOOLS)
    return None


def gen_col(rng: Any, name: str, n: int) -> Dict[str, Any]:
    kind = rng.choice(["int", "int", "float", "float", "str", "bool", "allnull"])
    pnull = rng.choice([0.0, 0.0, 0.0, 0.3, 0.5])
    vals = [None if (kind == "allnull" or rng.random() < pnull) else gen_val(rng, kind) for _ in range(n)]
    return {"name": name, "kind": kind, "vals": vals}


def gen_source(rng: Any) -> Dict[str, Any]:
    nrows = rng.choice([1, 2, 2, 3, 3, 4])
    ncols = rng.randint(1, 3)
    cols = [gen_col(rng, rng.choice(["a", "b", "c", "x y", "ü", "col"]) + str(i), nrows) for i in range(ncols)]
    py_perm = rng.randint(1, 10**6) if (ncols >= 2 and nrows >= 2 and rng.random() < 0.5) else None
    # pandas' convert_dtypes turns a float column whose values are all integral (NaN counts as missing) into Int64: such a frame would not be the
    # table the shadow describes, so the nullable dtypes are only used when no float column is of that kind
    import math

    integral = any(c["kind"] == "float" and all(v is None or math.isnan(v) or (math.isfinite(v) and v == int(v)) for v in c["vals"]) for c in cols)
    return {"cols": cols, "nrows": nrows, "pd_nullable": rng.random() < 0.2 and not integral, "pd_index": False, "py_perm": py_perm}


def image(shadow: Dict[str, Any]) -> List[Dict[str, Any]]:
    """the value-preserving image of a table in any framework, as typed cells (reference conversion: it is the same column
    table whatever the representation is)"""
    return [{"name": c["name"], "cells": [M.cell(v) for v in c["vals"]]} for c in shadow["cols"]]


def nrows_of(shadow: Dict[str, Any]) -> int:
    return len(shadow["cols"][0]["vals"]) if shadow["cols"] else 0


def apply_shadow(pool: List[Dict[str, Any]], step: Dict[str, Any]) -> None:
    """reference semantics of one step on the shadows (pure Python; never touches a real object)"""
    op = step["op"]
    sh = pool[step["obj"]]
    if op == "conv":
        cols = copy.deepcopy(sh["cols"])
        if step["dst"] == "pd":
            # the tolerated widening: pandas holds an integer column with nulls as floats; from here on it IS a float column
            # (values written to it later are floats) - only the generator needs to know, the oracle compares typed cells
            for c in cols:
                if c["kind"] == "int" and any(v is None for v in c["vals"]):
                    c["kind"] = "float"
                    c["vals"] = [None if v is None else float(v) for v in c["vals"]]
        pool.append({"fw": step["dst"], "cols": cols})
    elif op == "addcol":
        sh["cols"].append({"name": step["name"], "kind": step["kind"], "vals": list(M.dec_vals(step["vals"]))})
    elif op == "setval":
        col = next(c for c in sh["cols"] if c["name"] == step["col"])
        col["vals"][step["row"]] = M.dec_vals([step["val"]])[0]
    elif op == "append":
        row = dict(zip(step["order"], M.dec_vals([step["row"][k] for k in step["order"]])))
        for c in sh["cols"]:
            c["vals"].append(row[c["name"]])
    elif op == "poprow":
        for c in sh["cols"]:
            c["vals"].pop()
    else:
        raise ValueError(op)


def apply_cells(tab: List[Dict[str, Any]], step: Dict[str, Any]) -> None:
    """the same reference semantics on a table of typed cells (the executor's shadows: a conversion result that passed the
    oracle IS from then on what its owner holds, tolerated representation changes included)"""
    op = step["op"]
    if op == "addcol":
        tab.append({"name": step["name"], "cells": [M.cell(v) for v in M.dec_vals(step["vals"])]})
    elif op == "setval":
        next(c for c in tab if c["name"] == step["col"])["cells"][step["row"]] = M.cell(M.dec_vals([step["val"]])[0])
    elif op == "append":
        for c in tab:
            c["cells"].append(M.cell(M.dec_vals([step["row"][c["name"]]])[0]))
    elif op == "poprow":
        for c in tab:
            c["cells"].pop()
    else:
        raise ValueError(op)


# --------------------------------------------------------------------------------------
# history generator (works on the shadows only, so a history is a self-contained JSON value)


def first_hop(fw: str, dst: str) -> Tuple[str, str]:
    """(transformer, direction) of the first hop of a conversion fw -> dst (registry of the installed frameworks)"""
    if fw == "pd":
        return (PP_NAME, "left")
    if fw == "py":
        return (LP_NAME, "left")
    return (PP_NAME, "right") if dst == "pd" else (LP_NAME, "right")


def second_hop(fw: str, dst: str) -> Optional[Tuple[str, str]]:
    if "pa" in (fw, dst):
        return None
    return (LP_NAME, "right") if dst == "py" else (PP_NAME, "right")


def pick_via(rng: Any, fw: str, dst: str) -> str:
    if "pa" not in (fw, dst):
        return "tfs"  # the two-hop chain exists only inside TransformFrameworkStep
    return rng.choice(["hop", "tfs", "tfs", "cfw"] + (["back"] if fw == "pa" else []))


class HistGen:
    def __init__(self, rng: Any) -> None:
        self.rng = rng
        self.spec = gen_source(rng)
        self.src = rng.choice(["pd", "pd", "py", "py", "pa"])
        self.pool: List[Dict[str, Any]] = [{"fw": self.src, "cols": copy.deepcopy(self.spec["cols"])}]
        self.steps: List[Dict[str, Any]] = []
        self.k = 0

    def push(self, step: Dict[str, Any]) -> None:
        self.steps.append(step)
        apply_shadow(self.pool, step)

    def conv(self, i: int, dst: str) -> int:
        self.push({"op": "conv", "obj": i, "dst": dst, "via": pick_via(self.rng, self.pool[i]["fw"], dst)})
        return len(self.pool) - 1

    def change(self, i: int) -> bool:
        rng = self.rng
        sh = self.pool[i]
        fw = sh["fw"]
        if fw not in MUTABLE:
            return False
        n = nrows_of(sh)
        kinds = ["addcol", "addcol", "addcol", "setval"] + (["append", "append"] + (["poprow"] if n >= 2 else []) if fw == "py" else [])
        kind = rng.choice(kinds)
        if kind == "addcol":
            col = gen_col(rng, rng.choice(["n", "n", "neu_ü", "new col"]) + str(self.k), n)
            self.k += 1
            how = rng.choice(["series", "series", "setitem"]) if fw == "pd" else "addkey"
            self.push({"op": "addcol", "obj": i, "how": how, "name": col["name"], "kind": col["kind"], "vals": M.enc_vals(col["vals"])})
            return True
        if kind == "setval":
            # overwrite a non-null cell by a non-null value of the same class (the null pattern, hence the column type, stays)
            cands = [(r, c) for c in sh["cols"] if c["kind"] != "allnull" for r, v in enumerate(c["vals"]) if v is not None]
            if not cands:
                return False
            r, c = rng.choice(cands)
            v = gen_val(rng, c["kind"])
            self.push({"op": "setval", "obj": i, "row": r, "col": c["name"], "val": M.enc_vals([v])[0]})
            return True
        if kind == "append":
            order = [c["name"] for c in sh["cols"]]
            if rng.random() < 0.4:
                rng.shuffle(order)
            row = {c["name"]: (None if (c["kind"] == "allnull" or rng.random() < 0.2) else gen_val(rng, c["kind"])) for c in sh["cols"]}
            self.push({"op": "append", "obj": i, "order": order, "row": {k: M.enc_vals([v])[0] for k, v in row.items()}})
            return True
        self.push({"op": "poprow", "obj": i})
        return True

    def build(self) -> Dict[str, Any]:
        rng = self.rng
        for _ in range(rng.randint(1, 3)):
            i = 0 if rng.random() < 0.6 else rng.randrange(len(self.pool))
            fw = self.pool[i]["fw"]
            others = [x for x in FWS if x != fw]
            dst = rng.choice(others)
            j = self.conv(i, dst)
            for _ in range(rng.choice([0, 1, 1, 1, 2])):
                targets = [t for t in (i, i, j) if self.pool[t]["fw"] in MUTABLE]
                if targets:
                    self.change(rng.choice(targets))
            dst2 = dst if rng.random() < 0.65 else next(x for x in others if x != dst)
            j2 = self.conv(i, dst2)
            if rng.random() < 0.35:
                targets = [t for t in (i, j, j2) if self.pool[t]["fw"] in MUTABLE]
                if targets:
                    self.change(rng.choice(targets))
                self.conv(i, rng.choice(others))
        return {"table": M.encode_spec(self.spec), "src": self.src, "steps": self.steps}


def patterns_of(case: Dict[str, Any]) -> Set[str]:
    """Which re-conversion situations the history contains: the same transformer is asked in the same direction for the same
    source object twice in a row, and in between the source changed (`src_changed`), the result handed out the first time was
    changed by its consumer (`res_changed`), or nothing changed (`unchanged`)."""
    fws = [case["src"]]
    version = [0]
    last: Dict[str, Any] = {}  # transformer -> (direction, source object, source version, result object or None, result version)
    out: Set[str] = set()
    fresh = itertools.count(10**6)
    for st in case["steps"]:
        i = st["obj"]
        if st["op"] != "conv":
            version[i] += 1
            continue
        fw, dst = fws[i], st["dst"]
        j = len(fws)
        fws.append(dst)
        version.append(0)
        t1, d1 = first_hop(fw, dst)
        h2 = second_hop(fw, dst)
        prev = last.get(t1)
        if prev is not None and prev[0] == d1 and prev[1] == i:
            if prev[2] != version[i]:
                out.add("src_changed")
            elif prev[3] is not None and version[prev[3]] != prev[4]:
                out.add("res_changed")
            else:
                out.add("unchanged")
        last[t1] = (d1, i, version[i], None if h2 else j, 0)
        if h2:
            last[h2[0]] = (h2[1], next(fresh), 0, j, 0)
    return out


# --------------------------------------------------------------------------------------
# executing a history on the real code


def _pd_series(name: str, kind: str, vals: List[Any], index: Any) -> Any:
    import pandas as pd

    dtype = object if (kind in ("int", "bool", "allnull") and any(v is None for v in vals)) else None
    return pd.Series(vals, dtype=dtype, name=name, index=index)


def do_change(obj: Any, st: Dict[str, Any]) -> Any:
    """the in-place change on the real object; returns the object the owner holds afterwards"""
    from mloda_plugins.compute_framework.base_implementations.pandas.dataframe import PandasDataFrame

    op = st["op"]
    if op == "addcol":
        vals = M.dec_vals(st["vals"])
        if st["how"] == "series":
            cfw = M.mk_cfw(PandasDataFrame)
            cfw.set_data(obj)
            return cfw.transform(_pd_series(st["name"], st["kind"], vals, obj.index), {st["name"]})  # `self.data[name] = series; return self.data`
        if st["how"] == "setitem":
            obj[st["name"]] = _pd_series(st["name"], st["kind"], vals, obj.index)
            return obj
        for r, v in zip(obj, vals):
            r[st["name"]] = v
        return obj
    if op == "setval":
        v = M.dec_vals([st["val"]])[0]
        if isinstance(obj, list):
            obj[st["row"]][st["col"]] = v
        else:
            obj.loc[obj.index[st["row"]], st["col"]] = v
        return obj
    if op == "append":
        vals = M.dec_vals([st["row"][k] for k in st["order"]])
        obj.append(dict(zip(st["order"], vals)))
        return obj
    if op == "poprow":
        obj.pop()
        return obj
    raise ValueError(op)


def do_conv(obj: Any, fw: str, st: Dict[str, Any]) -> Dict[str, Any]:
    from mloda.core.abstract_plugins.compute_framework import ComputeFramework
    from mloda.core.abstract_plugins.components.framework_transformer.cfw_transformer import ComputeFrameworkTransformer
    from mloda_plugins.compute_framework.base_implementations.pandas.pandaspyarrowtransformer import PandasPyArrowTransformer
    from mloda_plugins.compute_framework.base_implementations.python_dict.python_dict_pyarrow_transformer import PythonDictPyArrowTransformer

    src, dst, via = F.FW_SHORT[fw], F.FW_SHORT[st["dst"]], st["via"]
    ts, td = src.expected_data_framework(), dst.expected_data_framework()
    with M.HopRecorder([PandasPyArrowTransformer, PythonDictPyArrowTransformer]) as rec:
        try:
            if via == "hop":
                out = ComputeFrameworkTransformer().transformer_map[(ts, td)].transform(ts, td, obj, None)
            elif via == "tfs":
                out = M.mk_tfs(src, dst).transform(M.mk_cfw(dst), obj, set())
            elif via == "cfw":
                out = ComputeFramework.transform(M.mk_cfw(dst), obj, set())
            elif via == "back":
                out = dst.convert_flyserver_data_back(obj, ComputeFrameworkTransformer())
            else:
                raise ValueError(via)
            return {"out": out, "ty": M.tname(type(out)) if out is not None else None, "hops": list(rec.calls)}
        except Exception as e:  # noqa: BLE001
            return {"out": None, "err": M.err_class(e), "msg": (type(e).__name__ + ": " + str(e))[:200], "hops": list(rec.calls)}


def model_req(fw: str, st: Dict[str, Any], rj: Dict[str, Any]) -> Dict[str, Any]:
    ts, td = M.TYPE_OF_FW[fw], M.TYPE_OF_FW[st["dst"]]
    if st["via"] == "tfs":
        return {"op": "C14.tfs", **rj, "from": ts, "to": td, "dty": ts}
    if st["via"] == "back":
        return {"op": "C14.convertBack", **rj, "expected": td, "dty": ts}
    return {"op": "C14.cfw", **rj, "expected": td, "dty": ts}


def _only_cell_differs(exp: List[Dict[str, Any]], got: Optional[List[Dict[str, Any]]], col: str, row: int, newcell: List[Any]) -> bool:
    """`got` is `exp` with exactly the cell (col, row) replaced by `newcell`"""
    if got is None:
        return False
    patched = copy.deepcopy(exp)
    hit = [c for c in patched if c["name"] == col]
    if not hit or row >= len(hit[0]["cells"]):
        return False
    hit[0]["cells"][row] = newcell
    return not M.oracle_preserved(patched, got)


def run_history(ctx: Ctx, case: Dict[str, Any], rj: Dict[str, Any], reqs: List[Dict[str, Any]], pend: List[Any]) -> None:
    """Execute one history; violations are reported here, model comparisons are queued in reqs/pend."""
    spec = M.decode_spec(case["table"])
    fws: List[str] = [case["src"]]
    shadows: List[List[Dict[str, Any]]] = [image({"cols": spec["cols"]})]
    objs: List[Any] = [M.build_native(spec, case["src"])]
    parent: List[Optional[int]] = [None]
    pats = patterns_of(case)
    nconv = sum(1 for s in case["steps"] if s["op"] == "conv")
    pat = "+".join(sorted(pats - {"unchanged"})) or ("unchanged_only" if pats else "no_reconversion")
    ctx.case("seq_hist", case, bool(pats & {"src_changed", "res_changed"}), seq_pattern=pat, seq_src=case["src"], seq_conversions=nconv)
    for st in case["steps"]:
        ctx.tag("seq_step", st["op"] + (":" + st.get("how", st.get("via", "")) if st["op"] in ("addcol", "conv") else ""))
    bad0 = M.oracle_preserved(shadows[0], M.norm_table(objs[0]))
    if bad0:  # the generated object itself must be what its shadow says (harness self-check, not a verdict on mloda)
        raise AssertionError(f"seq_hist: built table differs from its shadow: {bad0} case={case}")

    def ancestors(k: int) -> Set[int]:
        out: Set[int] = set()
        while parent[k] is not None:
            k = parent[k]  # type: ignore[assignment]
            out.add(k)
        return out

    for si, st in enumerate(case["steps"]):
        i = st["obj"]
        where = f"step {si} ({st['op']} on object {i}, a {fws[i]} table)"
        if st["op"] == "conv":
            fw = fws[i]
            ctx.tag("seq_conv_pair", f"{fw}->{st['dst']}" + ("(chain)" if "pa" not in (fw, st["dst"]) else ""))
            exp = copy.deepcopy(shadows[i])  # the source as it is at this moment
            res = do_conv(objs[i], fw, st)
            got = M.norm_table(res["out"]) if res.get("out") is not None else None
            has_approx = got is not None and not any(c[0] == "other" for col in got for c in col["cells"])
            reqs.append(model_req(fw, st, rj))
            if has_approx:
                reqs.append({"op": "C14.approx", "a": exp, "b": got})
            pend.append((case, si, res, exp, got, has_approx))
            bad: List[str] = []
            if "err" in res:
                bad = [f"conversion failed: {res.get('msg')}"]
            else:
                if res["ty"] != M.TYPE_OF_FW[st["dst"]]:
                    bad.append(f"result type {res['ty']} instead of {M.TYPE_OF_FW[st['dst']]}")
                bad += M.oracle_preserved(exp, got)
            if bad:
                ctx.violation("seq_hist", case, f"{where} -> {st['dst']} via {st['via']}: the result is not the image of the source as it is at this moment: " + "; ".join(bad[:3]), got, exp)
                return
            # accepted: from now on the result is a table of its own (with the tolerated representation changes it carries)
            fws.append(st["dst"])
            shadows.append(copy.deepcopy(got))  # type: ignore[arg-type]
            objs.append(res["out"])
            parent.append(i)
        else:
            try:
                objs[i] = do_change(objs[i], st)
            except Exception as e:  # noqa: BLE001
                ctx.violation("seq_hist", case, f"{where}: the in-place change raised {type(e).__name__}: {str(e)[:160]}")
                return
            apply_cells(shadows[i], st)
        # every table of the pool is still what its owner holds: not changed by this step unless the step was applied to it
        for k in range(len(objs)):
            expk = shadows[k]
            gotk = M.norm_table(objs[k])
            badk = M.oracle_preserved(expk, gotk)
            if not badk:
                continue
            if st["op"] == "setval" and k != i and i in ancestors(k):
                newcell = M.cell(M.dec_vals([st["val"]])[0])
                if _only_cell_differs(expk, gotk, st["col"], st["row"], newcell):
                    ctx.tag("seq_zero_copy_alias", f"{fws[i]}->{fws[k]}")
                    next(c for c in expk if c["name"] == st["col"])["cells"][st["row"]] = newcell  # follow the shared buffer (see ASSUMPTIONS)
                    continue
            whose = "the changed table itself" if (k == i and st["op"] != "conv") else ("the source of the conversion" if k == i else f"object {k} (a {fws[k]} table handed out earlier)")
            ctx.violation("seq_hist", case, f"{where}: afterwards {whose} no longer holds what its owner put there: " + "; ".join(badk[:3]), gotk, expk)
            return


def finish_histories(ctx: Ctx, reqs: List[Dict[str, Any]], pend: List[Any]) -> None:
    outs = ctx.lean.batch(reqs)
    k = 0
    for case, si, res, exp, got, has_approx in pend:
        mo = outs[k]
        k += 1
        lean_ok = None
        if has_approx:
            lean_ok = outs[k]
            k += 1
        brief = {"history": case, "step": si}
        if "err" in mo:
            if res.get("err") != mo["err"]:
                ctx.disagree("seq_hist", brief, {"err": res.get("err"), "hops": res["hops"], "msg": res.get("msg")}, mo)
        elif "err" in res:
            if not (res["err"].startswith("hop:") and res["hops"] == mo.get("hops", [])[: len(res["hops"])]):
                ctx.disagree("seq_hist", brief, {"err": res["err"], "hops": res["hops"], "msg": res.get("msg")}, mo)
        elif res["hops"] != mo.get("hops") or res["ty"] != mo.get("ty"):
            ctx.disagree("seq_hist", brief, {"hops": res["hops"], "ty": res["ty"]}, mo)
        if has_approx and "err" not in res:
            val_bad = bool(M.oracle_preserved(exp, got))
            if lean_ok == val_bad:
                ctx.disagree("seq_hist", brief, {"oracle_preserved": not val_bad, "src": exp, "dst": got}, {"lean_approx": lean_ok})


def check_histories(ctx: Ctx, cases: List[Dict[str, Any]]) -> None:
    rj = M.reg_json(M.real_registry())
    for lo in range(0, len(cases), 1500):
        reqs: List[Dict[str, Any]] = []
        pend: List[Any] = []
        for case in cases[lo : lo + 1500]:
            run_history(ctx, case, rj, reqs, pend)
        finish_histories(ctx, reqs, pend)


def fixed_histories() -> List[Dict[str, Any]]:
    """a few plain histories of the class that are always run (one per growth path and direction)"""

    def tab(cols: Dict[str, Tuple[str, List[Any]]]) -> Dict[str, Any]:
        c = [{"name": n, "kind": k, "vals": v} for n, (k, v) in cols.items()]
        return M.encode_spec({"cols": c, "nrows": len(c[0]["vals"]), "pd_nullable": False, "pd_index": False, "py_perm": None})

    t = tab({"k": ("int", [1, 2, 3]), "s": ("str", ["", "ü", None]), "f": ("float", [0.5, -0.0, float("nan")])})
    add = lambda how, name: {"op": "addcol", "obj": 0, "how": how, "name": name, "kind": "int", "vals": [10, None, 30]}  # noqa: E731
    out = []
    for src, how in (("pd", "series"), ("pd", "setitem"), ("py", "addkey")):
        other = "py" if src == "pd" else "pd"
        out.append({"table": t, "src": src, "steps": [{"op": "conv", "obj": 0, "dst": "pa", "via": "tfs"}, add(how, "n0"), {"op": "conv", "obj": 0, "dst": "pa", "via": "hop"},
                                                      add(how, "n1"), {"op": "conv", "obj": 0, "dst": other, "via": "tfs"}]})  # fmt: skip
    out.append({"table": t, "src": "py", "steps": [{"op": "conv", "obj": 0, "dst": "pd", "via": "tfs"}, {"op": "append", "obj": 0, "order": ["f", "k", "s"], "row": {"k": 4, "s": "z", "f": None}},
                                                   {"op": "conv", "obj": 0, "dst": "pd", "via": "tfs"}, {"op": "poprow", "obj": 0}, {"op": "poprow", "obj": 0}, {"op": "conv", "obj": 0, "dst": "pa", "via": "cfw"}]})  # fmt: skip
    for dst in ("pd", "py"):
        touch = {"op": "addcol", "obj": 1, "how": "setitem" if dst == "pd" else "addkey", "name": "mine", "kind": "bool", "vals": [True, False, None]}
        out.append({"table": t, "src": "pa", "steps": [{"op": "conv", "obj": 0, "dst": dst, "via": "tfs"}, touch, {"op": "conv", "obj": 0, "dst": dst, "via": "back"},
                                                       {"op": "setval", "obj": 2, "row": 0, "col": "k", "val": 7}, {"op": "conv", "obj": 0, "dst": dst, "via": "hop"}]})  # fmt: skip
    return out


# --------------------------------------------------------------------------------------
# suite seq_e2e


def gen_e2e_spec(rng: Any) -> Dict[str, Any]:
    uid = F.uniq("")
    src = rng.choice(["pd", "pd", "pd", "py", "py", "pa"])
    others = [x for x in FWS if x != src]
    nrows = rng.randint(1, 4)
    root = {"name": f"Q{uid}", "fw": src, "cols": {f"q{uid}_{i}": [rng.randint(-5, 9) for _ in range(nrows)] for i in range(rng.randint(1, 2))}}
    producers: List[List[str]] = [list(root["cols"])]  # features per producing group of the source framework
    avail = list(root["cols"])
    groups: List[Dict[str, Any]] = []
    for g in range(rng.randint(1, 3)):
        f = f"s{uid}_{g}"
        parents = rng.sample(avail, min(len(avail), rng.choice([1, 1, 2])))
        expr: Any = ["col", parents[0]]
        for q in parents[1:]:
            expr = [rng.choice(["add", "sub", "mul"]), expr, ["col", q]]
        expr = ["add", expr, ["const", rng.randint(1, 3)]]
        if src == "pd":
            style: Any = rng.choice(["series", "series", True, False])
        elif src == "py":
            style = rng.choice([True, True, True, False])
        else:
            style = False  # Arrow tables are immutable: a new table per feature
        groups.append({"name": f"S{uid}_{g}", "fw": src, "style": style, "features": {f: {"parents": parents, "expr": expr}}})
        avail.append(f)
        producers.append([f])
    consumers = []
    rng.shuffle(others)
    ncons = rng.choice([2, 2, 2, 2, 1])
    # parents of a consumer come from ONE producing group.  Mostly: an EARLY consumer (a root column or an early feature) next to
    # a LATE one (a feature added to the source table after the early consumer's parent) - then a framework switch can be
    # scheduled between two additions to the source table
    early_late = ncons == 2 and rng.random() < 0.75
    cut = rng.randrange(1, len(producers))
    for j, fw in enumerate(others[:ncons]):
        f = f"c{uid}_{j}"
        if early_late:
            grp = rng.choice(producers[:cut]) if j == 0 else rng.choice(producers[cut:])
        else:
            grp = rng.choice(producers[1:] + producers)
        parents = rng.sample(grp, min(len(grp), rng.choice([1, 2])))
        expr = ["col", parents[0]]
        for q in parents[1:]:
            expr = ["add", expr, ["col", q]]
        expr = [rng.choice(["mul", "add"]), expr, ["const", 2]]
        groups.append({"name": f"C{uid}_{j}", "fw": fw, "style": False, "consumer": True, "features": {f: {"parents": parents, "expr": expr}}})
        consumers.append(f)
    req = list(consumers) + [x for x in avail if rng.random() < 0.25]
    rng.shuffle(req)
    return {"roots": [root], "groups": groups, "request": [{"name": n, "options": {}} for n in req]}


def request_orders(rng: Any, req: List[Any]) -> List[List[Any]]:
    orders = [list(req), list(req)[::-1]]
    sh = list(req)
    rng.shuffle(sh)
    orders.append(sh)
    seen, out = set(), []
    for o in orders:
        key = tuple(r["name"] for r in o)
        if key not in seen:
            seen.add(key)
            out.append(o)
    return out


def run_e2e_case(ctx: Ctx, spec: Dict[str, Any], rj: Dict[str, Any], reqs: List[Dict[str, Any]], pend: List[Any]) -> None:
    from mloda_plugins.compute_framework.base_implementations.pandas.pandaspyarrowtransformer import PandasPyArrowTransformer
    from mloda_plugins.compute_framework.base_implementations.python_dict.python_dict_pyarrow_transformer import PythonDictPyArrowTransformer

    ref = S.reference(spec)
    obs: List[Dict[str, Any]] = []

    def before_calc(cls: Any, data: Any, features: Any) -> None:
        obs.append({"group": cls.__name__, "ty": M.tname(type(data)) if data is not None else None, "table": M.norm_table(data)})

    classes = S.build_classes(spec, hooks={"before_calc": before_calc})
    gspec = {g["name"]: g for g in spec["groups"]}
    src = spec["roots"][0]["fw"]
    cons = [g for g in spec["groups"] if g.get("consumer")]
    styles = sorted({str(g["style"]) for g in spec["groups"] if not g.get("consumer")})
    try:
        sess = S.prepare(spec, classes)
    except Exception as e:  # noqa: BLE001
        ctx.case("seq_e2e", spec, True, seq_e2e_src=src, seq_e2e_outcome="prepare_failed")
        ctx.violation("seq_e2e", spec, f"prepare failed for a request whose every framework change has a transformation path: {type(e).__name__}: {str(e)[-200:]}")
        return
    with M.HopRecorder([PandasPyArrowTransformer, PythonDictPyArrowTransformer]) as rec:
        rr = S.run_session(sess, "sync", timeout=M.RUN_TIMEOUT)
        hops = list(rec.calls)
    # was the class hit?  a consumer on another framework ran, THEN a group of the source framework added its feature in place,
    # THEN another consumer (whose parent is that or a later feature) received the source table
    order = [o["group"] for o in obs]
    trace = ""  # T = a transform step ran (all of them leave the source framework), G = a source group added its feature in place
    for e in rr.events:
        if e.get("ev") == "sbegin" and e.get("kind") == "TransformFrameworkStep":
            trace += "T"
        elif e.get("ev") == "end" and e.get("group") in gspec and not gspec[e["group"]].get("consumer") and gspec[e["group"]]["style"] is not False:
            trace += "G"
    i_t = trace.find("T")
    i_g = trace.find("G", i_t + 1) if i_t >= 0 else -1
    sw_grow_sw = i_g >= 0 and trace.find("T", i_g + 1) >= 0
    ctx.case("seq_e2e", spec, sw_grow_sw, seq_e2e_src=src, seq_e2e_consumers=len(cons), seq_e2e_switch_grow_switch=sw_grow_sw, seq_e2e_styles="/".join(styles))
    if rr.timed_out:
        ctx.violation("seq_e2e", spec, f"SYNC run did not end within {M.RUN_TIMEOUT:.0f} s")
        return
    # what every group received
    for o in obs:
        g = gspec.get(o["group"])
        if g is None:
            continue  # the root group runs without incoming data
        parents = sorted({p for d in g["features"].values() for p in d["parents"]})
        bad: List[str] = []
        if o["ty"] != M.TYPE_OF_FW[g["fw"]]:
            bad.append(f"received a {o['ty']}")
        table = o["table"] or []
        names = [c["name"] for c in table]
        missing = [p for p in parents if p not in names]
        if missing:
            bad.append(f"the table it received lacks its parent column(s) {missing} (has {names})")
        unknown = [n for n in names if n not in ref]
        if unknown:
            bad.append(f"unknown column(s) {unknown}")
        known = [c for c in table if c["name"] in ref]
        bad += M.oracle_preserved([{"name": c["name"], "cells": [M.cell(v) for v in ref[c["name"]]]} for c in known], known)
        if bad:
            ctx.violation("seq_e2e", spec, f"group {o['group']} on {g['fw']} (source framework {src}): " + "; ".join(bad[:3]), o["table"], {p: ref[p] for p in parents})
            return
    if rr.error:
        ctx.violation("seq_e2e", spec, f"run failed although every framework change has a transformation path: {rr.error_type}: " + rr.error[-200:].replace("\n", " "), rr.error_type)
        return
    got: Dict[str, Any] = {}
    for t in rr.results or []:
        for c, v in F.to_columns(t).items():
            got[c] = v
    want = {r["name"]: ref[r["name"]] for r in spec["request"]}
    if got != want:
        ctx.violation("seq_e2e", spec, f"requested features differ from the reference evaluation: {got} instead of {want}", got, want)
        return
    # model: one independent conversion per consumer (in the order the consumers ran)
    ran = [gspec[n] for n in order if gspec.get(n, {}).get("consumer")]
    for g in ran:
        reqs.append({"op": "C14.tfs", **rj, "from": M.TYPE_OF_FW[src], "to": M.TYPE_OF_FW[g["fw"]], "dty": M.TYPE_OF_FW[src]})
    pend.append((spec, hops, [o["ty"] for o in obs if gspec.get(o["group"], {}).get("consumer")], len(ran)))


def check_e2e(ctx: Ctx, specs: List[Dict[str, Any]]) -> None:
    rj = M.reg_json(M.real_registry())
    reqs: List[Dict[str, Any]] = []
    pend: List[Any] = []
    for spec in specs:
        run_e2e_case(ctx, spec, rj, reqs, pend)
    outs = ctx.lean.batch(reqs)
    k = 0
    for spec, hops, tys, n in pend:
        mo = outs[k : k + n]
        k += n
        m_hops = [h for o in mo for h in o.get("hops", [])]
        m_tys = [o.get("ty") for o in mo]
        if hops != m_hops or tys != m_tys:
            ctx.disagree("seq_e2e", spec, {"hops": hops, "recv_types": tys}, {"hops": m_hops, "recv_types": m_tys})


def gen_e2e_cases(ctx: Ctx, n: int) -> List[Dict[str, Any]]:
    out = []
    for _ in range(n):
        spec = gen_e2e_spec(ctx.rng)
        for order in request_orders(ctx.rng, spec["request"]):
            out.append(dict(spec, request=order))
    return out


# --------------------------------------------------------------------------------------


def run(ctx: Ctx) -> None:
    import warnings

    warnings.filterwarnings("ignore", category=RuntimeWarning)
    M.load_plugins()
    n_hist = ctx.budget(600, 10000)
    cases = [HistGen(ctx.rng).build() for _ in range(n_hist)] + fixed_histories()
    check_histories(ctx, cases)
    check_e2e(ctx, gen_e2e_cases(ctx, ctx.budget(150, 2000)))


def search(ctx: Ctx, broken: List[str]) -> None:
    run(ctx)


def replay(ctx: Ctx, body: Dict[str, Any]) -> None:
    suite, case = body.get("suite"), body.get("case")
    M.load_plugins()
    if suite == "seq_hist" and isinstance(case, dict) and "history" in case:
        case = case["history"]
    if suite == "seq_hist" and isinstance(case, dict) and "steps" in case:
        check_histories(ctx, [case])
    elif suite == "seq_e2e" and isinstance(case, dict) and "roots" in case:
        check_e2e(ctx, [case])
    else:
        run(ctx)
