"""C04 - planning is deterministic and every accepted plan can run to completion."""
from __future__ import annotations

import json
import os
import re
import subprocess
from typing import Any, Dict, List, Optional

from harness.core import Ctx, REPO, VERIF, env_for_subprocess
from harness import fgfactory as F
from harness import schedlib as S

ASSUMPTIONS = [
    "termination of a real run is observed under a watchdog (60 s); the theorem (deadlock freedom + bounded progress) is about the Lean model of the main loop",
    "the link-handling part of the planner (ResolveLinks / LinkTrekker / run_link / add_tfs) is not modelled: each plan it produces is validated (planOK) per plan",
    "hash-seed dependence is sampled with a few PYTHONHASHSEED values in child processes",
]


def outcome_of(spec: Dict[str, Any]) -> Dict[str, Any]:
    try:
        sess = S.prepare_units(spec) if "units" in spec else (S.prepare_link(spec) if "sources" in spec else S.prepare(spec, S.build_classes(spec)))
        exp = S.export_plan(sess)
        return {"plan": S.canon_plan(exp), "_exp": exp, "_sess": sess}
    except BaseException as e:
        msg = re.sub(r"[0-9a-f]{8}-[0-9a-f]{4}-[0-9a-f]{4}-[0-9a-f]{4}-[0-9a-f]{12}", "<uuid>", str(e))
        msg = re.sub(r"0x[0-9a-f]+", "<addr>", msg)
        return {"rejected": type(e).__name__, "msg": msg[:300]}


def strip_join_order(o: Dict[str, Any]) -> Any:
    """The plan with the wait-for edges *between join steps* removed (the input class of the known join-order finding)."""
    if "plan" not in o:
        return o
    out = []
    for lab, reqs, res in o["plan"]:
        if lab.startswith("join:"):
            out.append([lab, [r for r in reqs if not r.startswith("join:")], res])
        else:
            out.append([lab, reqs, res])
    return sorted(out, key=lambda x: json.dumps(x))


def strip_tfs_producer(o: Dict[str, Any]) -> Any:
    """The plan with 'which producer step a transform step waits for' removed (input class of the single-TFS finding)."""
    if "plan" not in o:
        return o

    def cut(lab: str) -> str:
        return re.sub(r"(tfs:[A-Za-z]+>[A-Za-z]+):\[.*\]$", r"\1", lab)

    out = []
    for lab, reqs, res in o["plan"]:
        if lab.startswith("tfs:"):
            continue  # how many transform steps are planned, and for whom, is part of what varies
        else:
            out.append([lab, sorted({cut(r) for r in reqs if not r.startswith("tfs:")}), res])
    return sorted(out, key=lambda x: json.dumps(x))


def join_order_class(spec: Dict[str, Any], a: Dict[str, Any], b: Dict[str, Any]) -> Optional[str]:
    if len(spec.get("sources", [])) >= 3 and len({x["fw"] for x in spec["sources"]} | {spec["consumer"]["fw"]}) >= 2 and not spec.get("longchain"):
        return "three-sources-across-frameworks"
    if "groups" in spec and "plan" in a and "plan" in b and strip_tfs_producer(a) == strip_tfs_producer(b):
        return "tfs-required-producer-varies"
    if len(spec.get("links", [])) >= 2 and "plan" in a and "plan" in b and strip_join_order(a) == strip_join_order(b):
        return "multi-link-join-order-varies"
    return None


def pub(o: Dict[str, Any]) -> Dict[str, Any]:
    return {k: v for k, v in o.items() if not k.startswith("_")}


def children(specs: List[Dict[str, Any]], seeds: List[int], n: int) -> Dict[int, Any]:
    out: Dict[int, Any] = {}
    procs = []
    for sd in seeds:
        env = env_for_subprocess()
        env["PYTHONHASHSEED"] = str(sd)
        p = subprocess.Popen(["/venv/bin/python", str(VERIF / "harness" / "c04_child.py")], stdin=subprocess.PIPE, stdout=subprocess.PIPE, stderr=subprocess.PIPE, text=True, env=env)
        assert p.stdin
        p.stdin.write(json.dumps({"specs": specs, "n": n}))
        p.stdin.close()
        procs.append((sd, p))
    for sd, p in procs:
        assert p.stdout
        txt = p.stdout.read()
        p.wait(timeout=600)
        try:
            out[sd] = json.loads(txt.strip().splitlines()[-1])
        except Exception:
            out[sd] = {"child_failed": (p.stderr.read() if p.stderr else "")[-500:]}
    return out


def plancore_suite(ctx: Ctx, sessions: List[Any]) -> None:
    """Function-level tie of the planner core: the real `run_feature_group` (levels + required sets) on the features of each
    feature-group class of real link-free plans, against `PlanCore.planCore` on the buckets the real grouping produced."""
    from mloda.core.prepare.execution_plan import ExecutionPlan
    from mloda.core.core.step.feature_group_step import FeatureGroupStep

    reqs, impls = [], []
    for spec, sess in sessions:
        plan = list(sess.engine.execution_planner)
        direct = {c: set(ps) for c, ps in sess.engine.feature_link_parents.items()}

        def closure(u: Any, acc: set) -> set:
            for p_ in direct.get(u, ()):
                if p_ not in acc:
                    acc.add(p_)
                    closure(p_, acc)
            return acc

        by_cls: Dict[Any, set] = {}
        for st in plan:
            if isinstance(st, FeatureGroupStep):
                by_cls.setdefault(st.feature_group, set()).update(st.features.features)
        ids: Dict[Any, int] = {}

        def rid(u: Any) -> int:
            return ids.setdefault(u, len(ids))

        for cls, feats in by_cls.items():
            mapping = {f.uuid: closure(f.uuid, set()) for f in feats}
            ep = ExecutionPlan(None, None)
            buckets_real = ep.group_features_by_compute_framework_and_options(set(feats))
            steps = ep.run_feature_group((cls, set(feats)), dict(mapping), set())
            impl = sorted([sorted(rid(f.uuid) for f in st.features.features), sorted(rid(u) for u in st.required_uuids)] for st in steps.values())
            buckets = [[rid(f.uuid) for f in b] for b in buckets_real.values()]
            anc = [[rid(u), sorted(rid(a) for a in al)] for u, al in mapping.items()]
            reqs.append({"op": "C04.planCore", "buckets": buckets, "anc": anc})
            impls.append(impl)
            ctx.case("planCore", {"buckets": buckets, "anc": anc}, len(impl) >= 2, steps=len(impl))
    for rq, im, o in zip(reqs, impls, ctx.lean.batch(reqs)):
        model = sorted([sorted(st["outs"]), sorted(st["req"])] for st in o.get("steps", []))
        if model != im:
            ctx.disagree("planCore", rq, im, model)


def run_in_child(spec: Dict[str, Any], limit: float) -> str:
    """Run one request in SYNC mode in a child process that is killed when it does not end (a spinning main loop never sleeps)."""
    p = subprocess.Popen(["/venv/bin/python", str(VERIF / "harness" / "c04_child.py")], stdin=subprocess.PIPE, stdout=subprocess.PIPE, stderr=subprocess.DEVNULL, text=True,
                         env=env_for_subprocess())  # fmt: skip
    assert p.stdin and p.stdout
    p.stdin.write(json.dumps({"specs": [spec], "run": True}))
    p.stdin.close()
    try:
        p.wait(timeout=limit)
    except subprocess.TimeoutExpired:
        p.kill()
        p.wait()
        return "timeout"
    out = p.stdout.read().strip().splitlines()
    try:
        return str(json.loads(out[-1]))
    except Exception:
        return "child-failed"


def run(ctx: Ctx) -> None:
    ctx.extra["rule"] = (
        "requests: seeded link-free DAG requests, chains of 3-4 equally oriented links over 4-5 sources on as many frameworks, and requests with 2-3 source groups joined by link trees (inner/left/outer/right, both orientations, "
        "equal/different key names, same or mixed frameworks); each is prepared N times in one process and in child processes with different "
        "PYTHONHASHSEED: canonical plan (uuid-free, order of independent steps ignored) or rejection (type+message modulo uuids) must coincide; every "
        "accepted plan is exported and decided by the Lean planOK (closed, acyclic, disjoint non-empty outputs) and run under a watchdog in SYNC and "
        "THREADING; non-trivial = plan has a JOIN or TFS step or >=2 independent FG steps"
    )
    nreq = ctx.budget(120, 250)  # thorough: 250 requests x 6 preparations x 4 hash-seed children + SYNC/THREADING runs (2500, and then 700, did not finish within the 90-minute limit once the extension topics were added)
    nprep = 3 if ctx.quick else 6
    specs = []
    for k in range(nreq):
        r0 = ctx.rng.random()
        if r0 < 0.08:
            specs.append(S.gen_long_chain_spec(ctx.rng))  # 4-5 sources on 4-5 frameworks, a chain of 3-4 equally oriented links
        elif r0 < 0.2:
            specs.append(S.gen_units_spec(ctx.rng))  # two independent cross-framework joins requested together
        elif r0 < 0.6:
            specs.append(S.gen_link_spec(ctx.rng))
        else:
            fws = ctx.rng.choice([("pa",), ("pa", "pd"), ("py",), ("pd", "py")])
            # option variants are generated only for single-framework requests: with several frameworks the planner de-duplicates
            # transform steps across option variants (a defect recorded under C02), which is not what this check is about
            specs.append(S.gen_spec(ctx.rng, max_feats=6, frameworks=fws, allow_multi_fw=True, allow_options=len(fws) == 1,
                                    interleave=len(fws) == 1 and ctx.rng.random() < 0.5))
    # witness of the known wait-for-cycle finding: two groups depending on each other's features (feature graph acyclic)
    uid = F.uniq("")
    specs.insert(0, {"roots": [{"name": f"RQ{uid}", "cols": {f"r{uid}": [1, 2, 3]}, "fw": "pa"}],
                     "groups": [{"name": f"GQ{uid}_1", "fw": "pa", "features": {f"a{uid}": {"parents": [f"r{uid}"], "expr": ["add", ["col", f"r{uid}"], ["const", 1]]},
                                                                                 f"b{uid}": {"parents": [f"g{uid}"], "expr": ["add", ["col", f"g{uid}"], ["const", 1]]}}},
                                {"name": f"GQ{uid}_2", "fw": "pa", "features": {f"g{uid}": {"parents": [f"r{uid}"], "expr": ["mul", ["col", f"r{uid}"], ["const", 2]]},
                                                                                 f"f{uid}": {"parents": [f"a{uid}"], "expr": ["mul", ["col", f"a{uid}"], ["const", 2]]}}}],
                     "request": [{"name": f"b{uid}", "options": {}}, {"name": f"f{uid}", "options": {}}]})  # fmt: skip
    seeds = [1, 7] if ctx.quick else [1, 7, 42, 1234]
    # in-process preparations
    lean_reqs, metas = [], []
    results = []
    for spec in specs:
        outs = [outcome_of(spec) for _ in range(nprep)]
        results.append(outs)
        first = pub(outs[0])
        kinds = [s[0].split(":")[0] for s in first.get("plan", [])]
        nontriv = ("join" in kinds) or ("tfs" in kinds) or kinds.count("fg") >= 3
        ctx.case("prepare", {"spec": spec, "outcome": "plan" if "plan" in first else first}, nontriv,
                 outcome="plan" if "plan" in first else "rejected:" + first.get("rejected", "?"), joins=kinds.count("join"), tfs=kinds.count("tfs"))  # fmt: skip
        for o in outs[1:]:
            if pub(o) != first:
                ctx.violation("prepare", {"spec": spec}, "preparing the same request twice in one process gave different outcomes", pub(o), first,
                              finding_class=join_order_class(spec, pub(o), first))
                break
        if "plan" in first:
            exp = outs[0]["_exp"]
            lean_reqs.append({"op": "C04.planCheck", **S.lean_plan(exp)})
            metas.append((spec, exp, outs[0]["_sess"]))
    plancore_suite(ctx, [(spec, sess) for spec, exp, sess in metas if "groups" in spec])
    # structural validation of every accepted plan by the Lean checker
    louts = ctx.lean.batch(lean_reqs)
    runnable = []
    for (spec, exp, sess), o in zip(metas, louts):
        ctx.case("planOK", S.canon_plan(exp), len(exp["steps"]) >= 3)
        if not o.get("planOK"):
            # per-plan translation validation failed: the theorem's hypotheses do not hold for this accepted plan
            what = "accepted plan is not closed/acyclic/disjoint: " + json.dumps({k: o.get(k) for k in ("nonempty", "disjoint", "ranked")})
            fclass = "mutually-dependent-feature-groups" if ("groups" in spec and S.mutual_groups(spec) and o.get("nonempty") and o.get("disjoint")) else None
            ctx.violation("planOK", {"spec": spec, "plan": S.lean_plan(exp)}, what, o, True, finding_class=fclass)
            # the model says such a plan never returns (C04.wait_cycle_never_returns): confirm on the real code with a short watchdog
            outcome = run_in_child(spec, 8.0)
            ctx.case("spin_confirm", {"spec": spec}, True, outcome=outcome)
            if outcome == "returned":
                ctx.disagree("spin_confirm", {"spec": spec, "plan": S.lean_plan(exp)}, "returned", "model: a plan that is not well ranked never returns")
            continue
        runnable.append((spec, exp, sess))
    # every accepted plan terminates (returns or raises) in every mode
    # time box: MULTIPROCESSING runs of plans in the known hanging classes cost up to 3 x the watchdog each; once the box is used up
    # the remaining plans are not run (counted in the evidence) so that the thorough tier stays inside its 90-minute limit
    import time as _time

    box = ctx.t0 + (480 if ctx.quick else 1800)
    not_run = 0
    for spec, exp, sess in runnable:
        if _time.time() > box:
            not_run += 1
            continue
        for mode in ["sync", "thread"] + (["mp"] if (not ctx.quick and ctx.rng.random() < 0.2) else []):
            rr = S.run_session(sess, mode, timeout=20 if mode == "mp" else 60)
            ctx.case("terminates", {"spec": spec, "mode": mode}, len(exp["steps"]) >= 3, mode=mode, outcome="timeout" if rr.timed_out else ("raise" if rr.error else "return"))
            if rr.timed_out:
                ctx.violation("terminates", {"spec": spec, "mode": mode}, f"accepted plan did not terminate within 60 s in mode {mode}", "timeout", "return or raise")
    if not_run:
        ctx.tag("terminates_not_run_time_box", "plans", not_run)
    S.stop_flight_server()
    # across processes / hash seeds
    sub = specs if not ctx.quick else specs[: max(10, len(specs) // 2)]
    ch = children(sub, seeds, 2)
    for sd, res in ch.items():
        if isinstance(res, dict):
            ctx.note(f"child with hash seed {sd} failed: {res}")
            raise RuntimeError(f"C04 child process failed: {res}")
        for spec, outs_here, outs_child in zip(sub, results, res):
            first = pub(outs_here[0])
            ctx.case("hashseed", {"spec": spec, "seed": sd}, "plan" in first, seed=sd)
            for o in outs_child:
                if o != first:
                    ctx.violation("hashseed", {"spec": spec, "PYTHONHASHSEED": sd}, "preparing the same request under another hash seed gave a different outcome", o, first,
                                  finding_class=join_order_class(spec, o, first))
                    break


def search(ctx: Ctx, broken: List[str]) -> None:
    run(ctx)


def replay(ctx: Ctx, body: Dict[str, Any]) -> None:
    run(ctx)
