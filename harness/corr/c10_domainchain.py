"""C10 extension `domainchain`: resolution of the features of a DEPENDENCY CLOSURE of >= 3 levels whose domain / compute
framework setting is PROPAGATED, spelled through the options or through the parameter, and overridden in mid chain.

Property C10 is a statement per feature of the closure: "a feature is computed by a feature group that matches its
name/options, ITS DOMAIN, an allowed compute framework (... FEATURE SETTING ...) ...; if no or more than one such group
exists the request is rejected".  The main module c10.py only ever asks for ROOT features, so the domain / framework a
feature has is always the one written in the request.  Here the feature's setting is the result of the documented
propagation rules (docs/docs/in_depth/domain.md, docstring of components/domain.py, compute-frameworks.md "Specific
feature configuration", property-mapping.md "Group propagation"):

  D1  a feature's domain is given by the `domain` parameter or by options={"domain": ...}; its framework by the
      `compute_framework` parameter or by options={"compute_framework": ...}
  D2  a dependency given as a plain string or as Feature("child") inherits the domain of the feature that asks for it
  D3  a dependency given with an explicit domain keeps it ("Feature('child', domain='Finance') | Sales | keeps Finance")
  D4  below a feature without domain nothing is inherited
  D5  group options flow to the dependencies (context options do not)
  D6  an index feature (join column of a linked group) is a column of the table of the feature it was created for:
      same group, same domain, same framework

The reference evaluation `o_walk` is written from D1-D6 only; it knows nothing about how mloda constructs dependent
features.  Whether a dependency WITHOUT own framework setting is pinned by a `compute_framework` entry that merely
flowed down to it with the group options (D5) is not documented: both readings are accepted (`readings`), everything else
is strict.

Suites (REAL mloda code through mloda.prepare / session.run on generated classes):

  chain_resolve  chains of 3-5 feature names; per name groups in several / one / none of the domains (and the default
                 domain), own framework rules; the request gives domain / framework by parameter, group option, context
                 option or not at all; every group states its dependency as string, Feature(name), Feature(name,
                 domain=..) / options={"domain": ..}, optionally with a framework by parameter / option
  chain_index    the same with a JOIN in the chain: a consumer with two dependencies on two linked root groups with
                 index columns, so that index features are created for the (overriding) dependencies

Observed per feature of the closure: the group it was attached to at prepare time (engine.feature_group_collection),
the domain and framework set it carries there, the group whose calculate_feature ran for it, the domain / framework the
feature carries inside that call, the python type of the returned table, or the error of the rejected request (kind +
the feature it names).  Model: the per-feature op `C10.resolve` of the C10 driver fed with the PROPAGATED setting.

Every case is generated (`gen_chain_universe`); there is no hand-made case.  Joins over two frameworks are generated in
the one shape the unchanged planner is known to serve (left source on its own framework; right source, consumer and
everything above on the other one, stated by the groups' rules) and session.run() is guarded by a timeout: other shapes
can make the SYNC orchestrator spin (C02 topic `cfw`), which is not C10's matter.

Two deviations of the UNCHANGED tree are in findings.d/C10_domainchain.json with narrow predicates (FINDING_CONFLICT:
a dependency that spells its override through the options below a feature whose options carry another value of the key
is rejected with 'Duplicate key ... conflicting values'; FINDING_CONTEXT: a context `compute_framework` option of the
request pins its string dependencies although context options are documented as local).
"""
from __future__ import annotations

import itertools
import os
import re
import tempfile
from typing import Any, Dict, List, Optional, Sequence, Tuple

from harness.core import Ctx
from harness import fgfactory as F
from harness.corr import c10 as M

SUITES = {"chain_resolve", "chain_index", "chain_universe_spec"}

ASSUMPTIONS = [
    "domainchain: the propagation reference is D1-D6 of the module docstring (domain.md table, Domain docstring, compute-frameworks.md, property-mapping.md); a dependency spelled Feature(name, options={'domain': X}) is an explicit domain X exactly like Feature(name, domain=X)",
    "domainchain: whether a dependency without own framework setting is pinned by a 'compute_framework' group option that only flowed down to it is undocumented - both readings are accepted; with an own setting (parameter or option) the setting is binding",
    "domainchain: generated groups match on the feature name only; names are unique per universe; one API framework list per request drawn from PyArrowTable / PandasDataFrame (transformers between them exist)",
    "domainchain: when several dependencies of one consumer have no / several admissible groups, the error may name any of them (the engine walks a set)",
    "domainchain: joins over two frameworks only in the shape left source on fa / right source + consumer + everything above on fz (stated by the groups' rules); join types inner, left, outer; session.run() under a 30 s timeout (a run that does not return is a violation)",
]

DOMAINS = ["Sales", "Finance", "Ops"]
INDEX_COL = "k"
RUN_TIMEOUT_S = 30.0
FINDING_CONFLICT = "dependency-option-spelling-conflicts-with-options-of-requesting-feature"
FINDING_CONTEXT = "context-framework-option-of-request-pins-string-dependencies"

_ERR_NAME = [re.compile(r"No feature groups found for feature name: (.+?)\.\s*$", re.S), re.compile(r"Multiple feature groups found for feature '([^']+)'")]


def err_of(e: BaseException) -> Dict[str, Any]:
    s = str(e)
    if "Duplicate key" in s and "conflicting values" in s:
        return {"err": "optionConflict", "feature": None}
    k = M.err_kind(e)
    name = None
    for rx in _ERR_NAME:
        m = rx.search(s)
        if m:
            name = m.group(1)
    if k.startswith("other:"):
        k = "other:" + type(e).__name__ + ":" + s[:160].replace("\n", " ")
    return {"err": k, "feature": name}


# ------------------------------------------------------------------------------------------------
# universes
#
# u = {"uid", "api": [framework ids], "nodes": [{"name", "groups": [{"domain", "rule": "any" | [ids], "idx": bool,
#      "deps": [{"node", "form": "str" | "feat", "domain", "domain_via": "param" | "group", "cfw", "cfw_via"}]}]}],
#      "request": {"domain", "domain_via": "param" | "group" | "context", "cfw", "cfw_via", "tag": bool},
#      "link": None | {"jt", "left_node", "right_node"}}   (one Link per pair of groups of the two nodes)
# node 0 is the requested feature.


def fw_pool(cf: M.Cfws) -> List[int]:
    return [cf.id_of[F.PyArrowTable], cf.id_of[F.PandasDataFrame]]


def other_domain(ctx: Ctx, pool: Sequence[str], d: Optional[str]) -> str:
    return ctx.rng.choice([x for x in pool if x != d])


def gen_setting(ctx: Ctx, pool: Sequence[str], api: Sequence[int], parent_domain: Optional[str], flow: Dict[str, Any], top: bool) -> Dict[str, Any]:
    """domain / framework setting of the request (top) or of a dependency given as Feature object"""
    rng = ctx.rng
    s: Dict[str, Any] = {"domain": None, "domain_via": None, "cfw": None, "cfw_via": None}
    if top:
        r = rng.random()
        if r < 0.9:
            s["domain"] = rng.choice(list(pool))
            s["domain_via"] = "group" if r < 0.55 else "param" if r < 0.8 else "context"
        r = rng.random()
        if r < 0.45:
            s["cfw"] = rng.choice(list(api))
            s["cfw_via"] = "group" if r < 0.27 else "param" if r < 0.4 else "context"
        return s
    if rng.random() < 0.6:  # explicit domain: mostly an OVERRIDE of what would be inherited
        s["domain"] = other_domain(ctx, pool, parent_domain) if rng.random() < 0.85 or parent_domain is None else parent_domain
        leaked = flow.get("domain")
        via_group = rng.random() < (0.06 if leaked not in (None, s["domain"]) else 0.3)
        s["domain_via"] = "group" if via_group else "param"
    if rng.random() < 0.3:
        s["cfw"] = rng.choice(list(api))
        leaked = flow.get("compute_framework")
        via_group = rng.random() < (0.06 if leaked not in (None, s["cfw"]) else 0.3)
        s["cfw_via"] = "group" if via_group else "param"
    return s


def flow_after(flow: Dict[str, Any], s: Dict[str, Any]) -> Dict[str, Any]:
    """D5: the group options that flow on below a feature = what flowed to it + what it spells as group options itself"""
    out = dict(flow)
    if s.get("domain") is not None and s.get("domain_via") == "group":
        out["domain"] = s["domain"]
    if s.get("cfw") is not None and s.get("cfw_via") == "group":
        out["compute_framework"] = s["cfw"]
    return out


def gen_groups(ctx: Ctx, pool: Sequence[str], api: Sequence[int], want_domain: Optional[str], pin: Optional[int], leaked: Optional[str], force_rule: Optional[List[int]] = None) -> List[Dict[str, Any]]:
    """groups of one feature name: usually one in the domain the feature will have, others in the leaked / other domains"""
    rng = ctx.rng
    doms: List[str] = []
    r = rng.random()
    if want_domain is None:
        doms = [rng.choice(list(pool) + ["default_domain"])] if r < 0.8 else rng.sample(list(pool) + ["default_domain"], 2)
    else:
        if r < 0.86:
            doms.append(want_domain)
        if r > 0.96:
            doms.append(want_domain)  # two groups in the wanted domain: ambiguous
        for d in list(pool) + ["default_domain"]:
            if d != want_domain and rng.random() < (0.6 if d == leaked else 0.3):
                doms.append(d)
    if not doms and rng.random() < 0.5:
        doms = [rng.choice(list(pool))]
    out = []
    for d in doms:
        r = rng.random()
        if force_rule is not None:
            rule: Any = list(force_rule)
        elif r < 0.6 or len(api) == 1:
            rule = "any"
        elif d == want_domain and pin is not None and r < 0.92:
            rule = [pin]
        else:
            rule = [rng.choice(list(api))]
        out.append({"domain": d, "rule": rule, "idx": False, "deps": []})
    rng.shuffle(out)
    return out


def gen_dep(ctx: Ctx, pool: Sequence[str], api: Sequence[int], node: int, parent_domain: Optional[str], flow: Dict[str, Any], want_str: Optional[bool] = None) -> Dict[str, Any]:
    is_str = ctx.rng.random() < 0.5 if want_str is None else want_str
    if is_str:
        return {"node": node, "form": "str", "domain": None, "domain_via": None, "cfw": None, "cfw_via": None}
    return {"node": node, "form": "feat", **gen_setting(ctx, pool, api, parent_domain, flow, top=False)}


def gen_chain_universe(ctx: Ctx, cf: M.Cfws, uid: int, with_join: bool) -> Dict[str, Any]:
    rng = ctx.rng
    pool = rng.sample(DOMAINS, rng.choice([2, 2, 3]))
    both = fw_pool(cf)
    r = rng.random()
    api = [rng.choice(both)] if r < (0.6 if with_join else 0.45) else sorted(both)
    # joins across frameworks: only the shape the unchanged planner is known to handle (c10.e2e_links_framework, C02 topic cfw) -
    # the left source on framework `fa`, the right source, the consumer and everything above it on `fz`, stated by the groups' rules
    two = with_join and len(api) == 2
    fz = rng.choice(api)
    fa = fz if not two or rng.random() < 0.3 else next(i for i in api if i != fz)
    capi = [fz] if two else api  # what settings of the chain levels are drawn from
    crule = [fz] if two else None
    request = {**gen_setting(ctx, pool, capi, None, {}, top=True), "tag": rng.random() < 0.3}
    if two and request["cfw"] is None and rng.random() < 0.65:  # joins over two frameworks: mostly with a framework setting on the request
        request["cfw"], request["cfw_via"] = fz, rng.choice(["group", "group", "group", "param", "context"])
    depth = rng.randint(2, 3) if with_join else rng.randint(3, 5)  # with_join: the consumer is the last chain level, + the two roots
    nodes: List[Dict[str, Any]] = []
    # walk the intended path while generating, so that groups exist where the propagation rules lead
    domain, pin, flow = request["domain"], request["cfw"], flow_after({}, request)
    if request["cfw_via"] == "context" or request["cfw"] is None:
        pass
    for lvl in range(depth):
        name = f"c{uid}n{lvl}"
        groups = gen_groups(ctx, pool, api, domain, pin, flow.get("domain"), force_rule=crule)
        nodes.append({"name": name, "groups": groups})
        last = lvl == depth - 1
        intended = next((g for g in groups if domain is None or g["domain"] == domain), None)
        nxt: Optional[Tuple[Optional[str], Optional[int], Dict[str, Any]]] = None
        for g in groups:
            if last and not with_join:
                continue
            if last and with_join:
                continue  # filled below
            # a string dependency right below an override is what the class is about: favour it there
            below_override = flow.get("domain") not in (None, g["domain"])
            dep = gen_dep(ctx, pool, capi, lvl + 1, g["domain"] if domain is not None else None, flow, want_str=True if below_override and rng.random() < 0.6 else None)
            g["deps"] = [dep]
            if g is intended:
                cd = dep["domain"] or domain
                nxt = (cd, dep["cfw"], flow_after(flow, dep))
        if not last:
            if nxt is None:  # no intended group: continue along what the first group (if any) would ask for
                g0 = groups[0] if groups else None
                dep0 = g0["deps"][0] if g0 else {"domain": None, "cfw": None}
                nxt = (dep0.get("domain") or domain, dep0.get("cfw"), flow_after(flow, dep0) if g0 else flow)
            domain, pin, flow = nxt
    link = None
    if with_join:
        zl = depth - 1
        a_node, b_node = depth, depth + 1
        # the consumer's two dependencies: `a` mostly a Feature with an override, `b` mostly a string
        a_dom = b_dom = None
        a_pin = b_pin = None
        a_flow = b_flow = flow
        zgroups = nodes[zl]["groups"]
        intended = next((g for g in zgroups if domain is None or g["domain"] == domain), None)
        for g in zgroups:
            da = gen_dep(ctx, pool, [fa] if two else api, a_node, g["domain"] if domain is not None else None, flow, want_str=False if rng.random() < 0.8 else True)
            db = gen_dep(ctx, pool, capi, b_node, g["domain"] if domain is not None else None, flow, want_str=True if rng.random() < 0.7 else False)
            if two and da["form"] == "feat" and da["cfw"] is None and rng.random() < 0.6:
                da["cfw"], da["cfw_via"] = fa, "param"  # the left source's own framework, by parameter
            if da["form"] == "feat" and db["form"] == "feat" and da["cfw_via"] == "group" and db["cfw_via"] == "group" and da["cfw"] != db["cfw"]:
                db["cfw"], db["cfw_via"] = None, None
            g["deps"] = [da, db]
            if g is intended or (intended is None and g is zgroups[0]):
                a_dom, a_pin, a_flow = da["domain"] or domain, da["cfw"], flow_after(flow, da)
                b_dom, b_pin, b_flow = db["domain"] or domain, db["cfw"], flow_after(flow, db)
        for nm, dom_, pin_, flow_, rule_ in ((f"c{uid}a", a_dom, a_pin, a_flow, [fa]), (f"c{uid}b", b_dom, b_pin, b_flow, [fz])):
            groups = gen_groups(ctx, pool, api, dom_, pin_, flow_.get("domain"), force_rule=rule_ if two else None)
            for g in groups:
                g["idx"] = True
            nodes.append({"name": nm, "groups": groups})
        # one link per pair (group of `a`, group of `b`): whichever pair the request resolves to is joinable
        link = {"jt": rng.choice(["inner", "left", "outer"]), "left_node": a_node, "right_node": b_node}
        if not nodes[a_node]["groups"] or not nodes[b_node]["groups"]:
            link = None
    return {"uid": uid, "pool": pool, "api": api, "nodes": nodes, "request": request, "link": link}


# ------------------------------------------------------------------------------------------------
# real classes


def mk_feature(cf: M.Cfws, name: str, s: Dict[str, Any], extra_group: Optional[Dict[str, Any]] = None) -> Any:
    """a Feature as a user / a feature group writes it (D1): parameter, group option or context option"""
    from mloda.core.abstract_plugins.components.feature import Feature
    from mloda.core.abstract_plugins.components.options import Options

    group: Dict[str, Any] = dict(extra_group or {})
    context: Dict[str, Any] = {}
    kw: Dict[str, Any] = {}
    if s.get("domain") is not None:
        if s["domain_via"] == "param":
            kw["domain"] = s["domain"]
        else:
            (group if s["domain_via"] == "group" else context)["domain"] = s["domain"]
    if s.get("cfw") is not None:
        fwn = cf.classes[s["cfw"]].__name__
        if s["cfw_via"] == "param":
            kw["compute_framework"] = fwn
        else:
            (group if s["cfw_via"] == "group" else context)["compute_framework"] = fwn
    if group and not context:
        return Feature(name, options=dict(group), **kw)  # the plain dict spelling of the docs
    if group or context:
        return Feature(name, options=Options(group=group, context=context), **kw)
    return Feature(name, **kw)


def build_classes(u: Dict[str, Any], cf: M.Cfws) -> List[List[type]]:
    from mloda.core.abstract_plugins.feature_group import FeatureGroup
    from mloda.core.abstract_plugins.components.domain import Domain
    from mloda.core.abstract_plugins.components.index.index import Index
    from mloda.core.abstract_plugins.components.input_data.creator.data_creator import DataCreator

    out: List[List[type]] = []
    for n, node in enumerate(u["nodes"]):
        row = []
        for gi, g in enumerate(node["groups"]):
            fname = node["name"]
            own = {fname} | ({INDEX_COL} if g["idx"] else set())
            deps = g["deps"]

            def calc(cls: Any, data: Any, features: Any, fname: str = fname, g: Dict[str, Any] = g, code: int = 100 * (n + 1) + gi) -> Any:
                fs = []
                for f in features.features:
                    try:
                        fwn = f.get_compute_framework().__name__
                    except Exception as e:  # noqa: BLE001
                        fwn = "error:" + type(e).__name__
                    fs.append([f.get_name(), f.domain.name if f.domain else None, fwn])
                F.log_event(ev="begin", group=cls.__name__, feats=sorted(fs, key=str), dtype=type(data).__name__)
                names = sorted(features.get_all_names())
                if not g["deps"]:
                    cols = {nm: [code, code + 1] for nm in names if nm != INDEX_COL}
                    if g["idx"]:
                        cols[INDEX_COL] = [1, 2]
                    return cols  # framework agnostic, converted by the framework that executes the step
                cols_in = F.to_columns(data)
                nrows = len(next(iter(cols_in.values()))) if cols_in else 0
                return F.add_columns(data, {nm: [code] * nrows for nm in names})

            def crit(cls: Any, feature_name: Any, options: Any, data_access_collection: Any = None, own: Any = frozenset(own)) -> bool:
                nm = feature_name.name if hasattr(feature_name, "name") else str(feature_name)
                return nm in own

            ns: Dict[str, Any] = {
                "__module__": F.MODNAME,
                "calculate_feature": classmethod(calc),
                "match_feature_group_criteria": classmethod(crit),
                "feature_names_supported": classmethod(lambda cls, own=frozenset(own): set(own)),
            }
            if g["domain"] != "default_domain":
                ns["get_domain"] = classmethod(lambda cls, d=g["domain"]: Domain(d))
            if g["rule"] != "any":
                ns["compute_framework_rule"] = classmethod(lambda cls, ids=tuple(g["rule"]): {cf.classes[i] for i in ids})
            if g["idx"]:
                ns["index_columns"] = classmethod(lambda cls: [Index((INDEX_COL,))])
            if not deps:
                ns["input_data"] = classmethod(lambda cls, own=frozenset(own): DataCreator(set(own)))
            else:

                def input_features(self: Any, options: Any, feature_name: Any, deps: Any = deps) -> Any:
                    res = set()
                    for d in deps:
                        cname = u["nodes"][d["node"]]["name"]
                        res.add(cname if d["form"] == "str" else mk_feature(cf, cname, d))  # fresh objects on every call
                    return res

                ns["input_features"] = input_features
            k = type(F.uniq(f"DC{u['uid']}_{n}_{gi}_"), (FeatureGroup,), ns)
            setattr(F.DYN, k.__name__, k)
            row.append(k)
        out.append(row)
    return out


def check_spec(ctx: Ctx, u: Dict[str, Any], classes: List[List[type]], cf: M.Cfws) -> None:
    """the oracle's inputs are what the real classes answer"""
    from mloda.core.abstract_plugins.components.feature_name import FeatureName
    from mloda.core.abstract_plugins.components.options import Options

    for n, node in enumerate(u["nodes"]):
        for gi, g in enumerate(node["groups"]):
            k: Any = classes[n][gi]
            r = k.compute_framework_rule()
            real = {
                "domain": k.get_domain().name,
                "rule": "any" if r is True else cf.ids(r),
                "idx": k.index_columns() is not None,
                "crit": [bool(k.match_feature_group_criteria(FeatureName(m["name"]), Options(), None)) for m in u["nodes"]],
                "root": k.input_data() is not None,
            }
            spec = {"domain": g["domain"], "rule": g["rule"], "idx": g["idx"], "crit": [m is node for m in u["nodes"]], "root": not g["deps"]}
            if real != spec:
                ctx.disagree("chain_universe_spec", {"u": u, "node": n, "group": gi}, real, spec)
            if g["deps"]:
                got = k().input_features(Options(), FeatureName(node["name"]))
                shape = sorted(
                    (x if isinstance(x, str) else x.get_name(), isinstance(x, str), None if isinstance(x, str) or x.domain is None else x.domain.name, None if isinstance(x, str) or not x.compute_frameworks else cf.ids(x.compute_frameworks)[0])
                    for x in got
                )
                want = sorted((u["nodes"][d["node"]]["name"], d["form"] == "str", d["domain"], d["cfw"]) for d in g["deps"])
                if shape != want:
                    ctx.disagree("chain_universe_spec", {"u": u, "node": n, "group": gi, "what": "input_features"}, shape, want)


# ------------------------------------------------------------------------------------------------
# the reference: propagation rules D1-D6 + admissibility from the property text


def o_fwset(cf: M.Cfws, u: Dict[str, Any], g: Dict[str, Any], pin: Optional[int]) -> List[int]:
    """intersection of API argument, feature group rule, feature setting and availability"""
    return [i for i in u["api"] if (g["rule"] == "any" or i in g["rule"]) and (pin is None or i == pin) and i in cf.avail]


def o_walk(cf: M.Cfws, u: Dict[str, Any], reading: Dict[int, bool], context_reaches_strings: bool = False) -> Dict[str, Any]:
    """per feature of the closure: domain / framework setting by D1-D6, the admissible groups, the one that computes it.
    reading[node] = True: a dependency without own framework setting IS pinned by a `compute_framework` group option that
    flowed down to it (undocumented, see ASSUMPTIONS).
    context_reaches_strings = True is NOT a reading of the documentation (D5: context options are local) - it describes the
    deviation found on the unchanged tree (finding class FINDING_CONTEXT): the context options of the request reach the
    dependencies given as plain strings, along chains of such dependencies"""
    res: Dict[str, Any] = {"nodes": {}, "fails": [], "conflicts": [], "ambiguous": [], "hits": [], "context_reached": []}

    def visit(n: int, domain: Optional[str], own_pin: Optional[int], flow: Dict[str, Any], cflow: Dict[str, Any]) -> None:
        node = u["nodes"][n]
        pin = own_pin
        if own_pin is None and flow.get("compute_framework") is not None:
            res["ambiguous"].append(n)
            if reading.get(n, False):
                pin = flow["compute_framework"]
        if own_pin is None and pin is None and n != 0 and cflow.get("compute_framework") is not None:
            res["context_reached"].append(n)
            if context_reaches_strings:
                pin = cflow["compute_framework"]
        adm = [gi for gi, g in enumerate(node["groups"]) if (domain is None or g["domain"] == domain) and o_fwset(cf, u, g, pin)]
        if len(adm) != 1:
            res["fails"].append({"node": n, "kind": "noGroup" if not adm else "multipleGroups", "adm": adm, "domain": domain, "pin": pin})
            return
        g = node["groups"][adm[0]]
        res["nodes"][n] = {"group": adm[0], "domain": domain, "pin": pin, "own_pin": own_pin, "fws": o_fwset(cf, u, g, pin), "flow": dict(flow)}
        for d in g["deps"]:
            child_domain = d["domain"] if d["domain"] is not None else domain  # D2, D3, D4
            for key, val, via in (("domain", d["domain"], d["domain_via"]), ("compute_framework", d["cfw"], d["cfw_via"])):
                if val is not None and via == "group" and (flow.get(key) not in (None, val) or cflow.get(key) not in (None, val)):
                    res["conflicts"].append({"parent": n, "child": d["node"], "key": key, "options_of_parent": flow.get(key, cflow.get(key)), "own": val})
            if d["domain"] is None and flow.get("domain") not in (None, child_domain):
                # the class: the domain the dependency must inherit differs from a 'domain' group option that flows down to it
                leaked = flow["domain"]
                cgs = [x["domain"] for x in u["nodes"][d["node"]]["groups"]]
                res["hits"].append({"child": d["node"], "form": d["form"], "groups": ("both" if child_domain in cgs and leaked in cgs else "inherited-only" if child_domain in cgs else "leaked-only" if leaked in cgs else "neither")})
            visit(d["node"], child_domain, d["cfw"], flow_after(flow, d), dict(cflow) if d["form"] == "str" else {})

    rq = u["request"]
    cflow0 = {}
    if rq["domain"] is not None and rq["domain_via"] == "context":
        cflow0["domain"] = rq["domain"]
    if rq["cfw"] is not None and rq["cfw_via"] == "context":
        cflow0["compute_framework"] = rq["cfw"]
    visit(0, rq["domain"], rq["cfw"], flow_after({}, rq), cflow0)
    return res


def readings(cf: M.Cfws, u: Dict[str, Any], context_reaches_strings: bool = False) -> List[Dict[str, Any]]:
    """the reference outcomes under every reading of the undocumented point (deduplicated)"""
    base = o_walk(cf, u, {}, context_reaches_strings)
    outs = [base]
    if base["ambiguous"] or any(d["cfw_via"] == "group" for nd in u["nodes"] for g in nd["groups"] for d in g["deps"]) or u["request"]["cfw_via"] == "group":
        nodes = list(range(1, len(u["nodes"])))
        seen = {M_key(base)}
        for bits in itertools.product([False, True], repeat=len(nodes)):
            rd = {n: b for n, b in zip(nodes, bits)}
            w = o_walk(cf, u, rd, context_reaches_strings)
            k = M_key(w)
            if k not in seen:
                seen.add(k)
                outs.append(w)
    return outs


def M_key(w: Dict[str, Any]) -> str:
    return repr((sorted((n, v["group"], v["domain"], v["pin"]) for n, v in w["nodes"].items()), sorted((f["node"], f["kind"]) for f in w["fails"])))


def link_groups(u: Dict[str, Any]) -> List[Tuple[int, int]]:
    """(node, group) of every group some link names"""
    lk = u.get("link")
    if not lk:
        return []
    return [(n, gi) for n in (lk["left_node"], lk["right_node"]) for gi in range(len(u["nodes"][n]["groups"]))]


def mismatch(cf: M.Cfws, u: Dict[str, Any], ref: Dict[str, Any], impl: Dict[str, Any]) -> Optional[Tuple[str, Any, Any]]:
    """first difference between what the real run shows and the reference (None = the property holds on this case)"""
    names = {nd["name"]: n for n, nd in enumerate(u["nodes"])}
    if ref["fails"]:
        want = sorted({(f["kind"], u["nodes"][f["node"]]["name"]) for f in ref["fails"]})
        if "err" not in impl:
            f = ref["fails"][0]
            return (f"request accepted although feature '{u['nodes'][f['node']]['name']}' (domain {f['domain']}, framework setting {f['pin']}) has {'no' if f['kind'] == 'noGroup' else 'several'} admissible group(s) {f['adm']}; attached: {impl['sel']}", impl.get("sel"), want)
        if (impl["err"], impl["feature"]) not in want:
            return (f"rejected with {impl['err']} for feature {impl['feature']!r}; by the propagation rules the request must be rejected with one of {want}", [impl["err"], impl["feature"]], want)
        return None
    if "err" in impl:
        chain = [(u["nodes"][n]["name"], v["domain"], v["group"]) for n, v in sorted(ref["nodes"].items())]
        return (f"valid request rejected with {impl['err']} (feature {impl['feature']!r}) although every feature of the closure has exactly one admissible group: (feature, domain, group) = {chain}", [impl["err"], impl["feature"]], chain)
    # ---- prepare time: group, domain and framework set of every feature of the closure
    want_sel = []
    for n, v in sorted(ref["nodes"].items()):
        want_sel.append([u["nodes"][n]["name"], n, v["group"], v["domain"]])
        if (n, v["group"]) in link_groups(u):  # D6
            want_sel.append([INDEX_COL, n, v["group"], v["domain"]])
    got_sel = sorted([s[0], s[1], s[2], s[3]] for s in impl["sel"])
    if got_sel != sorted(want_sel):
        bad = [s for s in got_sel if s not in want_sel] or [s for s in want_sel if s not in got_sel]
        s = bad[0]
        return (f"feature '{s[0]}' attached to (node, group, feature domain) = {s[1:]} ; the propagation rules give [feature, node, group, domain] = {sorted(want_sel)}, attached were {got_sel}", got_sel, sorted(want_sel))
    fws_of: Dict[Tuple[int, int], List[int]] = {}
    for nm, n, gi, _dom, fws in impl["sel"]:
        v = ref["nodes"][n]
        if nm != INDEX_COL:
            fws_of[(n, gi)] = fws
            if not fws or any(f not in v["fws"] for f in fws) or (v["own_pin"] is not None and fws != [v["own_pin"]]):
                return (f"feature '{nm}' carries the framework set {fws}; admissible (API ∩ rule ∩ feature setting ∩ available) is {v['fws']}, own setting {v['own_pin']}", fws, v["fws"])
    for nm, n, gi, _dom, fws in impl["sel"]:
        if nm == INDEX_COL and fws != fws_of.get((n, gi)):
            return (f"index feature '{nm}' of group (node {n}, group {gi}) carries the framework set {fws}, the feature it was created for {fws_of.get((n, gi))}", fws, fws_of.get((n, gi)))
    if "run_err" in impl:
        return (f"resolved as the propagation rules say, but running the plan failed: {impl['run_err']}", impl["run_err"], "a result")
    if "ran" not in impl:
        return None
    # ---- run time: which group's calculation ran for which feature, domain / framework the feature carries in the call
    want_ran = sorted([e[0], e[1], e[2]] for e in want_sel)
    got_ran = sorted([e[0], e[1], e[2]] for e in impl["ran"])
    if got_ran != want_ran:
        return (f"calculate_feature ran for [feature, node, group] = {got_ran}; the propagation rules give {want_ran}", got_ran, want_ran)
    per_call: Dict[Tuple[int, int], set] = {}
    for nm, n, gi, dom, fw, call in impl["ran"]:
        v = ref["nodes"][n]
        if dom != v["domain"]:
            return (f"feature '{nm}' computed by (node {n}, group {gi}) carries domain {dom}; by the propagation rules its domain is {v['domain']}", dom, v["domain"])
        if fw not in v["fws"]:
            return (f"feature '{nm}' computed by (node {n}, group {gi}) on framework {fw}; admissible is {v['fws']}", fw, v["fws"])
        per_call.setdefault((n, gi), set()).add((call, fw))
    for key, calls in per_call.items():
        if len(calls) > 1:
            return (f"the features of group (node, group) = {key} (a feature and its index feature) were computed in different calls / on different frameworks: {sorted(calls)}", sorted(calls), "one call on one framework")
    ok_types = cf.table_types(ref["nodes"][0]["fws"])
    if len(impl["types"]) != 1 or impl["types"][0] not in [t.__name__ for t in ok_types] or impl["cols"] != [[u["nodes"][0]["name"]]]:
        return (f"returned tables of types {impl['types']} with columns {impl['cols']}; expected one table with column {u['nodes'][0]['name']} of a type in {[t.__name__ for t in ok_types]}", impl["types"], [t.__name__ for t in ok_types])
    return None


# ------------------------------------------------------------------------------------------------
# running one case


def mk_link(u: Dict[str, Any], classes: List[List[type]]) -> Any:
    from mloda.core.abstract_plugins.components.link import Link, JoinSpec
    from mloda.core.abstract_plugins.components.index.index import Index

    lk = u.get("link")
    if not lk:
        return None
    return {Link(lk["jt"], JoinSpec(a, Index((INDEX_COL,))), JoinSpec(b, Index((INDEX_COL,)))) for a in classes[lk["left_node"]] for b in classes[lk["right_node"]]}


def run_case(cf: M.Cfws, u: Dict[str, Any], classes: List[List[type]], log: str, api_as_names: bool) -> Dict[str, Any]:
    from mloda.user import mloda

    flat = {k.__name__: (n, gi) for n, row in enumerate(classes) for gi, k in enumerate(row)}
    by_name = {nd["name"]: n for n, nd in enumerate(u["nodes"])}
    rq = u["request"]
    fobj = mk_feature(cf, u["nodes"][0]["name"], rq, {"tag": "t"} if rq.get("tag") else None)
    api_py: Any = [cf.classes[i].__name__ for i in u["api"]] if api_as_names else {cf.classes[i] for i in u["api"]}
    open(log, "w").close()
    try:
        sess = mloda.prepare([fobj], compute_frameworks=api_py, links=mk_link(u, classes), plugin_collector=F.collector({k for row in classes for k in row}))
    except Exception as e:  # noqa: BLE001
        return err_of(e)
    sel = []
    for g, feats in sess.engine.feature_group_collection.items():
        n, gi = flat.get(g.__name__, (-1, -1))
        for f in feats:
            sel.append([f.get_name(), n, gi, f.domain.name if f.domain else None, cf.ids(f.compute_frameworks or ())])
    out: Dict[str, Any] = {"sel": sorted(sel, key=str)}
    from harness import schedlib as S

    done, res = S.guarded(sess.run, RUN_TIMEOUT_S)  # a spinning SYNC orchestrator must not hang the check
    if not done:
        out["run_err"] = f"timeout: session.run() did not return within {RUN_TIMEOUT_S:.0f} s"
        return out
    if isinstance(res, BaseException):
        out["run_err"] = type(res).__name__ + ":" + str(res)[:200].replace("\n", " ")
        return out
    ran = []
    for call, e in enumerate(x for x in M.read_events(log) if x.get("ev") == "begin"):
        n, gi = flat.get(e["group"], (-1, -1))
        for nm, dom, fwn in e["feats"]:
            fw = next((i for i, c in enumerate(cf.classes) if c.__name__ == fwn), -1)
            ran.append([nm, n, gi, dom, fw, call])
    out["ran"] = sorted(ran, key=str)
    out["types"] = [type(t).__name__ for t in res]
    out["cols"] = [sorted(F.columns_of(t)) for t in res]
    return out


def model_requests(cf: M.Cfws, u: Dict[str, Any], ref: Dict[str, Any]) -> List[Tuple[int, Dict[str, Any]]]:
    """C10.resolve for every feature the reference reaches (resolved or failing), fed with the propagated setting"""
    reqs = []
    lk = u.get("link")
    items = [(n, v["domain"], v["pin"]) for n, v in ref["nodes"].items()] + [(f["node"], f["domain"], f["pin"]) for f in ref["fails"]]
    for n, dom, pin in sorted(items):
        gs = u["nodes"][n]["groups"]
        if not gs:
            continue  # no class at all serves the name (the model's mapping of accessible groups is never empty)
        fgs = [{"id": gi, "crit": True, "domain": g["domain"], "rule": None if g["rule"] == "any" else g["rule"], "idx": [[INDEX_COL]] if g["idx"] else None} for gi, g in enumerate(gs)]
        reqs.append((n, {
            "op": "C10.resolve", **cf.world([None] * len(gs)), "pc": {"disabled": [], "enabled": list(range(len(gs)))}, "fgs": fgs,
            "cfws": list(u["api"]), "feature": {"domain": dom, "cfw": pin}, "links": [[[INDEX_COL], [INDEX_COL]]] if lk else None,
        }))  # fmt: skip
    return reqs


def conflict_finding(ref: Dict[str, Any], impl: Dict[str, Any]) -> Optional[str]:
    """narrow predicate of the deviation found on the unchanged tree: a dependency spells its own domain / framework through the
    OPTIONS while a different value of the same key flows down to it with the group options -> 'Duplicate key' ValueError"""
    if impl.get("err") == "optionConflict" and ref["conflicts"]:
        return FINDING_CONFLICT
    return None


def suite(ctx: Ctx, cf: M.Cfws, name: str, with_join: bool, n: int, only: Optional[List[Dict[str, Any]]] = None) -> None:
    tmp = tempfile.mkdtemp(prefix="c10dc_")
    log = os.path.join(tmp, "events.jsonl")
    os.environ[F.LOG_ENV] = log
    pend: List[Tuple[Dict[str, Any], List[Dict[str, Any]], Dict[str, Any], int, List[int]]] = []
    reqs: List[Dict[str, Any]] = []
    try:
        cases = list(only) if only is not None else []  # every case is generated
        k = 0
        while only is None and len(cases) < n:
            cases.append(gen_chain_universe(ctx, cf, next(M._UID), with_join))
        for u in cases:
            classes = build_classes(u, cf)
            if k < 40:
                check_spec(ctx, u, classes, cf)
            k += 1
            impl = run_case(cf, u, classes, log, api_as_names=ctx.rng.random() < 0.4)
            for row in classes:
                M.dispose(row)
            M.maybe_collect(60)
            refs = readings(cf, u)
            mr = model_requests(cf, u, refs[0]) if len(refs) == 1 and not refs[0]["context_reached"] else []
            pend.append((u, refs, impl, len(reqs), [nn for nn, _ in mr]))
            reqs += [r for _, r in mr]
    finally:
        os.environ.pop(F.LOG_ENV, None)
        import shutil

        shutil.rmtree(tmp, ignore_errors=True)
    outs = ctx.lean.batch(reqs) if reqs else []
    for u, refs, impl, pos, mr_nodes in pend:
        cnt = len(mr_nodes)
        ref0 = refs[0]
        hits = ref0["hits"]
        expected = "ok" if not ref0["fails"] else ref0["fails"][0]["kind"]
        rq = u["request"]
        ctx.case(
            name, u, bool(hits),
            **{
                f"{name}_levels": len(u["nodes"]),
                f"{name}_request_domain_via": rq["domain_via"] or "none",
                f"{name}_request_cfw_via": rq["cfw_via"] or "none",
                f"{name}_expected": expected,
                f"{name}_outcome": impl.get("err", impl.get("run_err", "ok"))[:40],
                f"{name}_readings": len(refs),
                f"{name}_override_below_leaked_option": "yes" if hits else "no",
            },
        )  # fmt: skip
        for h in hits:
            ctx.tag(f"{name}_hit_dependency_form", h["form"])
            ctx.tag(f"{name}_hit_groups_exist_in", h["groups"])
        if hits and u.get("link") and any((h["child"], ref0["nodes"].get(h["child"], {}).get("group")) in link_groups(u) for h in hits):
            ctx.tag(f"{name}_hit_has_index_feature", "yes")
        if ref0["conflicts"]:
            ctx.tag(f"{name}_option_spelled_override_conflicts", "yes")
        # oracle: the run must agree with the reference under at least one reading of the undocumented point
        mm = [mismatch(cf, u, r, impl) for r in refs]
        if all(m is not None for m in mm):
            what, got, want = mm[0]  # type: ignore[misc]
            cls = conflict_finding(ref0, impl)
            if cls is None and ref0["context_reached"] and any(mismatch(cf, u, r, impl) is None for r in readings(cf, u, context_reaches_strings=True)):
                cls = FINDING_CONTEXT  # exactly what results when the request's context option pins its string dependencies
            ctx.violation(name, u, what + (f"  [{len(refs)} readings of the inherited framework option tried]" if len(refs) > 1 else ""), got, want, finding_class=cls)
        # model: per feature of the closure, the propagated setting through C10.resolve
        if cnt and "run_err" not in impl:
            got_groups = {s[1]: [s[2], s[4]] for s in impl.get("sel", []) if s[0] != INDEX_COL}
            names = {nd["name"]: i for i, nd in enumerate(u["nodes"])}
            for nn, o in zip(mr_nodes, outs[pos : pos + cnt]):
                r = o["r"]
                if "ok" in r:
                    model: Any = [r["ok"][0], sorted(r["ok"][1])]
                    if "err" in impl:
                        continue  # the walk stopped at another feature (judged by the oracle)
                    if got_groups.get(nn) != model:
                        ctx.disagree(name, {"u": u, "node": nn}, got_groups.get(nn), model)
                else:
                    if impl.get("err") == "optionConflict":
                        continue
                    fails = [f for f in ref0["fails"]]
                    if "err" not in impl or (len(fails) == 1 and (impl["err"], names.get(impl["feature"])) != (r["err"], nn)):
                        ctx.disagree(name, {"u": u, "node": nn}, {k: impl.get(k) for k in ("err", "feature")}, r)


# ------------------------------------------------------------------------------------------------


def run(ctx: Ctx) -> None:
    ctx.extra["rule"] = (ctx.extra.get("rule", "") + " | domainchain: dependency chains of 3-5 feature names (chain_index: 2-3 levels + a consumer joining two linked, indexed "
        "root groups), per name 0-4 groups in 2-3 domains / the default domain with own framework rules; the request gives domain / framework by parameter, group option, "
        "context option or not at all; every group states its dependency as string, Feature(name) or Feature with explicit domain (parameter / option, mostly another domain "
        "than the inherited one) and optionally a framework; judged per feature of the closure against the documented propagation rules; non-trivial = some dependency "
        "without own domain sits below an override while a different 'domain' group option flows down to it")  # fmt: skip
    cf = M.Cfws()
    suite(ctx, cf, "chain_resolve", False, ctx.budget(700, 8000))
    suite(ctx, cf, "chain_index", True, ctx.budget(300, 3500))


def search(ctx: Ctx, broken: List[str]) -> None:
    run(ctx)


def replay(ctx: Ctx, body: Dict[str, Any]) -> None:
    case = body.get("case") or {}
    if body.get("suite") in ("chain_resolve", "chain_index") and "nodes" in case:
        suite(ctx, M.Cfws(), body["suite"], bool(case.get("link")), 1, only=[case])
    else:
        run(ctx)
