"""C04 (extension `mixedlinks`) - link sets with SEVERAL links between the same two feature groups, of mixed kinds.

Input class.  The other C04 suites give every pair of sources at most one link, always a key join (inner / left / outer /
right).  Here the link set of a request holds two or three links over the same two feature groups:
  * a REVERSED PAIR  A->B + B->A  of MIXED kind: one stacking link (APPEND / UNION) and one key join (inner / left / right /
    outer), either of them being the A->B one                                                              (shape `mixed`);
  * controls of equal kind: reversed pairs of two stacking links (the documented exemption) and of two key joins,
    two links over the same ORDERED pair with different join types, a single link of any kind;
  * triples: a mixed reversed pair plus a third link over the same two groups, or plus a link to a third source.
The request goes through the public API (`mloda.prepare(links=...)`); the consumer names one value column of every source
as an input feature that CARRIES THE INDEX of its source (`Feature(name, index=Index((key,)))`), which is what the planner
needs to plan a stacking link at all (a variant without the index is generated too: then every stacking link is refused
by the planner).  Sources on one framework or (two-source requests) on two.

Which links of a set are compared with which, and which of two contradicting links is met first, is a matter of the
iteration order of the `links` set; `Link.__hash__` is built from string hashes (join type name, class names, index
columns), so that order is a function of PYTHONHASHSEED and never changes inside one process.  Every request is therefore
prepared N times in this process and M times in each of 8 (quick) / 16 (thorough) child processes started with different
PYTHONHASHSEED values; the class names are fixed by the spec, so all processes build the very same request.

Oracle (from the property text).
  * "Preparing the same request always gives the same outcome: either the same rejection or an execution plan with the
    same steps": the outcome of every preparation in every process is either the canonical plan (`schedlib.canon_plan`:
    uuid free, order of independent steps ignored) or the rejection's exception class + message KIND (the message of a
    link-set rejection names the two links in the order they were met, which is allowed to vary; what is refused and why is
    not).  All outcomes of one request must be equal.  The same is asked of `LinkValidator.validate_links` alone, called on
    the very set object that is handed to `mloda.prepare` afterwards (function level; its verdict must also be the verdict
    of the preparation).
  * "in every plan that is accepted, each prerequisite a step waits for is produced by some step of the plan, the wait-for
    relation is acyclic": every accepted plan of every process is decided by the Lean `planOK` (driver op C04.planCheck)
    and by a plain scheduler simulation in Python (compared with each other: a difference is a disagreement).
  * "every run terminates (returns or raises)": well-ranked plans are run under a watchdog (SYNC + THREADING here, SYNC in
    every child); a plan that is not well ranked is run in a child process that is killed (confirmation of the spin).
Model tie: `LinkValidator.validate_links` on the generated sets, in the iteration order of every process, against the Lean
model of the validator (`Links.validateLinks`, driver op C18.validate of property C18's driver): verdict and the ordered
pair of links named in the message.
"""
from __future__ import annotations

import json
import os
import re
import subprocess
import sys
import tempfile
import time
from typing import Any, Dict, List, Optional, Set, Tuple

if __name__ == "__main__":  # child mode: make /repo (or $MLODA_REPO) and /verif importable before anything else
    sys.path.insert(0, os.environ.get("MLODA_REPO", "/repo"))
    sys.path.insert(0, os.path.dirname(os.path.dirname(os.path.dirname(os.path.abspath(__file__)))))

from harness.core import Ctx, env_for_subprocess
from harness import fgfactory as F
from harness import schedlib as S

SUITES = {"mixedlinks_prepare", "mixedlinks_validate", "mixedlinks_planOK", "mixedlinks_terminates", "mixedlinks_hashseed", "mixedlinks_spin_confirm"}

ASSUMPTIONS = [
    "C04_mixedlinks: hash-seed dependence is sampled with 8 (quick) / 16 (thorough) PYTHONHASHSEED values in child processes, 2 preparations each, plus 3-4 preparations in the check process (whose own hash seed is whatever the caller's environment gives)",
    "C04_mixedlinks: rejections are compared by exception class + message kind (the three LinkValidator messages, the planner's 'Are the indexes for the append or union set correctly?', else the message with uuids / addresses removed); which of several equally offending links a message names (first) is not part of the outcome",
    "C04_mixedlinks: termination of a real run is observed under a watchdog (20 s in-process, 20 s in a child); plans that are not well ranked are only run in a child process that is killed after 6 s",
    "C04_mixedlinks: the validator model compared with is the one of property C18 (Model/Links.lean through drivers/C18.lean); if that driver does not build the comparison is skipped with a note and the oracle alone judges",
]

STACK = ("append", "union")
REAL = ("inner", "left", "right", "outer")
RUN_LIMIT = 20.0
CHILD_RUN_LIMIT = 20.0
SPIN_LIMIT = 6.0
FC_STACK_REV = "reversed-append-union-pair-joins-wait-for-each-other"

UUID_RE = re.compile(r"[0-9a-f]{8}-[0-9a-f]{4}-[0-9a-f]{4}-[0-9a-f]{4}-[0-9a-f]{12}")

# ------------------------------------------------------------------------------------------------------------------
# generator

SHAPES = [("mixed", 0.42), ("mixed_triple_pair", 0.10), ("mixed_third_source", 0.10), ("stack_rev", 0.08), ("real_rev", 0.08), ("same_dir", 0.08), ("single", 0.08),
          ("stack_third_source", 0.06)]  # fmt: skip


def _pick_shape(rng: Any) -> str:
    r = rng.random()
    acc = 0.0
    for name, w in SHAPES:
        acc += w
        if r < acc:
            return name
    return "mixed"


def gen_mixed_spec(rng: Any, shape: Optional[str] = None) -> Dict[str, Any]:
    """2-3 root sources with coinciding unique key sets, a link set of the given shape, one consumer over a value column of
    every source (index carrying unless `indexed` is off)."""
    uid = F.uniq("")
    shape = shape or _pick_shape(rng)
    nsrc = 3 if shape in ("mixed_third_source", "stack_third_source") else 2
    fws = ("pa", "pd", "py")
    fw0 = rng.choice(fws)
    cross = nsrc == 2 and rng.random() < 0.2  # three sources across frameworks are the input class of a known finding of the main suite
    shared_key = rng.random() < 0.5
    keys = rng.sample([1, 2, 3, 4, 5, 6], rng.randint(1, 4))
    sources = []
    for i in range(nsrc):
        ks = list(keys)
        rng.shuffle(ks)
        kname = f"k{uid}" if shared_key else f"k{uid}_{i}"
        sfw = fw0 if (i == 0 or not cross) else rng.choice([x for x in fws if x != fw0])
        sources.append({"name": f"S{uid}_{i}", "fw": sfw, "key": kname, "cols": {kname: ks, f"v{uid}_{i}": [rng.randint(0, 9) * (10**i) for _ in ks]}})
    a, b = (0, 1) if rng.random() < 0.5 else (1, 0)
    st, st2 = rng.choice(STACK), rng.choice(STACK)
    re_, re2 = rng.choice(REAL), rng.choice(REAL)
    links: List[Dict[str, Any]] = []

    def add(t: str, l: int, r: int) -> bool:
        d = {"type": t, "left": l, "right": r}
        if d in links:
            return False
        links.append(d)
        return True

    if shape.startswith("mixed"):
        # exactly one stacking link and one key join over the two groups, in opposite orientation
        add(re_, a, b)
        add(st, b, a)
        if shape == "mixed_triple_pair":
            while not add(rng.choice(STACK + REAL), *rng.choice([(a, b), (b, a)])):
                pass
        elif shape == "mixed_third_source":
            x = rng.choice([0, 1])
            l, r = (x, 2) if rng.random() < 0.5 else (2, x)
            add(rng.choice(REAL + STACK), l, r)
    elif shape == "stack_rev":
        add(st, a, b)
        add(st2, b, a)
    elif shape == "real_rev":
        add(re_, a, b)
        add(re2, b, a)
    elif shape == "same_dir":
        t1 = rng.choice(STACK + REAL)
        t2 = rng.choice([t for t in (STACK if t1 in REAL and rng.random() < 0.6 else STACK + REAL) if t != t1])
        add(t1, a, b)
        add(t2, a, b)
    elif shape == "single":
        add(rng.choice(STACK + REAL), a, b)
    elif shape == "stack_third_source":
        add(st, a, b)
        x = rng.choice([0, 1])
        l, r = (x, 2) if rng.random() < 0.5 else (2, x)
        add(rng.choice(("inner", "left", "outer")), l, r)
    rng.shuffle(links)
    cfw = sources[rng.choice([a, b])]["fw"]
    consumer = {"name": f"Z{uid}", "fw": cfw, "feature": f"z{uid}", "parents": [f"v{uid}_{i}" for i in range(nsrc)], "indexed": rng.random() < 0.88}
    return {"mixedlinks": True, "shape": shape, "sources": sources, "links": links, "consumer": consumer}


# ------------------------------------------------------------------------------------------------------------------
# what the class looks like on a given spec (decided on the spec alone)


def reversed_pairs(spec: Dict[str, Any]) -> List[Tuple[Dict[str, Any], Dict[str, Any]]]:
    ls = spec["links"]
    return [(x, y) for i, x in enumerate(ls) for y in ls[i + 1 :] if x["left"] == y["right"] and x["right"] == y["left"] and x["left"] != x["right"]]


def pair_kinds(spec: Dict[str, Any]) -> Dict[str, int]:
    """number of reversed pairs per kind: mixed (exactly one stacking link), stack (both), real (none)"""
    out = {"mixed": 0, "stack": 0, "real": 0}
    for x, y in reversed_pairs(spec):
        n = (x["type"] in STACK) + (y["type"] in STACK)
        out["mixed" if n == 1 else ("stack" if n == 2 else "real")] += 1
    return out


def stack_rev_only(spec: Dict[str, Any]) -> bool:
    """input class of the finding recorded for the unchanged tree: the link set holds a reversed pair of two stacking links
    and no reversed pair with a key join in it"""
    pk = pair_kinds(spec)
    return pk["stack"] >= 1 and pk["mixed"] == 0 and pk["real"] == 0


# ------------------------------------------------------------------------------------------------------------------
# building the real request


def build_request(spec: Dict[str, Any]) -> Tuple[Dict[str, Any], Set[Any], List[Any], Set[Any], Dict[int, int]]:
    """classes, the links SET (the object handed to mloda), requested features, frameworks, id(link) -> position in spec['links']"""
    from mloda.user import Feature
    from mloda.core.abstract_plugins.components.link import Link, JoinSpec
    from mloda.core.abstract_plugins.components.index.index import Index

    classes: Dict[str, Any] = {}
    for s in spec["sources"]:
        classes[s["name"]] = F.make_group(s["name"], root_data=s["cols"], index_columns=[(s["key"],)], frameworks={F.FW_SHORT[s["fw"]]})
    c = spec["consumer"]
    col_key = {v: s["key"] for s in spec["sources"] for v in s["cols"] if v != s["key"]}
    indexed = bool(c.get("indexed", True))

    def input_features(self: Any, options: Any, feature_name: Any) -> Set[Any]:
        return {Feature(p, index=Index((col_key[p],))) if indexed else Feature(p) for p in c["parents"]}

    classes[c["name"]] = F.make_group(c["name"], derived={c["feature"]: {"parents": list(c["parents"]), "expr": ["col", c["parents"][0]]}}, frameworks={F.FW_SHORT[c["fw"]]},
                                      extra={"input_features": input_features})  # fmt: skip
    links: Set[Any] = set()
    pos: Dict[int, int] = {}
    for n, l in enumerate(spec["links"]):
        sa, sb = spec["sources"][l["left"]], spec["sources"][l["right"]]
        lk = getattr(Link, l["type"])(JoinSpec(classes[sa["name"]], Index((sa["key"],))), JoinSpec(classes[sb["name"]], Index((sb["key"],))))
        pos[id(lk)] = n
        links.add(lk)
    fws = {F.FW_SHORT[s["fw"]] for s in spec["sources"]} | {F.FW_SHORT[c["fw"]]}
    return classes, links, [Feature(c["feature"])], fws, pos


def link_json(spec: Dict[str, Any], n: int) -> Dict[str, Any]:
    """a link of the spec in the vocabulary of the C18 driver (classes = source numbers)"""
    l = spec["links"][n]
    return {"jt": l["type"], "l": l["left"], "r": l["right"], "li": [spec["sources"][l["left"]]["key"]], "ri": [spec["sources"][l["right"]]["key"]], "uid": n}


def message_kind(e: BaseException) -> str:
    msg = str(e)
    if "at least two different defined joins" in msg:
        return "double"
    if "different join types for the same feature groups" in msg:
        return "conflict"
    if "multiple right joins for the same feature group" in msg:
        return "right"
    if "Are the indexes for the append or union set correctly?" in msg:
        return "stacking-link-without-indexed-features"  # the message goes on with the index pair of the stacking link that was planned first
    msg = UUID_RE.sub("<uuid>", msg)
    msg = re.sub(r"0x[0-9a-f]+", "<addr>", msg)
    return " / ".join(sorted(x.strip() for x in msg.splitlines() if x.strip()))[:240]


def validate_fn(links: Set[Any], pos: Dict[int, int]) -> Dict[str, Any]:
    """LinkValidator.validate_links on the set: verdict kind + (when the message names two links) their spec positions in the
    order of the message; `order` = the set's iteration order in this process"""
    from mloda.core.abstract_plugins.components.validators.link_validator import LinkValidator

    order = [pos[id(l)] for l in links]
    by_uuid = {str(l.uuid): pos[id(l)] for l in links}
    try:
        LinkValidator.validate_links(links)
        return {"order": order, "v": {"r": "ok"}}
    except BaseException as e:  # noqa
        k = message_kind(e)
        v: Dict[str, Any] = {"r": k if k in ("double", "conflict", "right") else "other:" + type(e).__name__}
        us = UUID_RE.findall(str(e))
        if len(us) >= 2 and k in ("double", "conflict", "right"):
            v["i"], v["j"] = by_uuid.get(us[0], -1), by_uuid.get(us[1], -1)
        return {"order": order, "v": v}


def outcome_of(spec: Dict[str, Any]) -> Dict[str, Any]:
    """one preparation: function-level validation of the set, then mloda.prepare with the same set object"""
    from mloda.user import mloda

    classes, links, feats, fws, pos = build_request(spec)
    val = validate_fn(links, pos)
    try:
        sess = mloda.prepare(list(feats), compute_frameworks=fws, links=links, plugin_collector=F.collector(set(classes.values())))
        exp = S.export_plan(sess)
        return {"plan": S.canon_plan(exp), "_exp": exp, "_sess": sess, "_val": val}
    except BaseException as e:  # noqa
        return {"rejected": type(e).__name__, "kind": message_kind(e), "_val": val}


def pub(o: Dict[str, Any]) -> Dict[str, Any]:
    return {k: v for k, v in o.items() if not k.startswith("_")}


def well_ranked(lp: Dict[str, Any]) -> Dict[str, Any]:
    """Property text, plain Python: each prerequisite is produced by some step, outputs non-empty and pairwise disjoint, and a
    scheduler that may finish a step once everything it waits for is finished gets through all steps (acyclic wait-for)."""
    steps = lp["steps"]
    produced: List[int] = [u for st in steps for u in st["outs"]]
    dangling = sorted({r for st in steps for r in st["req"] if r not in produced})
    nonempty = all(st["outs"] for st in steps)
    disjoint = len(produced) == len(set(produced))
    fin: Set[int] = set()
    todo = list(range(len(steps)))
    progress = True
    while todo and progress:
        progress = False
        for i in list(todo):
            if set(steps[i]["req"]) <= fin:
                fin |= set(steps[i]["outs"])
                todo.remove(i)
                progress = True
    return {"ok": nonempty and disjoint and not dangling and not todo, "nonempty": nonempty, "disjoint": disjoint, "dangling": dangling, "stuck": todo,
            "stuck_kinds": sorted({steps[i]["kind"] for i in todo})}  # fmt: skip


# ------------------------------------------------------------------------------------------------------------------
# child processes: other hash seeds


def child_main() -> None:
    import logging
    import threading

    logging.disable(logging.CRITICAL)
    threading.excepthook = lambda args: None
    with open(sys.argv[1]) as f:
        req = json.loads(f.read())
    if req.get("run_only"):
        # one request, SYNC; the parent kills this process when it spins
        o = outcome_of(req["specs"][0])
        if "plan" not in o:
            print(json.dumps("rejected"), flush=True)
            os._exit(0)
        try:
            o["_sess"].run()
            print(json.dumps("returned"), flush=True)
        except BaseException:  # noqa
            print(json.dumps("raised"), flush=True)
        os._exit(0)
    out = []
    for spec in req["specs"]:
        res = []
        for k in range(req.get("n", 2)):
            o = outcome_of(spec)
            r = pub(o)
            r["val"] = o["_val"]
            if "plan" in o:
                lp = S.lean_plan(o["_exp"])
                r["lean_plan"] = lp
                wr = well_ranked(lp)
                if k == 0 and wr["ok"] and req.get("run"):
                    fin, val = S.guarded(lambda: o["_sess"].run(), CHILD_RUN_LIMIT)
                    r["run"] = "timeout" if not fin else ("raise" if isinstance(val, BaseException) else "return")
                    if not fin:
                        # a spinning daemon thread would slow everything that follows: report what we have and stop
                        res.append(r)
                        out.append(res)
                        print(json.dumps({"partial": True, "out": out}), flush=True)
                        os._exit(0)
            res.append(r)
        out.append(res)
    print(json.dumps({"partial": False, "out": out}), flush=True)
    os._exit(0)


def _spawn(payload: Dict[str, Any], hashseed: Optional[int]) -> Any:
    env = env_for_subprocess()
    if hashseed is not None:
        env["PYTHONHASHSEED"] = str(hashseed)
    fd, path = tempfile.mkstemp(prefix="verif_mixedlinks_", suffix=".json")
    with os.fdopen(fd, "w") as f:
        f.write(json.dumps(payload))
    p = subprocess.Popen(["/venv/bin/python", os.path.abspath(__file__), path], stdin=subprocess.DEVNULL, stdout=subprocess.PIPE, stderr=subprocess.PIPE, text=True, env=env)
    p._verif_payload = path  # type: ignore[attr-defined]
    return p


def _reap(p: Any, limit: float) -> Tuple[Optional[str], str]:
    """(stdout or None on timeout, stderr); the child is killed when it does not end in time."""
    try:
        txt, err = p.communicate(timeout=limit)
    except subprocess.TimeoutExpired:
        p.kill()
        p.communicate()
        txt, err = None, ""
    try:
        os.unlink(p._verif_payload)
    except OSError:
        pass
    return txt, err


def spin_in_children(jobs: List[Tuple[Dict[str, Any], Optional[int]]], limit: float) -> List[str]:
    """run each (spec, hash seed) in its own child (SYNC), all at once; 'timeout' = killed after `limit` seconds"""
    procs = [_spawn({"specs": [spec], "run_only": True}, sd) for spec, sd in jobs]
    t_end = time.time() + limit
    res = []
    for p in procs:
        txt, _ = _reap(p, max(0.5, t_end - time.time()))
        if txt is None:
            res.append("timeout")
            continue
        try:
            res.append(str(json.loads(txt.strip().splitlines()[-1])))
        except Exception:
            res.append("child-failed")
    return res


# ------------------------------------------------------------------------------------------------------------------
# the suites


_c18_ready: Dict[str, Any] = {}


def c18_driver(ctx: Ctx) -> Any:
    """Lean client of property C18's driver (model of LinkValidator.validate_links), built on demand; None when it does not build"""
    if "ok" not in _c18_ready:
        from harness import core

        try:
            _c18_ready["ok"] = bool(core.lake_build(["MlodaVerif.Drv.C18"]).ok)
        except Exception:
            _c18_ready["ok"] = False
        if not _c18_ready["ok"]:
            ctx.note("C04_mixedlinks: MlodaVerif.Drv.C18 does not build - validator model comparison skipped, oracle only")
    return ctx.driver("C18") if _c18_ready["ok"] else None


def judge_plan(ctx: Ctx, case: Dict[str, Any], lp: Dict[str, Any], lean_out: Dict[str, Any], hashseed: Optional[int], confirm: List[Any]) -> bool:
    """planOK of one accepted plan by the Lean checker and by the Python simulation; True when the plan may be run."""
    suite = "mixedlinks_planOK"
    spec = case["spec"]
    wr = well_ranked(lp)
    model_ok = bool(lean_out.get("planOK"))
    if model_ok != wr["ok"]:
        ctx.disagree(suite, {**case, "plan": lp}, {"python_well_ranked": wr}, {k: lean_out.get(k) for k in ("nonempty", "disjoint", "ranked", "planOK")})
    if not (model_ok and wr["ok"]):
        what = ("accepted plan of a request with several links between the same two feature groups is not closed/acyclic/disjoint: " + json.dumps(
            {"shape": spec["shape"], "links": spec["links"], "nonempty": wr["nonempty"], "disjoint": wr["disjoint"], "dangling": wr["dangling"], "steps_that_can_never_start": wr["stuck"],
             "lean": {k: lean_out.get(k) for k in ("nonempty", "disjoint", "ranked")}}))  # fmt: skip
        # narrow class of the finding on the unchanged tree: only stacking links are reversed, nothing dangles, and the steps that can
        # never start are join steps and steps waiting for them
        fclass = FC_STACK_REV if (stack_rev_only(spec) and wr["nonempty"] and wr["disjoint"] and not wr["dangling"] and "join" in wr["stuck_kinds"]) else None
        ctx.violation(suite, {**case, "plan": lp}, what, {"planOK": False}, {"planOK": True}, finding_class=fclass)
        confirm.append((spec, hashseed))
        return False
    return True


def judge_request(ctx: Ctx, spec: Dict[str, Any], outs_here: List[Dict[str, Any]], per_child: Dict[int, List[Dict[str, Any]]], confirm: List[Any], runnable: List[Any]) -> None:
    """all oracle parts for one request given the preparations of the check process and of the child processes"""
    first = pub(outs_here[0])
    pk = pair_kinds(spec)
    kinds = [s[0].split(":")[0] for s in first.get("plan", [])]
    stack_first = None
    if pk["mixed"]:
        order = outs_here[0]["_val"]["order"]
        stack_first = spec["links"][order[0]]["type"] in STACK
    ctx.case("mixedlinks_prepare", {"spec": spec, "outcome": "plan" if "plan" in first else first}, pk["mixed"] >= 1 or len(spec["links"]) >= 2,
             ml_shape=spec["shape"], ml_outcome="plan" if "plan" in first else f"rejected:{first['rejected']}:{first['kind'][:28]}", ml_links=len(spec["links"]),
             ml_pairs=f"mixed{pk['mixed']}/stack{pk['stack']}/real{pk['real']}", ml_indexed=spec["consumer"].get("indexed", True), ml_nsrc=len(spec["sources"]),
             ml_cross_fw=len({s["fw"] for s in spec["sources"]}) > 1, ml_joins=kinds.count("join"), ml_stack_link_first_here=stack_first)  # fmt: skip
    # 1. same outcome, every preparation of this process
    for o in outs_here[1:]:
        if pub(o) != first:
            ctx.violation("mixedlinks_prepare", {"spec": spec}, f"preparing the same request (link shape {spec['shape']}) twice in one process gave different outcomes", pub(o), first)
            break
    # 2. same outcome in every other process
    for sd, outs_child in per_child.items():
        accepted_there = [o for o in outs_child if "plan" in o]
        ctx.case("mixedlinks_hashseed", {"spec": spec, "seed": sd}, pk["mixed"] >= 1, ml_seed=sd, ml_child_run=outs_child[0].get("run", "-") if outs_child else "-",
                 ml_mixed_accepted_in_child=bool(pk["mixed"] and accepted_there))  # fmt: skip
        for o in outs_child:
            oc = {x: o[x] for x in ("plan", "rejected", "kind") if x in o}
            if oc != first:
                ctx.violation("mixedlinks_hashseed", {"spec": spec, "PYTHONHASHSEED": sd},
                              f"preparing the same request (links {[(l['type'], l['left'], l['right']) for l in spec['links']]}) under another hash seed gave a different outcome: "
                              f"{'plan' if 'plan' in oc else (oc.get('rejected'), oc.get('kind'))} there, {'plan' if 'plan' in first else (first.get('rejected'), first.get('kind'))} here", oc, first)  # fmt: skip
                break
        if outs_child and outs_child[0].get("run") == "timeout":
            ctx.violation("mixedlinks_terminates", {"spec": spec, "PYTHONHASHSEED": sd, "mode": "sync"}, f"accepted, well-ranked plan did not terminate within {CHILD_RUN_LIMIT:.0f} s (SYNC, child process)",
                          "timeout", "return or raise")  # fmt: skip
    # 3. the validator alone: one verdict for the set, whatever the iteration order, and the verdict of the preparation
    vals: List[Tuple[str, Dict[str, Any], Dict[str, Any]]] = [("check", o["_val"], pub(o)) for o in outs_here]
    for sd, outs_child in per_child.items():
        vals += [(f"PYTHONHASHSEED={sd}", o["val"], {x: o[x] for x in ("plan", "rejected", "kind") if x in o}) for o in outs_child]
    v0 = vals[0][1]["v"]["r"]
    orders = sorted({tuple(v["order"]) for _, v, _ in vals})
    ctx.tag("ml_distinct_set_orders", len(orders))
    for where, v, oc in vals:
        r = v["v"]["r"]
        if r != v0:
            ctx.violation("mixedlinks_validate", {"spec": spec, "where": where, "order": v["order"]}, f"LinkValidator.validate_links gave different verdicts for the same link set: {r} with iteration order "
                          f"{[spec['links'][i]['type'] for i in v['order']]} ({where}), {v0} with {[spec['links'][i]['type'] for i in vals[0][1]['order']]} (check process)", r, v0)  # fmt: skip
            break
    for where, v, oc in vals:
        r = v["v"]["r"]
        if r != "ok" and not (oc.get("rejected") == "ValueError" and oc.get("kind") == r):
            ctx.violation("mixedlinks_validate", {"spec": spec, "where": where}, f"the link set is refused by LinkValidator.validate_links ({r}) but the preparation ended differently", oc, {"rejected": "ValueError", "kind": r})
            break
        if r == "ok" and oc.get("kind") in ("double", "conflict", "right"):
            ctx.violation("mixedlinks_validate", {"spec": spec, "where": where}, "the link set passes LinkValidator.validate_links but the preparation is refused with a validator message", oc, "no validator rejection")
            break
    # 4. plans that may be run here
    if "plan" in first:
        runnable.append((spec, outs_here[0]))


def model_validate(ctx: Ctx, items: List[Tuple[Dict[str, Any], str, Dict[str, Any]]]) -> None:
    """function level: the real validator's verdict (+ named pair) on every observed iteration order vs the Lean model"""
    drv = c18_driver(ctx)
    seen: Set[str] = set()
    reqs, metas = [], []
    for spec, where, v in items:
        key = json.dumps([spec["consumer"]["name"], v["order"], v["v"]], sort_keys=True)
        if key in seen:
            continue
        seen.add(key)
        order = [link_json(spec, n) for n in v["order"]]
        n = len(spec["sources"])
        stack_first = spec["links"][v["order"][0]]["type"] in STACK if v["order"] else None
        ctx.case("mixedlinks_validate", {"links": order, "where": where}, len(order) >= 2, ml_validate=v["v"]["r"], ml_validate_stack_first=stack_first if pair_kinds(spec)["mixed"] else "-")
        reqs.append({"op": "C18.validate", "parents": [None] * n, "names": [s["name"] for s in spec["sources"]], "idx": [None] * n, "links": order})
        metas.append((spec, where, v, order))
    if drv is None or not reqs:
        return
    for (spec, where, v, order), o in zip(metas, drv.batch(reqs)):
        if v["v"] != o["v"]:
            ctx.disagree("mixedlinks_validate", {"links": order, "where": where, "shape": spec["shape"]}, v["v"], o["v"])


def run(ctx: Ctx) -> None:
    nreq = ctx.budget(56, 1200)
    nprep = 3 if ctx.quick else 4
    seeds = list(range(21, 29)) if ctx.quick else list(range(21, 37))
    specs = [gen_mixed_spec(ctx.rng) for _ in range(nreq)]
    t_start = time.time()
    judge_all(ctx, specs, nprep, seeds)
    S.stop_flight_server()
    ctx.extra["mixedlinks_wall_s"] = round(time.time() - t_start, 1)


def judge_all(ctx: Ctx, specs: List[Dict[str, Any]], nprep: int, seeds: List[int]) -> None:
    confirm: List[Any] = []
    runnable: List[Any] = []
    flagged: Set[int] = set()  # requests whose preparations already disagree
    # children first (they work while this process prepares)
    procs = [(sd, _spawn({"specs": specs, "n": 2, "run": True}, sd)) for sd in seeds]
    results = [[outcome_of(spec) for _ in range(nprep)] for spec in specs]
    limit = 90.0 + 3.0 * len(specs) + CHILD_RUN_LIMIT
    t_end = time.time() + limit
    ch: Dict[int, Any] = {}
    for sd, p in procs:
        txt, err = _reap(p, max(1.0, t_end - time.time()))
        try:
            ch[sd] = json.loads((txt or "").strip().splitlines()[-1])
        except Exception:
            # a child that does not answer at all: the harness cannot tell a spin from a crash here -> harness error, never a verdict
            raise RuntimeError(f"C04_mixedlinks child process (PYTHONHASHSEED={sd}) failed: {'no answer within %.0fs' % limit if txt is None else (err or '')[-800:]}")
        if ch[sd].get("partial"):
            ctx.note(f"C04_mixedlinks: child with hash seed {sd} stopped after a run that did not end ({len(ch[sd]['out'])} of {len(specs)} requests answered)")

    val_items: List[Tuple[Dict[str, Any], str, Dict[str, Any]]] = []
    lean_reqs, metas = [], []
    for n, spec in enumerate(specs):
        per_child = {sd: res["out"][n] for sd, res in ch.items() if n < len(res["out"])}
        nv = sum(x["violations"] for x in ctx.suites.values())
        judge_request(ctx, spec, results[n], per_child, confirm, runnable)
        if sum(x["violations"] for x in ctx.suites.values()) > nv:
            flagged.add(id(spec))
        first = pub(results[n][0])
        for k, o in enumerate(results[n]):
            val_items.append((spec, "check", o["_val"]))
            if "plan" in o and (k == 0 or pub(o) != first):
                lean_reqs.append({"op": "C04.planCheck", **S.lean_plan(o["_exp"])})
                metas.append((spec, None, k, S.lean_plan(o["_exp"]), o["plan"]))
        for sd, outs_child in per_child.items():
            seen_plans: List[Any] = []
            for k, o in enumerate(outs_child):
                val_items.append((spec, f"PYTHONHASHSEED={sd}", o["val"]))
                if "lean_plan" in o and o["plan"] not in seen_plans:
                    seen_plans.append(o["plan"])
                    lean_reqs.append({"op": "C04.planCheck", **o["lean_plan"]})
                    metas.append((spec, sd, k, o["lean_plan"], o["plan"]))
    # validator model
    model_validate(ctx, val_items)
    # every accepted plan of every process is well ranked (Lean planOK == Python simulation == True)
    bad_here: Set[int] = set()
    for (spec, sd, k, lp, cplan), lo in zip(metas, ctx.lean.batch(lean_reqs)):
        ctx.case("mixedlinks_planOK", {"plan": cplan, "seed": sd}, len(lp["steps"]) >= 4, ml_plan_steps=len(lp["steps"]))
        ok = judge_plan(ctx, {"spec": spec, "process": "check" if sd is None else f"PYTHONHASHSEED={sd}", "preparation": k}, lp, lo, sd, confirm)
        if not ok and sd is None:
            bad_here.add(id(spec))
    # every accepted plan terminates
    # (a request whose preparations already disagree is not run here: it is reported, and its plans were run in the children)
    hung = 0
    for spec, o in runnable:
        if id(spec) in bad_here or id(spec) in flagged:
            continue
        if hung >= 2:
            # every run that does not end leaves a spinning thread behind; two are enough to report, more only slow the check down
            ctx.note("C04_mixedlinks: in-process runs stopped after two runs that did not end")
            break
        nsteps = len(o["_exp"]["steps"])
        for mode in ("sync", "thread"):
            rr = S.run_session(o["_sess"], mode, timeout=RUN_LIMIT, attempts=2)
            ctx.case("mixedlinks_terminates", {"spec": spec, "mode": mode}, nsteps >= 4, ml_mode=mode, ml_run="timeout" if rr.timed_out else ("raise" if rr.error else "return"))
            if rr.timed_out:
                hung += 1
                ctx.violation("mixedlinks_terminates", {"spec": spec, "mode": mode}, f"accepted plan (links {spec['links']}) did not terminate within {RUN_LIMIT:.0f} s in mode {mode}", "timeout", "return or raise")
                break
    # the model says a plan that is not well ranked never returns (C04.wait_cycle_never_returns): confirm on the real code.
    # Plans seen in a child are confirmed under that child's hash seed; a plan of the check process is re-planned under a fresh
    # random hash seed (for the reversed stacking pairs the plan does not depend on it)
    jobs: List[Tuple[Dict[str, Any], Optional[int]]] = []
    done: Set[str] = set()
    for spec, sd in sorted(confirm, key=lambda c: c[1] is None):
        if spec["consumer"]["name"] in done or len(jobs) >= (3 if ctx.quick else 8):
            continue
        done.add(spec["consumer"]["name"])
        jobs.append((spec, sd))
    for (spec, sd), outcome in zip(jobs, spin_in_children(jobs, SPIN_LIMIT + 4.0) if jobs else []):
        ctx.case("mixedlinks_spin_confirm", {"spec": spec, "PYTHONHASHSEED": sd}, True, ml_spin=outcome)
        if outcome in ("returned", "raised") and (sd is not None or stack_rev_only(spec)):
            ctx.disagree("mixedlinks_spin_confirm", {"spec": spec, "PYTHONHASHSEED": sd}, outcome, "model: a plan that is not well ranked never returns")


def search(ctx: Ctx, broken: List[str]) -> None:
    run(ctx)


def replay(ctx: Ctx, body: Dict[str, Any]) -> None:
    """Re-judge the request of a recorded violation (all processes / hash seeds); without one, run the suites."""
    spec = (body.get("case") or {}).get("spec")
    if not spec or not spec.get("mixedlinks"):
        run(ctx)
        return
    judge_all(ctx, [spec], 4, list(range(21, 37)))
    S.stop_flight_server()


if __name__ == "__main__":
    child_main()
