"""C16 - name-chained, option-configured and JSON-configured features are equivalent.

Suites (every one runs the REAL mloda code and the Lean model on the same cases):
  strings     str.rsplit / str.split vs the model's primitives
  pattern     re.match(PREFIX_PATTERN, name) of all built-in chained groups vs `matchPattern` (captures included)
  parse       FeatureChainParser.parse_feature_name
  in_features Options.get_in_features over the str / comma / list / set / frozenset / tuple / Feature spellings
  match       match_configuration_feature_chain_parser + match_feature_group_criteria on generated options
  inputs      input_features / _extract_source_features / the per-group parameter extraction
  notations   generated chains (depth <= k) rendered as name, nested options and JSON; a function-level resolution
              walk over the real classes vs `resolveFeat`; ORACLE: every notation resolves to the generated chain
  json        parse_json / load_features_from_config on valid and malformed documents vs `loadFeatures`;
              ORACLE: documents invalid against the published schema (jsonschema) must raise; valid ones load to
              the documented Feature
  tilde       get_column_base_feature / resolve_multi_column_feature
  e2e         the notations side by side through mloda.run_all on every framework offering the groups, generated root
              group; ORACLE: equal values, equal chain of feature-group classes (trace extender), values equal the
              step-by-step evaluation op_k(...op_1(x)) (each op run alone) and a direct Python computation;
              malformed names / configs raise.
"""
from __future__ import annotations

import datetime
import json
import math
import re
from enum import Enum
from typing import Any, Dict, List, Optional, Sequence, Tuple

from harness.core import Ctx, cjson
from harness import fgfactory as F

ASSUMPTIONS = [
    "alphabet of generated names: printable ASCII without newline; `\\w` = [A-Za-z0-9_], `\\d` = [0-9] (Python's re is Unicode aware)",
    "the suffix patterns are inside the regex subset `.*__ (literal | ([\\w]+) | (\\d+) | (a|b) | (~\\d+)?)* $` (the extractor fails otherwise); "
    "the backtracking order of that subset is modelled by matchToks / matchPattern and differential-tested against re.match",
    "Python == on option values is modelled structurally with sets / dicts sent in a canonical order (no 1 == True == 1.0 collapses in generated data)",
    "the engine's choice of feature group = exactly one class whose match_feature_group_criteria is True (IdentifyFeatureGroupClass); "
    "only the chained groups and the generated root group are enabled (PluginCollector)",
    "group-option propagation to input features is modelled as FeatureCollection.merge_options with the default protected key in_features",
    "sklearn / nltk / networkx are not installed: clustering, dimensionality reduction, forecasting, encoding, scaling, pipeline and node "
    "centrality are covered at function level only (patterns, matching, inputs), not end to end",
    "e2e runs use the SYNC mode (the trace extender keeps in-process state)",
]

# --------------------------------------------------------------------------------------
# wire encoding of Python values (mirrors Drv.C16.toPV / fromPV)


def enc(v: Any) -> Any:
    from mloda.core.abstract_plugins.components.feature import Feature
    from mloda.core.abstract_plugins.components.feature_name import FeatureName

    if isinstance(v, Enum):
        v = v.value
    if v is None or isinstance(v, (bool, int, str)):
        return v
    if isinstance(v, float):
        return {"$": "float", "r": repr(v)}
    if isinstance(v, FeatureName):
        return enc(v.name)
    if isinstance(v, list):
        return [enc(x) for x in v]
    if isinstance(v, tuple):
        return {"$": "tuple", "v": [enc(x) for x in v]}
    if isinstance(v, (set, frozenset)):
        return {"$": "fset" if isinstance(v, frozenset) else "set", "v": sorted((enc(x) for x in v), key=cjson)}
    if isinstance(v, dict):
        return {"$": "dict", "kv": [[str(k.value if isinstance(k, Enum) else k), enc(x)] for k, x in v.items()]}
    if isinstance(v, Feature):
        return {
            "$": "feat",
            "name": enc(v.name),
            "group": sorted(([str(k.value if isinstance(k, Enum) else k), enc(x)] for k, x in v.options.group.items()), key=lambda p: p[0]),
            "ctx": sorted(([str(k.value if isinstance(k, Enum) else k), enc(x)] for k, x in v.options.context.items()), key=lambda p: p[0]),
        }
    return {"$": "other", "r": type(v).__name__}


def canon(j: Any) -> Any:
    """order-insensitive canonical form of an encoded value (dict items by key, set elements sorted)"""
    if isinstance(j, list):
        return [canon(x) for x in j]
    if isinstance(j, dict):
        t = j.get("$")
        if t in ("set", "fset"):
            return {"$": t, "v": sorted((canon(x) for x in j["v"]), key=cjson)}
        if t == "dict":
            return {"$": "dict", "kv": sorted(([k, canon(x)] for k, x in j["kv"]), key=lambda p: p[0])}
        if t == "feat":
            return {
                "$": "feat",
                "name": canon(j["name"]),
                "group": sorted(([k, canon(x)] for k, x in j["group"]), key=lambda p: p[0]),
                "ctx": sorted(([k, canon(x)] for k, x in j["ctx"]), key=lambda p: p[0]),
            }
        return {k: canon(x) for k, x in j.items()}
    return j


def errclass(e: BaseException) -> Dict[str, str]:
    for c in ("ValueError", "TypeError", "AttributeError", "KeyError"):
        if any(k.__name__ == c for k in type(e).__mro__):
            return {"err": c}
    return {"err": type(e).__name__}


def same_err(impl: Any, model: Any) -> Optional[bool]:
    """None = the model says `unmodelled` (comparison skipped)"""
    if isinstance(model, dict) and model.get("err") == "unmodelled":
        return None
    ie = isinstance(impl, dict) and "err" in impl
    me = isinstance(model, dict) and "err" in model
    if ie or me:
        return ie and me and impl["err"] == model["err"]
    return canon(impl) == canon(model)


def opts_enc(options: Any) -> Any:
    return {
        "$": "feat",
        "name": "",
        "group": [[str(k.value if isinstance(k, Enum) else k), enc(x)] for k, x in options.group.items()],
        "ctx": [[str(k.value if isinstance(k, Enum) else k), enc(x)] for k, x in options.context.items()],
    }


# --------------------------------------------------------------------------------------
# the built-in chained groups (real classes)


class Groups:
    def __init__(self) -> None:
        from harness.extractors.c16 import chained_bases, implementations

        self.bases: Dict[str, Any] = {c.__name__: c for c in chained_bases()}
        self.impls: Dict[str, Dict[str, Any]] = {}
        import importlib

        for n, b in self.bases.items():
            self.impls[n] = {}
            for cname, mod, fw in implementations(b):
                self.impls[n][fw] = getattr(importlib.import_module(mod), cname)
        self.vocab: Dict[str, Dict[str, List[str]]] = {
            n: {a: list(v.keys()) for a, v in vars(b).items() if a.isupper() and isinstance(v, dict) and a != "PROPERTY_MAPPING" and all(isinstance(k, str) for k in v)}
            for n, b in self.bases.items()
        }

    def any_impl(self, base: str) -> Any:
        d = self.impls[base]
        for fw in ("PandasDataFrame", "PyArrowTable", "PythonDictFramework"):
            if fw in d:
                return d[fw]
        return self.bases[base]


# op = {"g": base class name, "p": [params]}   (independent description written from the docs / property text)

E2E_GROUPS = {
    "PandasDataFrame": ["AggregatedFeatureGroup", "MissingValueFeatureGroup", "TimeWindowFeatureGroup", "GeoDistanceFeatureGroup", "TextCleaningFeatureGroup"],
    "PyArrowTable": ["AggregatedFeatureGroup", "MissingValueFeatureGroup", "TimeWindowFeatureGroup"],
    "PythonDictFramework": ["MissingValueFeatureGroup", "TextCleaningFeatureGroup"],
}


def op_suffix(op: Dict[str, Any]) -> str:
    g, p = op["g"], op["p"]
    if g == "AggregatedFeatureGroup":
        return f"{p[0]}_aggr"
    if g == "MissingValueFeatureGroup":
        return f"{p[0]}_imputed"
    if g == "TimeWindowFeatureGroup":
        return f"{p[0]}_{p[1]}_{p[2]}_window"
    if g == "GeoDistanceFeatureGroup":
        return f"{p[0]}_distance"
    if g == "TextCleaningFeatureGroup":
        return "cleaned_text"
    if g == "NodeCentralityFeatureGroup":
        return f"{p[0]}_centrality"
    if g == "ScalingFeatureGroup":
        return f"{p[0]}_scaled"
    if g == "EncodingFeatureGroup":
        return f"{p[0]}_encoded"
    if g == "ClusteringFeatureGroup":
        return f"cluster_{p[0]}_{p[1]}"
    if g == "DimensionalityReductionFeatureGroup":
        return f"{p[0]}_{p[1]}d"
    if g == "ForecastingFeatureGroup":
        return f"{p[0]}_forecast_{p[1]}{p[2]}"
    if g == "SklearnPipelineFeatureGroup":
        return f"sklearn_pipeline_{p[0]}"
    raise KeyError(g)


def op_options(op: Dict[str, Any], rng: Any = None) -> Dict[str, Any]:
    g, p = op["g"], op["p"]
    if g == "AggregatedFeatureGroup":
        return {"aggregation_type": p[0]}
    if g == "MissingValueFeatureGroup":
        return {"imputation_method": p[0]}
    if g == "TimeWindowFeatureGroup":
        size: Any = p[1]
        if rng is not None and rng.random() < 0.3:
            size = str(size)
        return {"window_function": p[0], "window_size": size, "time_unit": p[2]}
    if g == "GeoDistanceFeatureGroup":
        return {"distance_type": p[0]}
    if g == "TextCleaningFeatureGroup":
        return {"cleaning_operations": tuple(p)}
    if g == "NodeCentralityFeatureGroup":
        return {"centrality_type": p[0]}
    if g == "ScalingFeatureGroup":
        return {"scaler_type": p[0]}
    raise KeyError(g)


def gen_op(G: Groups, rng: Any, g: str, e2e: bool = False) -> Dict[str, Any]:
    v = G.vocab[g]
    if g == "AggregatedFeatureGroup":
        ts = v["AGGREGATION_TYPES"]
        if e2e:
            ts = [t for t in ts if t not in ("std", "var")]  # numerics of std/var differ per framework (C19)
        return {"g": g, "p": [rng.choice(ts)]}
    if g == "MissingValueFeatureGroup":
        ms = [m for m in v["IMPUTATION_METHODS"] if not (e2e and m in ("constant", "mode"))]
        return {"g": g, "p": [rng.choice(ms)]}
    if g == "TimeWindowFeatureGroup":
        fs = [f for f in v["WINDOW_FUNCTIONS"] if not (e2e and f in ("std", "var", "median", "first", "last"))]
        us = ["day"] if e2e else v["TIME_UNITS"]
        n = rng.choice([1, 2, 3]) if e2e else rng.choice([1, 2, 7, 10, 30, 100, 365, rng.randint(1, 5000)])
        return {"g": g, "p": [rng.choice(fs), n, rng.choice(us)]}
    if g == "GeoDistanceFeatureGroup":
        ts = [t for t in v["DISTANCE_TYPES"] if not (e2e and t == "haversine")]
        return {"g": g, "p": [rng.choice(ts)]}
    if g == "TextCleaningFeatureGroup":
        ops = [o for o in v["SUPPORTED_OPERATIONS"] if o != "remove_stopwords"]
        k = rng.randint(0, 3)
        return {"g": g, "p": rng.sample(ops, k)}
    if g == "NodeCentralityFeatureGroup":
        return {"g": g, "p": [rng.choice(v["CENTRALITY_TYPES"])]}
    if g == "ScalingFeatureGroup":
        return {"g": g, "p": [rng.choice(v["SUPPORTED_SCALERS"])]}
    if g == "EncodingFeatureGroup":
        return {"g": g, "p": [rng.choice(v["SUPPORTED_ENCODERS"])]}
    if g == "ClusteringFeatureGroup":
        return {"g": g, "p": [rng.choice(v["CLUSTERING_ALGORITHMS"]), rng.choice(["auto", 2, 3, 10])]}
    if g == "DimensionalityReductionFeatureGroup":
        return {"g": g, "p": [rng.choice(v["REDUCTION_ALGORITHMS"]), rng.choice([1, 2, 3, 12])]}
    if g == "ForecastingFeatureGroup":
        return {"g": g, "p": [rng.choice(v["FORECASTING_ALGORITHMS"]), rng.choice([1, 7, 30]), rng.choice(v["TIME_UNITS"])]}
    if g == "SklearnPipelineFeatureGroup":
        return {"g": g, "p": [rng.choice(["scaling", "imputing", "custom_1"])]}
    raise KeyError(g)


SRC_ALPHA = "abcxyz019"


def gen_source(rng: Any) -> str:
    while True:
        n = rng.randint(1, 5)
        s = "".join(rng.choice(SRC_ALPHA + "_") for _ in range(n))
        if "__" in s or s in ("reference_time",) or s.startswith("_") and rng.random() < 0.7:
            continue
        return s


MODELLED = ["AggregatedFeatureGroup", "MissingValueFeatureGroup", "TimeWindowFeatureGroup", "GeoDistanceFeatureGroup", "TextCleaningFeatureGroup",
            "NodeCentralityFeatureGroup", "ScalingFeatureGroup"]  # fmt: skip
UNARY = [g for g in MODELLED if g != "GeoDistanceFeatureGroup"]


def gen_chain(G: Groups, rng: Any, depth: int, groups: Sequence[str] = MODELLED) -> Dict[str, Any]:
    """{"src": [names], "ops": [op, ...]}: a spine; a binary op (geo distance) only in first position"""
    ops: List[Dict[str, Any]] = []
    src = [gen_source(rng)]
    for i in range(depth):
        cands = [g for g in groups if g != "GeoDistanceFeatureGroup" or i == 0]
        g = rng.choice(cands)
        if g == "GeoDistanceFeatureGroup":
            b = gen_source(rng)
            while b == src[0]:
                b = gen_source(rng)
            src = [src[0], b]
        ops.append(gen_op(G, rng, g))
    return {"src": src, "ops": ops}


def render(chain: Dict[str, Any], upto: Optional[int] = None) -> str:
    s = "&".join(chain["src"])
    for op in chain["ops"][: (len(chain["ops"]) if upto is None else upto)]:
        s += "__" + op_suffix(op)
    return s


def expected_chain_json(chain: Dict[str, Any]) -> Any:
    """the chain in the shape Drv.C16.chainJ prints (params: str or int)"""
    j: Any = {"src": list(chain["src"])}
    for op in chain["ops"]:
        j = {"step": j, "group": op["g"], "params": [p for p in op["p"]]}
    return j


# --------------------------------------------------------------------------------------
# building the notations


def spell_leaf(names: List[str], how: str) -> Any:
    from mloda.user import Feature

    if how == "str":
        return names[0] if len(names) == 1 else ",".join(names)
    if how == "str_sp":
        return names[0] if len(names) == 1 else ", ".join(names)
    if how == "list":
        return list(names)
    if how == "fset":
        return frozenset(names)
    if how == "set":
        return set(names)
    if how == "tuple":
        return tuple(names)
    if how == "feat":
        return Feature(names[0]) if len(names) == 1 else frozenset(Feature(n) for n in names)
    if how == "fset_feat":
        return frozenset(Feature(n) for n in names)
    raise KeyError(how)


def build_options_feature(chain: Dict[str, Any], leaf: str, inner: str, rng: Any, mixed_at: Optional[int] = None, where: str = "context", tag: str = "p") -> Any:
    """nested Feature objects: level i (0 = innermost op) is option-configured iff i >= mixed_at (below: the chained name)"""
    from mloda.user import Feature, Options

    ops = chain["ops"]
    k0 = 0 if mixed_at is None else mixed_at
    cur: Any = None
    for i in range(k0, len(ops)):
        if i == 0:
            inf = spell_leaf(chain["src"], leaf)
        elif i == k0:
            inf = render(chain, upto=i)
        else:
            inf = cur if inner == "feat" else (frozenset([cur]) if inner == "fset" else [cur])
        d = dict(op_options(ops[i], rng))
        d["in_features"] = inf
        name = f"{tag}{i}"
        cur = Feature(name, Options(context=d)) if where == "context" else Feature(name, Options(group=d))
    return cur


def build_json(chain: Dict[str, Any], form: str, tag: str = "j") -> Any:
    """one JSON item for the chain. forms: string | nameobj | ctx | optflat | optin | nested"""
    ops = chain["ops"]
    top = ops[-1]
    inner_names = chain["src"] if len(ops) == 1 else [render(chain, upto=len(ops) - 1)]
    po = {k: (list(v) if isinstance(v, tuple) else v) for k, v in op_options(top).items()}
    name = f"{tag}{len(ops) - 1}"
    if form == "string":
        return render(chain)
    if form == "nameobj":
        return {"name": render(chain)}
    if form == "ctx":
        return {"name": name, "in_features": inner_names, "context_options": po}
    if form == "optflat":
        return {"name": name, "in_features": inner_names, "options": po}
    if form == "optin":
        return {"name": name, "options": {**po, "in_features": inner_names[0] if len(inner_names) == 1 else ",".join(inner_names)}}
    if form == "nested":
        cur: Any = chain["src"][0] if len(chain["src"]) == 1 else ",".join(chain["src"])
        for i, op in enumerate(ops):
            o = {k: (list(v) if isinstance(v, tuple) else v) for k, v in op_options(op).items()}
            o["in_features"] = cur
            cur = {"name": f"{tag}{i}", "options": o}
        return cur
    raise KeyError(form)


# --------------------------------------------------------------------------------------
# function-level resolution walk over the real classes (mirrors Chain.resolveFeat)


def real_params(G: Groups, base: str, cls: Any, feature: Any) -> Any:
    def need(x: Any) -> Any:
        if x is None:
            raise ValueError("could not extract")
        return x

    if base == "AggregatedFeatureGroup":
        return [need(cls._extract_aggregation_type(feature))]
    if base == "MissingValueFeatureGroup":
        return [need(cls._extract_imputation_method(feature))]
    if base == "TimeWindowFeatureGroup":
        f, n, u = cls._extract_time_window_params(feature)
        return [need(f), need(n), need(u)]
    if base == "GeoDistanceFeatureGroup":
        return [need(cls._extract_distance_unit(feature))]
    if base == "ScalingFeatureGroup":
        return [need(cls._extract_scaler_type(feature))]
    if base == "TextCleaningFeatureGroup":
        ops = need(cls._extract_cleaning_operations(feature))
        return sorted(ops, key=cjson) if isinstance(ops, (set, frozenset)) else list(ops)  # a set's iteration order is hash dependent
    if base == "NodeCentralityFeatureGroup":
        return [need(cls._extract_centrality_type(feature))]
    raise KeyError(base)


def real_resolve(G: Groups, feature: Any, fuel: int = 12) -> Any:
    """chain JSON or {"err": ...}; classes = one implementation of every modelled base"""
    from mloda.user import Feature

    if fuel == 0:
        return {"err": "fuel"}
    name = feature.name.name if hasattr(feature.name, "name") else feature.name
    try:
        ms = [b for b in MODELLED if G.any_impl(b).match_feature_group_criteria(name, feature.options)]
    except Exception as e:
        return errclass(e)
    if not ms:
        return {"src": [name]}
    if len(ms) > 1:
        return {"err": "ValueError", "multiple": ms}
    base = ms[0]
    cls = G.any_impl(base)
    try:
        ins = cls().input_features(feature.options, feature.name)
        params = real_params(G, base, cls, feature)
    except Exception as e:
        return errclass(e)
    ins = sorted(ins or [], key=lambda f: f.get_name())
    if base == "TimeWindowFeatureGroup":
        rt = cls.get_reference_time_column(feature.options)
        main = [f for f in ins if f.get_name() != rt] or ins[:1]
    else:
        main = ins
    if len(main) == 1:
        sub = real_resolve(G, main[0], fuel - 1)
        if "err" in sub:
            return sub
        return {"step": sub, "group": base, "params": params}
    leaves = []
    for f in main:
        sub = real_resolve(G, f, fuel - 1)
        if "err" in sub or "src" not in sub:
            return {"err": "non-spine"}
        leaves.append(f.get_name())
    if base == "GeoDistanceFeatureGroup":
        # order of the two points: as written in the name (split order) - sets lose it; compare sorted
        pass
    return {"step": {"src": leaves}, "group": base, "params": params}


def norm_chain(j: Any) -> Any:
    """sort multi-source leaves (sets lose their order)"""
    if not isinstance(j, dict):
        return j
    if "src" in j:
        return {"src": sorted(j["src"])}
    if "step" in j:
        return {"step": norm_chain(j["step"]), "group": j.get("group"), "params": j.get("params")}
    return j


# --------------------------------------------------------------------------------------
# schema oracle


def schema_for_documents() -> Dict[str, Any]:
    from mloda.core.api.feature_config.models import feature_config_schema

    return {"type": "array", "items": {"anyOf": [{"type": "string"}, feature_config_schema()]}}


def hand_schema_violation(doc: Any) -> Optional[str]:
    """first violated part of the published schema, hand-coded from feature_config_schema() (None = valid)"""
    if not isinstance(doc, list):
        return "document-not-array"
    for it in doc:
        if isinstance(it, str):
            continue
        if not isinstance(it, dict):
            return "item-not-string-or-object"
        for k in it:
            if k not in ("name", "options", "in_features", "group_options", "context_options", "column_index"):
                return "additional-property"
        if "name" not in it:
            return "name-missing"
        if not isinstance(it["name"], str):
            return "name"
        if "options" in it and not isinstance(it["options"], dict):
            return "options"
        if "in_features" in it and not (isinstance(it["in_features"], list) and all(isinstance(x, str) for x in it["in_features"])):
            return "in_features"
        if "group_options" in it and not isinstance(it["group_options"], dict):
            return "group_options"
        if "context_options" in it and not isinstance(it["context_options"], dict):
            return "context_options"
        if "column_index" in it:
            ci = it["column_index"]
            if isinstance(ci, bool) or not (isinstance(ci, int) or (isinstance(ci, float) and ci == int(ci))):
                return "column_index"
    return None


def jsonschema_valid(doc: Any) -> Optional[bool]:
    try:
        import jsonschema  # type: ignore
    except Exception:
        return None
    try:
        jsonschema.validate(doc, schema_for_documents())
        return True
    except jsonschema.ValidationError:
        return False


def json_to_wire(doc: Any) -> Any:
    """json.loads output -> wire encoding (dict -> tagged, floats tagged)"""
    return enc(doc)


# --------------------------------------------------------------------------------------
# end-to-end helpers


def make_trace() -> Any:
    from mloda.core.abstract_plugins.function_extender import Extender, ExtenderHook

    class Trace(Extender):
        def __init__(self) -> None:
            self.events: List[Tuple[str, List[str]]] = []

        def wraps(self) -> Any:
            return {ExtenderHook.FEATURE_GROUP_CALCULATE_FEATURE}

        def __call__(self, func: Any, *args: Any, **kw: Any) -> Any:
            cls = getattr(func, "__self__", None)
            try:
                names = sorted(str(n) for n in args[1].get_all_names())
            except Exception:
                names = []
            self.events.append((getattr(cls, "__name__", "?"), names))
            return func(*args, **kw)

    return Trace()


def vals_close(a: Any, b: Any, tol: float = 1e-9) -> bool:
    if a is None or b is None:
        return a is None and b is None
    if isinstance(a, (int, float)) and isinstance(b, (int, float)) and not isinstance(a, bool) and not isinstance(b, bool):
        return abs(a - b) <= tol * max(1.0, abs(a), abs(b))
    if isinstance(a, (list, tuple)) and isinstance(b, (list, tuple)):
        return len(a) == len(b) and all(vals_close(x, y, tol) for x, y in zip(a, b))
    return bool(a == b)


def direct_op(op: Dict[str, Any], col: List[Any], exact_median: bool = True) -> Optional[List[Any]]:
    """plain-Python semantics of the simplest operations (None = not covered by the direct oracle).
    `exact_median=False`: the framework's median is approximate / lower-middle (PyArrow t-digest; a C19 matter)"""
    g, p = op["g"], op["p"]
    if p and p[0] == "median" and not exact_median:
        return None
    xs = [v for v in col if v is not None]
    n = len(col)
    if g == "AggregatedFeatureGroup":
        t = p[0]
        if not xs and t != "count":
            return None
        if t == "sum":
            r: Any = sum(xs)
        elif t == "min":
            r = min(xs)
        elif t == "max":
            r = max(xs)
        elif t in ("avg", "mean"):
            r = sum(xs) / len(xs)
        elif t == "count":
            r = len(xs)
        elif t == "median":
            s = sorted(xs)
            r = s[len(s) // 2] if len(s) % 2 else (s[len(s) // 2 - 1] + s[len(s) // 2]) / 2
        else:
            return None
        return [r] * n
    if g == "MissingValueFeatureGroup":
        m = p[0]
        if m == "mean":
            if not xs:
                return None
            f: Any = sum(xs) / len(xs)
            return [f if v is None else v for v in col]
        if m == "median":
            if not xs:
                return None
            s = sorted(xs)
            f = s[len(s) // 2] if len(s) % 2 else (s[len(s) // 2 - 1] + s[len(s) // 2]) / 2
            return [f if v is None else v for v in col]
        if m == "ffill":
            out, last = [], None
            for v in col:
                last = v if v is not None else last
                out.append(last)
            return out
        if m == "bfill":
            out, nxt = [], None
            for v in reversed(col):
                nxt = v if v is not None else nxt
                out.append(nxt)
            return list(reversed(out))
        return None
    if g == "TimeWindowFeatureGroup":
        # rows are one day apart: an n-day window ending at row i covers rows i-n+1 .. i
        f, size, u = p
        if u != "day":
            return None
        out = []
        for i in range(n):
            w = [v for v in col[max(0, i - size + 1) : i + 1] if v is not None]
            if f == "count":
                out.append(len(w))
                continue
            if not w:
                return None
            out.append(sum(w) if f == "sum" else min(w) if f == "min" else max(w) if f == "max" else sum(w) / len(w) if f in ("avg", "mean") else None)
            if out[-1] is None:
                return None
        return out
    return None


class RunTimeout(BaseException):
    pass


class E2E:
    def __init__(self, ctx: Ctx, G: Groups):
        self.ctx = ctx
        self.G = G
        self.timeout = 6.0

    def root(self, cols: Dict[str, List[Any]], multi: Optional[Dict[str, int]] = None) -> Any:
        return F.make_group(F.uniq("R16_"), root_data=cols, multi=multi)

    def run(self, feats: List[Any], fwname: str, root: Any) -> Dict[str, Any]:
        from mloda.user import mloda

        fw = F.FRAMEWORKS[fwname]
        classes = {self.G.impls[b][fwname] for b in E2E_GROUPS[fwname]}
        tr = make_trace()
        import signal, os, sys

        if os.environ.get("C16_DEBUG"):
            print("E2E.run", fwname, [f if isinstance(f, str) else cjson(enc(f))[:300] for f in feats], file=sys.stderr, flush=True)

        def _alarm(*_a: Any) -> None:
            raise RunTimeout()

        old = signal.signal(signal.SIGALRM, _alarm)
        signal.setitimer(signal.ITIMER_REAL, self.timeout, 0.5)  # repeating: a first alarm swallowed at the recursion limit is followed by another
        try:
            try:
                res = mloda.run_all(list(feats), compute_frameworks={fw}, plugin_collector=F.collector({root, *classes}), function_extender={tr})
            finally:
                signal.setitimer(signal.ITIMER_REAL, 0)
                signal.signal(signal.SIGALRM, old)
        except RunTimeout:
            return {"ok": False, "phase": "timeout", "kind": "timeout", "msg": f"no result within {self.timeout}s"}
        except Exception as e:
            s = str(e)
            phase = "calc" if ("Traceback" in s or tr.events) else "resolve"
            kind = "multiple" if "Multiple feature groups" in s else "none-found" if "No feature groups found" in s else type(e).__name__
            return {"ok": False, "phase": phase, "kind": kind, "msg": s[-160:].replace("\n", " ")}
        cols: Dict[str, List[Any]] = {}
        for r in res:
            cols.update(F.to_columns(r))
        return {"ok": True, "cols": cols, "trace": [c for c, _ in tr.events if not c.startswith("R16_")]}


# --------------------------------------------------------------------------------------


def run(ctx: Ctx) -> None:
    import logging

    logging.disable(logging.CRITICAL)
    from mloda.core.abstract_plugins.components.feature_chainer.feature_chain_parser import FeatureChainParser, CHAIN_SEPARATOR, COLUMN_SEPARATOR, INPUT_SEPARATOR
    from mloda.core.abstract_plugins.components.feature_name import FeatureName
    from mloda.core.abstract_plugins.feature_group import FeatureGroup
    from mloda.core.api.feature_config.loader import load_features_from_config
    from mloda.user import Feature, Options

    rng = ctx.rng
    G = Groups()
    K = 3 if ctx.quick else 5
    ctx.extra["rule"] = (
        f"chains: spines of depth 1..{K} over generated sources and the vocabularies read from the code; non-trivial = depth >= 2 or a "
        "non-default spelling / malformed input that reaches a distinct branch; function-level cases are one call of the real function; "
        "e2e cases are one chain = all its notations through run_all on one framework"
    )

    consts = ctx.lean.batch([{"op": "C16.consts"}])[0]
    ctx.case("consts", "separators", True)
    impl_c = {"chainSep": CHAIN_SEPARATOR, "columnSep": COLUMN_SEPARATOR, "inputSep": INPUT_SEPARATOR}
    if {k: consts.get(k) for k in impl_c} != impl_c:
        ctx.disagree("consts", "separators", impl_c, consts)
    if impl_c != {"chainSep": "__", "columnSep": "~", "inputSep": "&"}:
        ctx.violation("consts", impl_c, "the documented separators are __ , ~ and &", impl_c, {"chainSep": "__", "columnSep": "~", "inputSep": "&"})
    modelled_in_lean = {g["name"] for g in consts["groups"] if g["modelled"]}
    if set(MODELLED) - modelled_in_lean:
        ctx.note(f"groups no longer inside the modelled fragment: {sorted(set(MODELLED) - modelled_in_lean)}")
    all_bases = sorted(G.bases)

    # ------------------------------------------------------------------ names: well-formed and adversarial
    def adversarial(name: str) -> List[str]:
        out = []
        parts = name.split("__")
        out.append("__".join(parts[1:]))  # no source, no separator in front
        out.append("__" + "__".join(parts[1:]))  # empty source
        out.append(name + "__")
        out.append(name + "_")
        out.append(name.replace("__", "___", 1))
        out.append(name.replace("__", "_", 1))
        out.append(name + "~" + str(rng.randint(0, 12)))
        out.append(parts[0] + "~1__" + "__".join(parts[1:]))
        out.append(name.replace("__", "&q__", 1))
        out.append(name.replace("__", "&q&r__", 1))
        out.append(name.upper())
        if len(parts) > 2:
            out.append("__".join([parts[0]] + parts[:0:-1]))  # suffix order reversed
            out.append("__".join(parts[:-1]) + "_" + parts[-1])  # last separator halved
        i = rng.randrange(len(name))
        out.append(name[:i] + rng.choice("_&~,- .0x") + name[i:])
        out.append(name[:i] + name[i + 1 :])
        out.append(re.sub(r"_(\d+)", lambda m: "_0" + m.group(1), name, count=1))
        out.append(re.sub(r"_(\d+)", "_0", name, count=1))
        out.append(re.sub(r"([a-z]+)_(aggr|imputed|distance|centrality|scaled)$", r"foo_\2", name))
        return [o for o in out if o]

    names: List[str] = []
    chains_for_names: List[Dict[str, Any]] = []
    for _ in range(ctx.budget(110, 1500)):
        d = rng.randint(1, K)
        ch = gen_chain(G, rng, d, groups=all_bases if rng.random() < 0.35 else MODELLED)
        chains_for_names.append(ch)
        nm = render(ch)
        names.append(nm)
        for a in rng.sample(adversarial(nm), 3):
            names.append(a)
    names += ["", "_", "__", "___", "____", "x", "x__", "__x", "sum_aggr", "__sum_aggr", "x__sum_aggr", "x___sum_aggr", "x____sum_aggr", "_x__sum_aggr",
              "x__sum__aggr", "x__sum_7_day__window", "x__sum_aggr__sum_aggr", "a&b__euclidean_distance", "a&b&c__euclidean_distance", "a__euclidean_distance",
              "x__onehot_encoded~1", "x__onehot_encoded~", "x__onehot_encoded~a", "x__pca_2d", "x__pca_d", "x__cluster_kmeans_3", "x__mean_imputed__cluster_kmeans_3",
              "x__linear_forecast_7day", "x__linear_forecast_7day__sum_aggr", "x__sklearn_pipeline_a__sum_aggr", "x__cleaned_text", "x__cleaned_text2", "cleaned_text",
              "x__a_b_aggr", "x__1_aggr", "x___aggr", "x___imputed", "x__sum_07_day_window", "x__sum_0_day_window", "x__sum_-1_day_window", "x__sum_7_day_window_",
              "x&__sum_aggr", "&x__sum_aggr", "x&&y__euclidean_distance", "x, y__sum_aggr", "m~1~2", "a~b~c", "x~1__sum_aggr~2", "~", "~~", "x~"]  # fmt: skip
    names = list(dict.fromkeys(names))

    # ---- suite: strings -------------------------------------------------------------------------
    reqs, impls = [], []
    for nm in names:
        reqs.append({"op": "C16.rsplit", "sep": "__", "s": nm})
        p = nm.rsplit("__", 1)
        impls.append(p if len(p) == 2 else None)
        c = rng.choice("&_,~")
        reqs.append({"op": "C16.split", "c": c, "s": nm})
        impls.append(nm.split(c))
        reqs.append({"op": "C16.columnBase", "s": nm})
        impls.append(FeatureGroup.get_column_base_feature(nm))
    outs = ctx.lean.batch(reqs)
    for r, i, o in zip(reqs, impls, outs):
        ctx.case("strings", r, "__" in r["s"] or "~" in r["s"], op=r["op"])
        if i != o:
            ctx.disagree("strings", r, i, o)

    # ---- suite: pattern + parse (all built-in chained groups) --------------------------------------
    reqs, impls, kinds = [], [], []
    for nm in names:
        for b in all_bases if (ctx.quick is False or rng.random() < 0.5) else rng.sample(all_bases, 4):
            cls = G.bases[b]
            m = re.match(cls.PREFIX_PATTERN, nm)
            reqs.append({"op": "C16.matchPattern", "group": b, "s": nm})
            impls.append(None if m is None else list(m.groups()))
            kinds.append("pattern")
            try:
                r = FeatureChainParser.parse_feature_name(nm, [cls.PREFIX_PATTERN])
                impl: Any = None if r == (None, None) else [r[0], r[1]]
            except ValueError:
                impl = {"err": "ValueError"}
            reqs.append({"op": "C16.parseFeatureName", "group": b, "s": nm})
            impls.append(impl)
            kinds.append("parse")
    outs = ctx.lean.batch(reqs)
    for r, i, o, k in zip(reqs, impls, outs, kinds):
        ctx.case(k, r, i is not None, outcome=("none" if i is None else "err" if isinstance(i, dict) else "match"))
        if same_err(i, o) is False:
            ctx.disagree(k, r, i, o)
    # oracle (property text): a name that matches a group's suffix pattern but has no source is rejected, never parsed
    for nm in names:
        for b in all_bases:
            cls = G.bases[b]
            if re.match(cls.PREFIX_PATTERN, nm) and (nm.rsplit("__", 1)[0] == "" or "__" not in nm):
                try:
                    r = FeatureChainParser.parse_feature_name(nm, [cls.PREFIX_PATTERN])
                    ctx.violation("parse", {"name": nm, "group": b}, f"name {nm!r} matches the suffix pattern of {b} without a source but is parsed to {r}", r, "ValueError")
                except ValueError:
                    pass
    # oracle: left to right - the LAST suffix is the one a group sees, the rest is its source
    for ch in chains_for_names:
        if len(ch["ops"]) < 2:
            continue
        nm = render(ch)
        cls = G.bases[ch["ops"][-1]["g"]]
        try:
            r = FeatureChainParser.parse_feature_name(nm, [cls.PREFIX_PATTERN])
        except ValueError as e:
            r = ("ValueError", str(e))
        exp_src = render(ch, upto=len(ch["ops"]) - 1)
        ctx.case("left_to_right", nm, True, depth=len(ch["ops"]))
        if r[1] != exp_src:
            ctx.violation("left_to_right", {"name": nm, "group": cls.__name__}, f"{cls.__name__} reads {nm!r} as source {r[1]!r}; left-to-right reading gives {exp_src!r}", list(r), exp_src)

    # ---- suite: in_features spellings ------------------------------------------------------------
    reqs, impls = [], []
    spell_vals: List[Any] = []
    for _ in range(ctx.budget(120, 1500)):
        k = rng.choice([1, 1, 1, 2, 2, 3])
        ns = [gen_source(rng) for _ in range(k)]
        if rng.random() < 0.15:
            ns.append(ns[0])
        how = rng.choice(["str", "str_sp", "list", "fset", "set", "tuple", "feat", "fset_feat"])
        v = spell_leaf(ns, how)
        if rng.random() < 0.1:
            v = rng.choice([None, "", [], frozenset(), 0, 5, True, {"a": 1}, [1], ["a", 2], "a,,b", " a , b ", ","])
        spell_vals.append(v)
    for v in spell_vals:
        where = rng.choice(["context", "group"])
        try:
            o = Options(context={"in_features": v}) if where == "context" else Options(group={"in_features": v})
        except Exception:
            continue
        try:
            impl = sorted((enc(f) for f in o.get_in_features()), key=cjson)
        except Exception as e:
            impl = errclass(e)
        reqs.append({"op": "C16.getInFeatures", "opts": opts_enc(o)})
        impls.append(impl)
    outs = ctx.lean.batch(reqs)
    for r, i, o in zip(reqs, impls, outs):
        ctx.case("in_features", r, True, outcome="err" if isinstance(i, dict) else "ok")
        o2 = sorted(o, key=cjson) if isinstance(o, list) else o
        if same_err(i, o2) is False:
            ctx.disagree("in_features", r, i, o2)

    # ---- suite: match / inputs / params on generated (name, options) -------------------------------
    def random_options(base: str) -> Any:
        """options for one group: mostly the documented ones, with missing / unknown / wrongly typed entries mixed in"""
        op = gen_op(G, rng, base)
        d: Dict[str, Any] = dict(op_options(op, rng))
        k = 2 if base == "GeoDistanceFeatureGroup" else 1
        ns = [gen_source(rng) for _ in range(rng.choice([k, k, k, 1, 2, 3]))]
        d["in_features"] = spell_leaf(ns, rng.choice(["str", "str", "list", "fset", "fset", "set", "tuple", "feat", "fset_feat"]))
        r = rng.random()
        key = rng.choice(list(d.keys()))
        if r < 0.12:
            del d[key]
        elif r < 0.3:
            d[key] = rng.choice(["foo", "", None, 0, -3, 7, "7", "07", "x7", True, False, 2.5, ("normalize",), ("normalize", "bogus"), ["sum"], frozenset(["sum", "max"]),
                                 frozenset(), "(normalize)", "('normalize', 'remove_urls')", Feature("zz"), frozenset([Feature("u"), Feature("v")])])  # fmt: skip
        elif r < 0.4:
            d["unknown_key"] = 1
        if base == "TimeWindowFeatureGroup" and rng.random() < 0.2:
            d["reference_time"] = rng.choice(["ts", "", 5, None])
        if base == "MissingValueFeatureGroup" and rng.random() < 0.2:
            d["constant_value"] = rng.choice([0, "c", None])
        split = rng.random()
        try:
            if split < 0.6:
                return Options(context=d)
            if split < 0.8:
                return Options(group=d)
            ks = list(d)
            rng.shuffle(ks)
            h = len(ks) // 2
            return Options(group={k_: d[k_] for k_ in ks[:h]}, context={k_: d[k_] for k_ in ks[h:]})
        except Exception:
            return Options()

    reqs, impls, suites = [], [], []
    for _ in range(ctx.budget(260, 4000)):
        base = rng.choice(MODELLED)
        cls = G.any_impl(base)
        r = rng.random()
        if r < 0.45:
            nm = rng.choice(["placeholder", "f1", gen_source(rng)])
            o = random_options(base)
        elif r < 0.8:
            nm = rng.choice(names)
            o = Options() if rng.random() < 0.6 else random_options(base)
        else:
            ch = gen_chain(G, rng, rng.randint(1, K))
            ch["ops"][-1] = gen_op(G, rng, base)
            nm = render(ch)
            o = Options() if rng.random() < 0.7 else random_options(base)
        wire = {"group": base, "name": nm, "opts": opts_enc(o)}
        try:
            i1: Any = FeatureChainParser.match_configuration_feature_chain_parser(nm, o, property_mapping=cls.PROPERTY_MAPPING, prefix_patterns=[cls.PREFIX_PATTERN])
        except ValueError:
            i1 = "raise"
        except Exception as e:
            i1 = errclass(e)
        reqs.append({"op": "C16.matchConfiguration", **wire}); impls.append(i1); suites.append("match")  # fmt: skip
        try:
            i2: Any = cls.match_feature_group_criteria(nm, o)
        except Exception as e:
            i2 = errclass(e)
        reqs.append({"op": "C16.matchCriteria", **wire}); impls.append(i2); suites.append("match")  # fmt: skip
        try:
            i3: Any = sorted((enc(f) for f in (cls().input_features(o, FeatureName(nm)) or [])), key=cjson)
        except Exception as e:
            i3 = errclass(e)
        reqs.append({"op": "C16.inputFeatures", **wire}); impls.append(i3); suites.append("inputs")  # fmt: skip
        feat = Feature(nm, o)
        try:
            i4: Any = sorted(cls._extract_source_features(feat))
        except Exception as e:
            i4 = errclass(e)
        reqs.append({"op": "C16.extractSource", **wire}); impls.append(i4); suites.append("inputs")  # fmt: skip
        try:
            i5: Any = real_params(G, base, cls, feat)
        except Exception as e:
            i5 = errclass(e)
        reqs.append({"op": "C16.extractParams", **wire}); impls.append(i5); suites.append("params")  # fmt: skip
    outs = ctx.lean.batch(reqs)
    skipped = 0
    for r, i, o, s in zip(reqs, impls, outs, suites):
        if r["op"] == "C16.inputFeatures" and isinstance(o, dict) and "main" in o:
            o = sorted(o["main"] + o["extras"], key=cjson)
        if r["op"] == "C16.extractSource" and isinstance(o, list):
            o = sorted(o)
        if r["op"] == "C16.extractParams" and isinstance(o, list) and any(k == "cleaning_operations" and isinstance(v, dict) and v.get("$") in ("set", "fset")
                                                                          for k, v in r["opts"]["group"] + r["opts"]["ctx"]):  # fmt: skip
            o = sorted(o, key=cjson)
        ctx.case(s, r, True, op=r["op"].split(".")[1], outcome="err" if isinstance(i, dict) else str(i)[:5] if isinstance(i, (bool, str)) else "value")
        se = same_err(i, o)
        if se is None:
            skipped += 1
        elif se is False:
            ctx.disagree(s, r, i, o)
    ctx.tag("unmodelled_skipped", "match/inputs/params", skipped)

    # ---- suite: match_oracle - configurations outside the documented vocabulary / without a required key are not matched ----
    for base in MODELLED:
        cls = G.any_impl(base)
        for _ in range(ctx.budget(6, 60)):
            op = gen_op(G, rng, base)
            good: Dict[str, Any] = dict(op_options(op, rng))
            k = 2 if base == "GeoDistanceFeatureGroup" else 1
            good["in_features"] = spell_leaf([gen_source(rng) for _ in range(k)], rng.choice(["str", "fset"]) if k == 1 else "fset")
            variants_: List[Tuple[str, Dict[str, Any], bool]] = [("documented", good, True)]
            for key in list(good):
                missing = {k_: v for k_, v in good.items() if k_ != key}
                variants_.append((f"missing:{key}", missing, False))
            strict_keys = [key.value if isinstance(key, Enum) else key for key, spec in cls.PROPERTY_MAPPING.items()
                           if isinstance(spec, dict) and spec.get("strict_validation") and (key.value if isinstance(key, Enum) else key) != "in_features"]  # fmt: skip
            for key in strict_keys:
                if key in good:
                    bad = dict(good)
                    bad[key] = rng.choice(["bogus_value", "SUM", "", -1, 0] if key == "window_size" else ["bogus_value", "SUM", "sum ", ("not_an_op",)])
                    variants_.append((f"outside-vocabulary:{key}", bad, False))
            for vname, d_, want in variants_:
                nm = rng.choice(["placeholder", "f1", gen_source(rng)])
                o = Options(context=d_) if rng.random() < 0.7 else Options(group=d_)
                try:
                    got: Any = cls.match_feature_group_criteria(nm, o)
                except Exception as e:
                    got = errclass(e)
                ctx.case("match_oracle", {"group": base, "variant": vname, "options": enc(d_)}, True, variant=vname.split(":")[0], group=base)
                if got is not want:
                    ctx.violation("match_oracle", {"group": base, "name": nm, "variant": vname, "options": enc(d_)},
                                  f"{base}.match_feature_group_criteria({nm!r}, {vname} options {d_}) = {got}, documented: {want}", got, want)

    # ---- suite: notations (function-level resolution walk) ---------------------------------------
    reqs, impls, metas = [], [], []
    for _ in range(ctx.budget(90, 1500)):
        d = rng.randint(1, K)
        ch = gen_chain(G, rng, d, groups=[g for g in MODELLED if g != "TextCleaningFeatureGroup"])
        if rng.random() < 0.15:
            ch["ops"][-1] = gen_op(G, rng, "TextCleaningFeatureGroup")  # its operations live in options: only as the last (top-level) op
            if len(ch["ops"]) == 1:
                ch["src"] = ch["src"][:1]
        exp = norm_chain(expected_chain_json(ch))
        for vname, feat in notation_variants(ctx, G, ch, rng):
            impl = real_resolve(G, feat)
            impl_n = norm_chain(impl)
            reqs.append({"op": "C16.resolve", "fuel": 14, "feat": enc(feat), "prop": False})
            impls.append(impl_n)
            metas.append((ch, vname))
            ctx.case("notations", {"chain": ch, "notation": vname}, d >= 2 or vname != "name", depth=d, notation=vname.split("[")[0].split("@")[0])
            # oracle from the property text: every notation resolves to the generated chain
            if impl_n != exp:
                cls_ = None
                if isinstance(impl, dict) and impl.get("err") == "TypeError" and has_list_value(feat):
                    cls_ = LIST_CLASS
                elif isinstance(impl, dict) and impl.get("err") == "ValueError" and amp_before_suffix(feat):
                    cls_ = AMP_CLASS
                ctx.violation("notations", {"chain": ch, "notation": vname, "feature": enc(feat)},
                              f"notation {vname} of chain {render(ch)!r} resolves to {cjson(impl_n)[:200]}, the chain is {cjson(exp)[:200]}", impl_n, exp, finding_class=cls_)  # fmt: skip
    outs = ctx.lean.batch(reqs)
    for r, i, o, (ch, vname) in zip(reqs, impls, outs, metas):
        model = norm_chain(o) if o is not None else {"err": "any"}
        if ("err" in i) != ("err" in model) or ("err" not in i and i != model):
            ctx.disagree("notations", {"chain": ch, "notation": vname, "feature": r["feat"]}, i, model)

    # ---- suite: cross_match - which built-in chained groups claim a well-formed chained name ---------------
    FIRSTSEP_CLASS = "first-separator-suffix-parser-not-first-op"
    SWALLOW_CLASS = "word-terminated-pattern-swallows-later-suffixes"
    reqs, impls = [], []
    for _ in range(ctx.budget(150, 2500)):
        d = rng.randint(1, K)
        ch = gen_chain(G, rng, d, groups=all_bases)
        nm = render(ch)
        claimed = []
        for b in all_bases:
            try:
                if G.any_impl(b).match_feature_group_criteria(nm, Options()):
                    claimed.append(b)
            except Exception as e:
                claimed.append(f"{b}:{type(e).__name__}")
        last = ch["ops"][-1]["g"]
        ctx.case("cross_match", nm, d >= 2, depth=d, last=last)
        if claimed != [last]:
            cls_ = None
            extra = [c for c in claimed if c != last]
            if last in ("ClusteringFeatureGroup", "ForecastingFeatureGroup") and nm.find("__") != nm.rfind("__") and last not in claimed and not extra:
                cls_ = FIRSTSEP_CLASS
            elif extra and all(c in ("ForecastingFeatureGroup", "SklearnPipelineFeatureGroup") and any(o["g"] == c for o in ch["ops"][:-1]) for c in extra) and (
                last in claimed or last in ("ClusteringFeatureGroup", "ForecastingFeatureGroup")):
                cls_ = SWALLOW_CLASS
            ctx.violation("cross_match", {"name": nm, "chain": ch}, f"{nm!r} (last suffix: {last}) is claimed by {claimed}", claimed, [last], finding_class=cls_)
        if all(o["g"] in MODELLED for o in ch["ops"]):
            reqs.append({"op": "C16.matchingGroups", "name": nm, "opts": opts_enc(Options())})
            impls.append([c for c in claimed if c in MODELLED])
    outs = ctx.lean.batch(reqs)
    for r, i, o in zip(reqs, impls, outs):
        if i != o:
            ctx.disagree("cross_match", r, i, o)

    # ---- suite: json --------------------------------------------------------------------------------
    run_json_suite(ctx, G, K)

    # ---- suite: tilde -----------------------------------------------------------------------------
    reqs, impls = [], []
    for _ in range(ctx.budget(60, 800)):
        base = gen_source(rng) + rng.choice(["", "__sum_aggr", "__onehot_encoded"])
        ncols = rng.randint(0, 12)
        cols = [f"{base}~{i}" for i in range(ncols)] + [gen_source(rng) for _ in range(rng.randint(0, 3))]
        if rng.random() < 0.3:
            cols.append(base)
        if rng.random() < 0.3:
            cols.append(base + "x~1")
        rng.shuffle(cols)
        impl = FeatureGroup.resolve_multi_column_feature(base, set(cols))
        reqs.append({"op": "C16.resolveMulti", "s": base, "cols": sorted(set(cols))})
        impls.append(impl)
    outs = ctx.lean.batch(reqs)
    for r, i, o in zip(reqs, impls, outs):
        ctx.case("tilde", r, len(i) > 1, ncols=min(len(i), 11))
        if i != o:
            ctx.disagree("tilde", r, i, o)

    # ---- suite: end to end --------------------------------------------------------------------------
    run_e2e_suite(ctx, G, K)


LIST_CLASS = "option-value-spelled-as-list-or-set"
AMP_CLASS = "multi-input-op-not-last"
SAMEKEY_CLASS = "options-form-consecutive-levels-share-a-key-with-different-values"
NESTED_CLASS = "group-options-nest-of-different-levels"
FSET_CLASS = "in_features-frozenset-of-feature-objects-exponential-time"
GEO3_CLASS = "geo-distance-name-with-3-or-more-inputs"
TILDE_CLASS = "source~i-followed-by-suffix"


def option_levels(feat: Any) -> List[Any]:
    """the Feature objects of an options nest, outermost first (following the Feature inside in_features)"""
    from mloda.user import Feature

    out: List[Any] = []
    cur = feat
    while isinstance(cur, Feature) and len(out) < 30:
        out.append(cur)
        v = cur.options.get("in_features")
        nxt = None
        if isinstance(v, Feature):
            nxt = v
        elif isinstance(v, (frozenset, list, set, tuple)):
            fs = [x for x in v if isinstance(x, Feature) and (x.options.group or x.options.context)]
            nxt = fs[0] if len(fs) == 1 else None
        cur = nxt
    return out


def level_items(f: Any) -> Dict[str, Any]:
    d = {str(k.value if isinstance(k, Enum) else k): v for k, v in list(f.options.group.items()) + list(f.options.context.items())}
    d.pop("in_features", None)
    return d


def has_list_value(feat: Any) -> bool:
    """some option value of some level is a Python list or set (JSON arrays arrive as lists)"""
    for f in option_levels(feat):
        for v in list(f.options.group.values()) + list(f.options.context.values()):
            if isinstance(v, (list, set)):
                return True
    return False


def name_has_amp_before_suffix(name: str) -> bool:
    parts = name.split("__")
    return len(parts) >= 3 and "&" in parts[0]


def amp_before_suffix(feat: Any) -> bool:
    """a name used in the notation writes a multi-input operation that is not the last suffix"""
    for f in option_levels(feat):
        nm = f.name.name if hasattr(f.name, "name") else str(f.name)
        if name_has_amp_before_suffix(nm):
            return True
        v = f.options.get("in_features")
        vs = [v] if isinstance(v, str) else [x for x in v if isinstance(x, str)] if isinstance(v, (list, set, frozenset, tuple)) else []
        if any(name_has_amp_before_suffix(x) for x in vs):
            return True
    return False


def samekey_levels(feat: Any) -> bool:
    ls = option_levels(feat)
    for a, b in zip(ls, ls[1:]):
        da, db = level_items(a), level_items(b)
        if any(k in db and db[k] != da[k] for k in da):
            return True
    return False


def group_nest_differs(feat: Any) -> bool:
    ls = option_levels(feat)
    for a, b in zip(ls, ls[1:]):
        ga = {k: v for k, v in a.options.group.items() if k != "in_features"}
        if ga and level_items(a) != level_items(b):
            return True
    return False


def notation_variants(ctx: Ctx, G: Groups, ch: Dict[str, Any], rng: Any, e2e: bool = False, tagp: str = "") -> List[Tuple[str, Any]]:
    """the notations of one chain as Feature objects (JSON forms through the real loader)"""
    from mloda.core.api.feature_config.loader import load_features_from_config
    from mloda.user import Feature, Options

    d = len(ch["ops"])
    top = ch["ops"][-1]
    top_opts = {"cleaning_operations": tuple(top["p"])} if top["g"] == "TextCleaningFeatureGroup" else {}
    name = render(ch)
    out: List[Tuple[str, Any]] = [("name", Feature(name, Options(context=dict(top_opts))) if top_opts else Feature(name))]
    if e2e:
        # frozenset({Feature}) nests cost ~50x per level in the engine (FSET_CLASS, probed separately)
        leaf = rng.choice(["str", "fset", "feat", "list"])
        inner = "feat"
    else:
        leaf = rng.choice(["str", "fset", "feat", "list", "set", "str_sp", "fset_feat"])
        inner = rng.choice(["feat", "feat", "fset", "list"])
    if len(ch["src"]) > 1 and leaf in ("feat", "fset_feat"):
        leaf = "fset" if e2e else "fset_feat"  # frozenset({Feature, Feature}) does not come back from the engine (FSET_CLASS)
    out.append((f"options[{leaf},{inner}]", build_options_feature(ch, leaf, inner, rng, tag=tagp + "p")))
    if d >= 2:
        k = rng.randint(1, d - 1)
        out.append((f"options-mixed@{k}", build_options_feature(ch, "str", "feat", rng, mixed_at=k, tag=tagp + "m")))
        out.append(("options-group-nested", build_options_feature(ch, "str" if len(ch["src"]) == 1 else "fset", "feat", rng, where="group", tag=tagp + "g")))
    for form in ("nameobj", "ctx", "optflat", "optin", "nested"):
        item = build_json(ch, form, tag=tagp + "j" + form[0])
        if form == "nameobj" and top_opts:
            item["context_options"] = {k: list(v) for k, v in top_opts.items()}
        doc = json.dumps([item])
        try:
            fs = load_features_from_config(doc)
            out.append((f"json-{form}", fs[0] if not isinstance(fs[0], str) else Feature(fs[0])))
        except Exception as e:
            ctx.violation("notations", {"chain": ch, "notation": f"json-{form}", "doc": doc}, f"documented JSON form {form} of {render(ch)!r} is rejected by the loader: {e!r}"[:300])
    return out


# --------------------------------------------------------------------------------------


def run_json_suite(ctx: Ctx, G: Groups, K: int) -> None:
    from mloda.core.api.feature_config.loader import load_features_from_config
    from mloda.core.api.feature_config.parser import parse_json

    rng = ctx.rng
    docs: List[Tuple[str, Any]] = []  # (kind, python document)

    def rand_scalar() -> Any:
        return rng.choice([None, True, False, 0, 1, -2, 7, 2.5, "", "a", "x,y", "q"])

    def rand_obj() -> Dict[str, Any]:
        return {rng.choice(["k", "aggregation_type", "window_size", "in_features", "z"]): rng.choice([1, "sum", "a", ["a", "b"], {"name": "n1", "options": {"k": 1}}, None, True]) for _ in range(rng.randint(0, 3))}

    def valid_item() -> Any:
        r = rng.random()
        if r < 0.2:
            return gen_source(rng)
        it: Dict[str, Any] = {"name": rng.choice([gen_source(rng), render(gen_chain(G, rng, rng.randint(1, K)))])}
        if rng.random() < 0.5:
            it["in_features"] = [gen_source(rng) for _ in range(rng.randint(0, 3))]
        if rng.random() < 0.5:
            it["options"] = rand_obj()
        else:
            if rng.random() < 0.6:
                it["group_options"] = rand_obj()
            if rng.random() < 0.6:
                it["context_options"] = rand_obj()
        if rng.random() < 0.25:
            it["column_index"] = rng.choice([0, 1, 2, 10, -1])
        return it

    for _ in range(ctx.budget(120, 2500)):
        doc = [valid_item() for _ in range(rng.randint(0, 3))]
        docs.append(("valid-ish", doc))
        # malformed stream: one mutation of a (mostly) valid document
        bad = json.loads(json.dumps(doc)) or [valid_item()]
        objs = [i for i, it in enumerate(bad) if isinstance(it, dict)]
        m = rng.random()
        if m < 0.12 or not objs:
            bad2: Any = rng.choice([{"features": bad}, "x", 5, None, True, {"name": "a"}, 2.5])
            docs.append(("top-level", bad2))
            continue
        it = bad[rng.choice(objs)]
        if m < 0.2:
            bad[rng.randrange(len(bad))] = rng.choice([5, None, True, ["a"], 2.5, [{"name": "a"}]])
            docs.append(("item-type", bad))
        elif m < 0.35:
            it[rng.choice(["option", "propagate_context_keys", "columnIndex", "in_feature", "domain", "Name", "compute_framework"])] = rng.choice([1, ["a"], {}, "x"])
            docs.append(("unknown-key", bad))
        elif m < 0.42:
            it.pop("name", None)
            docs.append(("missing-name", bad))
        else:
            fld = rng.choice(["name", "options", "in_features", "group_options", "context_options", "column_index"])
            pool = {
                "name": [5, None, ["a"], "", True, {"a": 1}, 2.5],
                "options": [[], "s", None, 5, ["a"], True, 0, ""],
                "in_features": ["abc", "a", 5, [1, 2], [["a"]], {"a": 1}, "", None, True, 2.5, [{"name": "a"}], ["a", 1], [None]],
                "group_options": [[], "s", 5, ["a"], True, 0, "", None],
                "context_options": [[], "s", 5, ["a"], True, 0, "", None],
                "column_index": ["1", 1.5, True, None, [0], -1, "a", 2.0, {"i": 0}],
            }[fld]
            it[fld] = rng.choice(pool)
            if fld in ("group_options", "context_options") and rng.random() < 0.5:
                it.pop("options", None)
            docs.append((f"wrong-type:{fld}", bad))
    # the mutual exclusion rule and some fixed witnesses
    docs += [
        ("exclusive", [{"name": "a", "options": {"k": 1}, "group_options": {"g": 1}}]),
        ("exclusive", [{"name": "a", "options": {"k": 1}, "context_options": {"g": 1}}]),
        ("exclusive", [{"name": "a", "options": {}, "context_options": {"g": 1}}]),
        ("dup-key", [{"name": "a", "group_options": {"g": 1}, "context_options": {"g": 2}}]),
        ("dup-key", [{"name": "a", "in_features": ["x"], "options": {"in_features": "y"}}]),
        ("wrong-type:in_features", [{"name": "a", "in_features": "abc", "context_options": {"aggregation_type": "sum"}}]),
        ("docs-field", [{"name": "f", "context_options": {"a": 1}, "propagate_context_keys": ["a"]}]),
        ("nested", [{"name": "o", "options": {"in_features": {"name": "", "options": {}}}}]),
        ("nested", [{"name": "o", "options": {"in_features": {"options": {"k": 1}}}}]),
        ("nested", [{"name": "o", "options": {"in_features": {"name": "i", "options": None}}}]),
        ("nested", [{"name": "o", "options": {"in_features": {"name": "i", "in_features": ["a", "b"]}}}]),
        ("nested", [{"name": "o", "options": {"in_features": {"name": "i", "in_features": ["a"]}}}]),
        ("nested", [{"name": "o", "options": {"in_features": {"name": "i", "in_features": []}}}]),
        ("nested", [{"name": "o", "options": {"in_features": {"name": "i", "in_features": {"name": "k", "options": {"in_features": "z"}}}}}]),
        ("nested", [{"name": "o", "options": {"other": {"in_features": {"name": "i"}, "deep": {"in_features": "s"}}}}]),
    ]

    reqs, impls, meta = [], [], []
    for kind, doc in docs:
        text = json.dumps(doc)
        try:
            fs = load_features_from_config(text)
            impl: Any = [enc(f) for f in fs]
            raised = None
        except Exception as e:
            impl = errclass(e)
            raised = e
        viol = hand_schema_violation(doc)
        js = jsonschema_valid(doc)
        if js is not None and js != (viol is None):
            ctx.note(f"hand-coded schema check and jsonschema differ on {text[:120]} (hand: {viol}, jsonschema valid: {js})")
        valid = js if js is not None else (viol is None)
        ctx.case("json", doc, kind != "valid-ish" or bool(doc), kind=kind.split(":")[0], schema=("valid" if valid else "invalid"), outcome=("raise" if raised is not None else "ok"))
        # oracle 1: a document outside the published schema is rejected
        if not valid and raised is None:
            ctx.violation("json", {"doc": doc}, f"document invalid against the published schema ({viol}) is loaded without error: {text[:160]}", impl, "an exception",
                          finding_class=f"schema-invalid-config-accepted:{viol}")  # fmt: skip
        # oracle 2: a valid document loads to the documented Feature objects
        if valid and raised is None:
            try:
                exp: Any = [documented_feature(it) for it in doc]
            except Exception:
                exp = "the documentation gives this document no meaning (it should have been rejected)"
            if exp is None or isinstance(exp, str) or canon(impl) != canon(exp):
                ctx.violation("json", {"doc": doc}, f"valid document {text[:160]} loads to {cjson(canon(impl))[:200]}, documented {cjson(canon(exp))[:200]}", impl, exp)
        if valid and raised is not None and not documented_rejection(doc):
            ctx.violation("json", {"doc": doc}, f"valid document {text[:200]} is rejected: {raised!r}"[:300], impl, "loads")
        reqs.append({"op": "C16.load", "data": json_to_wire(doc)})
        impls.append(impl)
        meta.append(doc)
        # parse_json on its own (same model function, first half)
    outs = ctx.lean.batch(reqs)
    sk = 0
    for d, i, o in zip(meta, impls, outs):
        se = same_err(i, o)
        if se is None:
            sk += 1
        elif se is False:
            ctx.disagree("json", {"doc": d}, i, o)
    ctx.tag("unmodelled_skipped", "json", sk)
    # invalid JSON text / unsupported format: must raise
    for text in ['[{"name": "a",}]', "", "[", "{'name': 'a'}", '["a" "b"]']:
        try:
            parse_json(text)
            ctx.violation("json", {"text": text}, f"invalid JSON text {text!r} accepted")
        except ValueError:
            pass
        ctx.case("json", {"text": text}, True, kind="invalid-text")
    try:
        load_features_from_config("[]", format="yaml")
        ctx.violation("json", {"format": "yaml"}, "unsupported format accepted")
    except ValueError:
        pass


def documented_rejection(doc: Any) -> bool:
    """schema-valid documents the documentation itself excludes: options together with group/context options; a key in both
    group and context (Options constraint); in_features both top-level and inside options"""
    for it in doc:
        if isinstance(it, dict):
            if it.get("options") and (it.get("group_options") or it.get("context_options")):
                return True
            g, c = it.get("group_options") or {}, dict(it.get("context_options") or {})
            if it.get("in_features"):
                c["in_features"] = 1
                if "in_features" in (it.get("options") or {}):
                    return True
            if set(g) & set(c):
                return True
            for o in (it.get("options"),):
                if isinstance(o, dict) and _bad_nested(o):
                    return True
    return False


def _bad_nested(o: Dict[str, Any]) -> bool:
    for k, v in o.items():
        if isinstance(v, dict):
            if k == "in_features" and (not v.get("name") or not isinstance(v.get("options", {}), dict)):
                return True
            if k == "in_features":
                if _bad_nested(v.get("options", {})):
                    return True
                inf = v.get("in_features")
                if isinstance(inf, dict) and _bad_nested({"in_features": inf}):
                    return True
            elif _bad_nested(v):
                return True
    return False


def documented_feature(it: Any) -> Any:
    """docs/in_depth/feature-config.md: what a (schema-valid) item means, in the wire encoding"""
    if isinstance(it, str):
        return it
    name = it["name"] if it.get("column_index") is None else f"{it['name']}~{it['column_index']}"
    inf = it.get("in_features")
    if it.get("group_options") is not None or it.get("context_options") is not None:
        g = dict(it.get("group_options") or {})
        c = dict(it.get("context_options") or {})
        if inf:
            c["in_features"] = frozenset(inf)
        return {"$": "feat", "name": name, "group": [[k, enc(v)] for k, v in g.items()], "ctx": [[k, enc(v)] for k, v in c.items()]}
    g = nested_to_features(it.get("options") or {})
    c = {"in_features": frozenset(inf)} if inf else {}
    return {"$": "feat", "name": name, "group": [[k, v] for k, v in g.items()], "ctx": [[k, enc(v)] for k, v in c.items()]}


def nested_to_features(o: Dict[str, Any]) -> Dict[str, Any]:
    """a nested {"name", "options", "in_features"} under the key in_features denotes a Feature object"""
    out: Dict[str, Any] = {}
    for k, v in o.items():
        if k == "in_features" and isinstance(v, dict):
            no = nested_to_features(v.get("options", {}))
            inf = v.get("in_features")
            if inf:
                if isinstance(inf, list):
                    no["in_features"] = enc(inf if len(inf) > 1 else inf[0])
                elif isinstance(inf, dict):
                    no["in_features"] = nested_to_features({"in_features": inf})["in_features"]
                else:
                    no["in_features"] = enc(inf)
            out[k] = {"$": "feat", "name": v["name"], "group": [[k2, v2] for k2, v2 in no.items()], "ctx": []}
        elif isinstance(v, dict):
            out[k] = {"$": "dict", "kv": [[k2, v2] for k2, v2 in nested_to_features(v).items()]}
        else:
            out[k] = enc(v)
    return out


# --------------------------------------------------------------------------------------


def run_e2e_suite(ctx: Ctx, G: Groups, K: int) -> None:
    from mloda.core.api.feature_config.loader import load_features_from_config
    from mloda.user import Feature, Options

    rng = ctx.rng
    E = E2E(ctx, G)
    ts = [datetime.datetime(2024, 1, d) for d in range(1, 8)]

    def num_col() -> List[Any]:
        col = [rng.choice([None, rng.randint(-5, 20), rng.randint(0, 9), rng.randint(0, 9) + 0.5]) for _ in range(7)]
        if all(v is None for v in col):
            col[rng.randrange(7)] = 3
        if col[0] is None and rng.random() < 0.5:
            col[0] = 1
        return col

    lean_reqs: List[Dict[str, Any]] = []
    lean_meta: List[Tuple[Any, str, Dict[str, Any]]] = []
    counter = [0]

    def side_by_side(ch: Dict[str, Any], fwname: str, cols: Dict[str, List[Any]]) -> None:
        d = len(ch["ops"])
        root = E.root(cols)
        name = render(ch)
        counter[0] += 1
        variants = notation_variants(ctx, G, ch, rng, e2e=True, tagp=f"c{counter[0]}")
        results: Dict[str, Dict[str, Any]] = {}
        preds: Dict[str, Dict[str, bool]] = {}
        for vname, feat in variants:
            wire = enc(feat)  # before the run: the engine merges options into the Feature objects it is given
            preds[vname] = {"list": has_list_value(feat), "amp": amp_before_suffix(feat), "samekey": samekey_levels(feat), "nest": group_nest_differs(feat)}
            col = feat.name.name
            r = E.run([feat], fwname, root)
            r["col"] = col
            results[vname] = r
            lean_reqs.append({"op": "C16.resolve", "fuel": 14, "feat": wire, "prop": True})
            lean_meta.append((ch, vname, r))
        ctx.case("e2e", {"chain": ch, "fw": fwname, "cols": cols}, d >= 2, fw=fwname, depth=d, top=ch["ops"][-1]["g"])
        exp_trace = [G.impls[op["g"]][fwname].__name__ for op in ch["ops"]]
        ref = results["name"]
        case = {"chain": ch, "fw": fwname, "cols": {k: [str(x) if isinstance(x, datetime.datetime) else x for x in v] for k, v in cols.items()}}
        # oracle A: the name form runs, through exactly the chain of groups written in it, left to right
        if not ref["ok"]:
            ctx.violation("e2e", case, f"well-formed chain {name!r} on {fwname} fails: {ref.get('kind')} {ref.get('msg')}", ref, "runs",
                          finding_class=AMP_CLASS if (preds["name"]["amp"] and ref.get("kind") == "ValueError") else None)  # fmt: skip
            return
        if ref["trace"] != exp_trace:
            ctx.violation("e2e", case, f"{name!r} ran through {ref['trace']}, written left to right it is {exp_trace}", ref["trace"], exp_trace)
        ref_vals = ref["cols"].get(name)
        # oracle B: every other notation gives the same values through the same groups
        for vname, r in results.items():
            if vname == "name":
                continue
            if not r["ok"]:
                pr = preds[vname]
                msg = r.get("msg", "")
                cls_ = None
                if pr["list"] and r.get("kind") == "TypeError":
                    cls_ = LIST_CLASS
                elif pr["nest"] and (r.get("kind") == "multiple" or "conflicting values" in msg):
                    cls_ = NESTED_CLASS
                elif pr["samekey"] and "conflicting values" in msg:
                    cls_ = SAMEKEY_CLASS
                elif pr["amp"] and r.get("kind") == "ValueError":
                    cls_ = AMP_CLASS
                ctx.violation("e2e", {**case, "notation": vname}, f"notation {vname} of {name!r} on {fwname} fails ({r.get('kind')}: {msg}) while the name form runs", r, "same as name form",
                              finding_class=cls_)  # fmt: skip
                continue
            if r["trace"] != ref["trace"]:
                ctx.violation("e2e", {**case, "notation": vname}, f"notation {vname} of {name!r} ran through {r['trace']}, the name form through {ref['trace']}", r["trace"], ref["trace"])
            got = r["cols"].get(r["col"])
            if got is None or not vals_close(got, ref_vals, 0.0):
                ctx.violation("e2e", {**case, "notation": vname}, f"notation {vname} of {name!r} yields {got}, the name form {ref_vals}", got, ref_vals)
        # oracle C: left to right = op_k(... op_1(x)), each op evaluated on its own (depth-1 features on a fresh root)
        if d >= 2 and all(op["g"] not in ("GeoDistanceFeatureGroup", "TextCleaningFeatureGroup") for op in ch["ops"]):
            cur = cols[ch["src"][0]]
            okc = True
            for op in ch["ops"]:
                r1 = E.run(["z__" + op_suffix(op)], fwname, E.root({"z": cur, "reference_time": ts}))
                if not r1["ok"]:
                    okc = False
                    break
                cur = r1["cols"]["z__" + op_suffix(op)]
            if okc and not vals_close(cur, ref_vals, 1e-9):
                ctx.violation("e2e", case, f"{name!r} yields {ref_vals}; applying its suffixes one at a time left to right yields {cur}", ref_vals, cur)
        # oracle D: direct Python computation (Pandas only: what a single operation computes on the other frameworks - integer
        # truncation of an imputed mean on PyArrow, approximate medians - is C19's subject; their composition is oracle C)
        if fwname == "PandasDataFrame" and all(op["g"] in ("AggregatedFeatureGroup", "MissingValueFeatureGroup", "TimeWindowFeatureGroup") for op in ch["ops"]):
            cur2: Optional[List[Any]] = cols[ch["src"][0]]
            for op in ch["ops"]:
                cur2 = direct_op(op, cur2, exact_median=(fwname == "PandasDataFrame")) if cur2 is not None else None
            if cur2 is not None:
                ctx.tag("e2e_direct_oracle", "evaluated")
                if not vals_close(cur2, ref_vals, 1e-9):
                    ctx.violation("e2e", case, f"{name!r} yields {ref_vals}; computed directly (last suffix applied last) it is {cur2}", ref_vals, cur2)

    n = ctx.budget(36, 400)
    for _ in range(n):
        fwname = rng.choice(["PandasDataFrame", "PandasDataFrame", "PyArrowTable", "PythonDictFramework"])
        numeric = [g for g in E2E_GROUPS[fwname] if g in ("AggregatedFeatureGroup", "MissingValueFeatureGroup", "TimeWindowFeatureGroup")]
        d = rng.randint(1, K)
        src = gen_source(rng)
        ops = []
        for i in range(d):
            g = rng.choice(numeric)
            op = gen_op(G, rng, g, e2e=True)
            # ffill/bfill leave leading/trailing nulls; fine. an aggregation of an all-null column is avoided by construction
            ops.append(op)
        ch = {"src": [src], "ops": ops}
        side_by_side(ch, fwname, {src: num_col(), "reference_time": ts})
    # geo distance first (pandas only), text cleaning (depth 1; operations live in options in every notation)
    for _ in range(ctx.budget(6, 60)):
        a, b = gen_source(rng), gen_source(rng)
        if a == b:
            continue
        pts = lambda: [(rng.randint(0, 5), rng.randint(0, 5)) for _ in range(7)]
        ch = {"src": [a, b], "ops": [gen_op(G, rng, "GeoDistanceFeatureGroup", e2e=True)]}
        side_by_side(ch, "PandasDataFrame", {a: pts(), b: pts(), "reference_time": ts})
    for _ in range(ctx.budget(6, 60)):
        fwname = rng.choice(["PandasDataFrame", "PythonDictFramework"])
        src = gen_source(rng)
        op = gen_op(G, rng, "TextCleaningFeatureGroup", e2e=True)
        texts = [rng.choice(["Hello, World!", "A  b", "the cat", "x@y.com hi", "MiXed   Case?", "plain"]) for _ in range(7)]
        side_by_side({"src": [src], "ops": [op]}, fwname, {src: texts, "reference_time": ts})

    # ---- known grammar defects, each reproduced on its narrow class -----------------------------------
    for _ in range(ctx.budget(3, 20)):
        a, b = "pa", "pb"
        pts = lambda: [(rng.randint(0, 5), rng.randint(0, 5)) for _ in range(7)]
        cols = {a: pts(), b: pts(), "reference_time": ts}
        root = E.root(cols)
        gop = gen_op(G, rng, "GeoDistanceFeatureGroup", e2e=True)
        aop = gen_op(G, rng, "AggregatedFeatureGroup", e2e=True)
        inner = f"{a}&{b}__{op_suffix(gop)}"
        nm = f"{inner}__{op_suffix(aop)}"
        r_name = E.run([nm], "PandasDataFrame", root)
        r_opt = E.run([Feature("agg", Options(context={"aggregation_type": aop["p"][0], "in_features": inner}))], "PandasDataFrame", root)
        ctx.case("e2e_grammar", {"name": nm}, True, kind="amp-then-suffix")
        if r_opt["ok"] and not (r_name["ok"] and vals_close(r_name["cols"].get(nm), r_opt["cols"].get("agg"))):
            ctx.violation("e2e_grammar", {"name": nm}, f"{nm!r}: read left to right it is {op_suffix(aop)} of {inner!r} (the options form computes it), the name form gives {r_name.get('kind') or r_name.get('cols')}",
                          r_name, r_opt, finding_class=AMP_CLASS)  # fmt: skip
        # three inputs for a two-input operation: must be rejected, not read as (a, "b&c")
        cols3 = {"pa": pts(), "pb&pc": pts(), "pb": pts(), "pc": pts(), "reference_time": ts}
        nm3 = f"pa&pb&pc__{op_suffix(gop)}"
        r3 = E.run([nm3], "PandasDataFrame", E.root(cols3))
        ctx.case("e2e_grammar", {"name": nm3}, True, kind="geo-3-inputs")
        if r3["ok"]:
            ctx.violation("e2e_grammar", {"name": nm3, "cols": sorted(cols3)}, f"{nm3!r} names three inputs for a two-input operation but is computed (as the distance between 'pa' and 'pb&pc')",
                          r3, "rejected", finding_class=GEO3_CLASS)  # fmt: skip
        # ~i on the source of a chain
        mcols = {"m": [rng.randint(0, 9) for _ in range(7)], "reference_time": ts}
        rootm = F.make_group(F.uniq("R16m_"), root_data=mcols, multi={"m": 3})
        t = aop["p"][0]
        nmt = f"m~1__{t}_aggr"
        r_n = E.run([nmt], "PandasDataFrame", rootm)
        r_o = E.run([Feature("agg", Options(context={"aggregation_type": t, "in_features": "m~1"}))], "PandasDataFrame", rootm)
        ctx.case("e2e_grammar", {"name": nmt}, True, kind="tilde-source")
        want = direct_op(aop, [v + 1 for v in mcols["m"]])
        if not (r_n["ok"] and vals_close(r_n["cols"].get(nmt), want)):
            ctx.violation("e2e_grammar", {"name": nmt}, f"{nmt!r} (sub-column 1 of m, then {t}) gives {r_n.get('kind') or r_n.get('cols')}; the options form gives {r_o.get('cols')}, direct computation {want}",
                          r_n, want, finding_class=TILDE_CLASS if r_n.get("kind") == "multiple" else None)  # fmt: skip
        if r_o["ok"] and want is not None and not vals_close(r_o["cols"].get("agg"), want):
            ctx.violation("e2e_grammar", {"options": "in_features=m~1", "t": t}, f"options form on sub-column m~1 gives {r_o['cols'].get('agg')}, direct computation {want}", r_o, want)
        # the whole multi-column feature: row-wise aggregation across m~0..m~2 in every notation
        nmm = f"m__{t}_aggr"
        r_a = E.run([nmm], "PandasDataFrame", rootm)
        r_b = E.run([Feature("agg", Options(context={"aggregation_type": t, "in_features": "m"}))], "PandasDataFrame", rootm)
        r_c = E.run(load_features_from_config(json.dumps([{"name": "jagg", "in_features": ["m"], "context_options": {"aggregation_type": t}}])), "PandasDataFrame", rootm)
        ctx.case("e2e_grammar", {"name": nmm}, True, kind="multi-column-source")
        va, vb, vc = r_a.get("cols", {}).get(nmm), r_b.get("cols", {}).get("agg"), r_c.get("cols", {}).get("jagg")
        if not (r_a["ok"] and r_b["ok"] and r_c["ok"] and vals_close(va, vb) and vals_close(va, vc)):
            ctx.violation("e2e_grammar", {"name": nmm}, f"multi-column source m through {t}: name {va}, options {vb}, json {vc}", [va, vb, vc], "equal")

    # in_features = frozenset of Feature objects (a documented spelling): time explodes with the number of Feature objects inside frozensets
    def fset_probe(kind: str, slow: Any, plain: Any, cols_: Dict[str, List[Any]], timeout: float, col_s: str, col_p: str) -> None:
        rootf = E.root(cols_)
        r_plain = E.run([plain], "PandasDataFrame", rootf)
        E.timeout = timeout
        r_fs = E.run([slow], "PandasDataFrame", rootf)
        E.timeout = 6.0
        ctx.case("e2e_grammar", {"spelling": kind}, True, kind="frozenset-of-features")
        if not (r_fs["ok"] and r_plain["ok"] and vals_close(r_fs["cols"].get(col_s), r_plain["cols"].get(col_p))):
            ctx.violation("e2e_grammar", {"spelling": kind}, f"options form with {kind}: {r_fs.get('kind')} {r_fs.get('msg', '')} (same chain with str / direct Feature spelling: ok={r_plain['ok']})",
                          r_fs, r_plain, finding_class=FSET_CLASS if r_fs.get("kind") == "timeout" else None)  # fmt: skip

    pts7 = lambda: [(rng.randint(0, 5), rng.randint(0, 5)) for _ in range(7)]
    fset_probe("in_features=frozenset({Feature('pa'), Feature('pb')}) for a two-input operation",
               Feature("s0", Options(context={"distance_type": "euclidean", "in_features": frozenset([Feature("pa"), Feature("pb")])})),
               Feature("t0", Options(context={"distance_type": "euclidean", "in_features": frozenset(["pa", "pb"])})),
               {"pa": pts7(), "pb": pts7(), "reference_time": ts}, 4.0, "s0", "t0")  # fmt: skip
    chf = {"src": ["x"], "ops": [{"g": "MissingValueFeatureGroup", "p": ["mean"]}, {"g": "AggregatedFeatureGroup", "p": ["sum"]}, {"g": "MissingValueFeatureGroup", "p": ["ffill"]}]}
    fset_probe("in_features=frozenset({Feature}) at each of 3 levels", build_options_feature(chf, "fset_feat", "fset", rng, tag="r"), build_options_feature(chf, "feat", "feat", rng, tag="q"),
               {"x": num_col(), "reference_time": ts}, 6.0, "r2", "q2")  # fmt: skip

    # ---- malformed names / configurations must raise --------------------------------------------------
    root = E.root({"x": num_col(), "y": num_col(), "reference_time": ts})
    bad_feats: List[Tuple[str, Any]] = [
        ("no-source", "__sum_aggr"), ("no-source", "sum_aggr"), ("no-source", "__mean_imputed"), ("no-source", "__sum_2_day_window"),
        ("count", "x&y__sum_aggr"), ("count", "x&y__mean_imputed"), ("count", "x__euclidean_distance"),
        ("vocab", "x__foo_aggr"), ("vocab", "x__foo_imputed"), ("vocab", "x__sum_0_day_window"), ("vocab", "x__sum_2_eon_window"), ("vocab", "x__foo_2_day_window"),
        ("trailing", "x__sum_aggr__"), ("trailing", "x__sum_aggr_"), ("trailing", "x__sum_aggr~0"), ("case", "x__SUM_aggr"), ("half-sep", "x_sum_aggr"),
        ("unknown-source", "nosuch__sum_aggr"),
        ("opt-missing", Feature("a1", Options(context={"aggregation_type": "sum"}))),
        ("opt-missing", Feature("a1", Options(context={"in_features": "x"}))),
        ("opt-vocab", Feature("a1", Options(context={"aggregation_type": "foo", "in_features": "x"}))),
        ("opt-vocab", Feature("a1", Options(context={"window_function": "sum", "window_size": 0, "time_unit": "day", "in_features": "x"}))),
        ("opt-vocab", Feature("a1", Options(context={"window_function": "sum", "window_size": "two", "time_unit": "day", "in_features": "x"}))),
        ("opt-count", Feature("a1", Options(context={"aggregation_type": "sum", "in_features": frozenset(["x", "y"])}))),
        ("opt-count", Feature("a1", Options(context={"aggregation_type": "sum", "in_features": "x,y"}))),
        ("opt-type", Feature("a1", Options(context={"aggregation_type": "sum", "in_features": 5}))),
        ("opt-type", Feature("a1", Options(context={"aggregation_type": "sum", "in_features": ("x",)}))),
    ]  # fmt: skip
    for kind, feat in bad_feats:
        r = E.run([feat], "PandasDataFrame", root)
        case = {"kind": kind, "feature": feat if isinstance(feat, str) else enc(feat)}
        ctx.case("e2e_malformed", case, True, kind=kind)
        if r["ok"]:
            ctx.violation("e2e_malformed", case, f"malformed feature ({kind}) {case['feature']} is computed: {r['cols']}", r["cols"], "an exception")
        if not isinstance(feat, str):
            lean_reqs.append({"op": "C16.resolve", "fuel": 14, "feat": enc(feat), "prop": True})
            lean_meta.append((None, kind, r))
        else:
            lean_reqs.append({"op": "C16.resolve", "fuel": 14, "feat": enc(Feature(feat)), "prop": True})
            lean_meta.append((None, kind, r))

    # model vs engine: the model resolves iff the engine gets past resolution, through the same groups
    outs = ctx.lean.batch(lean_reqs)
    for rq, (ch, vname, r), o in zip(lean_reqs, lean_meta, outs):
        model_groups = None
        if o is not None:
            model_groups, j = [], o
            while isinstance(j, dict) and "step" in j:
                model_groups.append(j["group"])
                j = j["step"]
            model_groups.reverse()
        if r["ok"]:
            impl_groups = [next((b for b, d_ in G.impls.items() if any(c.__name__ == t for c in d_.values())), t) for t in r["trace"]]
            if model_groups != impl_groups:
                ctx.disagree("e2e", {"notation": vname, "feature": rq["feat"]}, impl_groups, model_groups)
        elif r["phase"] == "resolve" and model_groups is not None and r["kind"] != "none-found":
            ctx.disagree("e2e", {"notation": vname, "feature": rq["feat"]}, r, model_groups)
        elif r["phase"] == "resolve" and model_groups is not None and r["kind"] == "none-found":
            # the model resolved down to a source that the generated root does not offer
            pass


def search(ctx: Ctx, broken: List[str]) -> None:
    run(ctx)


def replay(ctx: Ctx, body: Dict[str, Any]) -> None:
    run(ctx)
