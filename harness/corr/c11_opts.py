"""C11 extension: global filters on requested features that carry options.

The property quantifies over every request: a global filter keeps exactly the satisfying rows of every group that exposes the
filter column, whatever options the requested features carry.  The engine copies the requested feature's options onto the
filter column feature (`GlobalFilter.unify_options`); if that copy changes the *group* options of the filter feature the
planner puts the filter column into another feature set and the filter is silently skipped.

suite e2e_opts   one root group, 1-3 requested features, each with options placed in group / context / both / none (equal or
                 different between the features), one or two filters on a non-requested or requested column, three frameworks.
                 Oracle: rows of every returned table = rows satisfying all filters (reference predicate of c11.py).
"""
from __future__ import annotations

from typing import Any, Dict, List

from harness import fgfactory as F
from harness.core import Ctx
from harness.corr import c11 as B

SUITES = {"e2e_opts", "e2e_uneval"}
ASSUMPTIONS = ["e2e_opts: numeric / string filter columns inside the oracle domain of c11.py; at least one row kept (empty results on PythonDict are finding F-C11-pythondict-empty-result)"]

PLACEMENTS = ["none", "group", "context", "both"]


def _options(placement: str, tag: int) -> Any:
    from mloda.user import Options

    if placement == "none":
        return None
    if placement == "group":
        return Options(group={"variant": tag})
    if placement == "context":
        return Options(context={"note": f"n{tag}"})
    return Options(group={"variant": tag}, context={"note": f"n{tag}"})


def run(ctx: Ctx, scale: float = 1.0) -> None:
    run_uneval(ctx, scale)
    from mloda.user import mloda, GlobalFilter, Feature

    rng = ctx.rng
    n = int(ctx.budget(45, 400) * scale)
    # every placement is exercised at least once per framework with a fixed simple case
    plan: List[Dict[str, Any]] = []
    for pl in PLACEMENTS:
        plan.append({"ct": "int", "col": [1, 5, 9, 12], "filters": [["x", "min", {"value": 6}]], "placements": [pl], "same_tag": True})
    for _ in range(n):
        ct = rng.choice(["int", "float", "str"])
        col = B.gen_column(rng, ct, rng.choice([3, 5, 8]))
        fl: List[Any] = []
        for _try in range(8):
            fl = [["x"] + list(B.gen_domain_filter(rng, col, ct, True)) for _ in range(rng.choice([1, 1, 2]))]
            keep = set(range(len(col)))
            for _, ft, p in fl:
                keep &= set(B.oracle_rows(col, ft, p))
            if keep:
                break
        else:
            continue
        k = rng.choice([1, 2, 2, 3])
        plan.append({"ct": ct, "col": col, "filters": fl, "placements": [rng.choice(PLACEMENTS) for _ in range(k)], "same_tag": rng.random() < 0.5})
    for c in plan:
        nrows = len(c["col"])
        cols = {"x": (c["ct"], c["col"])}
        for i in range(len(c["placements"])):
            cols[f"v{i}"] = ("int", [10 * k + i for k in range(nrows)])
        keep = set(range(nrows))
        for _, ft, p in c["filters"]:
            keep &= set(B.oracle_rows(c["col"], ft, p))
        for eng in ["py", "pa", "pd"]:
            G = B.make_e2e_group("G11o_", eng, cols)
            gf = GlobalFilter()
            for col_, ft, p in c["filters"]:
                gf.add_filter(col_, ft, dict(p))
            feats = []
            for i, pl in enumerate(c["placements"]):
                o = _options(pl, 1 if c["same_tag"] else i + 1)
                feats.append(Feature(f"v{i}", options=o) if o is not None else Feature(f"v{i}"))
            case = {"eng": eng, **c}
            try:
                res = mloda.run_all(feats, compute_frameworks={F.FW_SHORT[B.E2E_FW[eng]]}, plugin_collector=F.collector({G}), global_filter=gf)
                got: Any = {}
                for r in res:
                    for name, vals in F.to_columns(r).items():
                        got[name] = vals
                got = {k_: got[k_] for k_ in sorted(got)}
            except Exception as e:  # noqa: BLE001
                got = {"err": (repr(e) + str(e))[-200:]}
            exp = {f"v{i}": [10 * k + i for k in sorted(keep)] for i in range(len(c["placements"]))}
            ctx.case("e2e_opts", case, True, engine=eng, placements="+".join(sorted(set(c["placements"]))), nfeat=len(c["placements"]), nfilters=len(c["filters"]))
            if got != exp:
                def ident(i: int, pl: str) -> Any:
                    t = 1 if c["same_tag"] else i + 1
                    return (t if pl in ("group", "both") else None, t if pl in ("context", "both") else None)

                ids = [ident(i, pl) for i, pl in enumerate(c["placements"])]
                # two requested features land in ONE feature set (same group options) but differ in their context options
                same_set_diff_ctx = any(a[0] == b[0] and a[1] != b[1] for a in ids for b in ids)
                cls = None
                # engine-level differences that c11.py already knows (decided by running the single filter on the engine directly)
                fcs = set()
                for col_, ft, p in c["filters"]:
                    single = B._single(B.engines(), eng, cols, col_, ft, p)
                    fcs.add(B.finding_class(eng, c["ct"], c["col"], ft, p, single, B.oracle_rows(c["col"], ft, p)))
                fcs.discard(None)
                if isinstance(got, dict) and "err" not in got:
                    fcs.discard("pyarrow-isin-untyped-value-set-on-string-column")  # that finding is a raised ArrowTypeError, never returned rows
                if fcs:
                    cls = sorted(fcs)[0]
                if same_set_diff_ctx and isinstance(got, dict) and "have the same filters" in str(got.get("err", "")):
                    cls = "global-filter-with-two-context-variants-in-one-feature-set-rejected"
                ctx.violation("e2e_opts", case, f"rows returned under a global filter differ from the rows satisfying it (feature options: {c['placements']})", got, exp, finding_class=cls)


def run_uneval(ctx: Ctx, scale: float = 1.0) -> None:
    """suite e2e_uneval: a filter the framework's engine CANNOT evaluate (a filter type no engine implements; a regex on an int column,
    which PyArrow refuses with ArrowNotImplementedError - a NotImplementedError subclass) next to an ordinary range filter.  The property
    speaks of the rows RETURNED: failing the request is fine, returning rows that do not satisfy the evaluable filter is not."""
    from mloda.user import mloda, GlobalFilter, Feature

    rng = ctx.rng
    for _ in range(int(ctx.budget(24, 200) * scale)):
        col = [rng.randint(-3, 9) for _ in range(rng.choice([4, 6, 8]))]
        lo = rng.randint(-2, 4)
        hi = lo + rng.randint(1, 5)
        kind = rng.choice(["custom_type", "custom_type", "regex_on_int"])
        bad = ["x", rng.choice(["not_equal", "zscore", "top_k"]), {"value": rng.randint(0, 5)}] if kind == "custom_type" else ["x", "regex", {"value": "^1"}]
        filters = [["x", "range", {"min": lo, "max": hi, "max_exclusive": False}], bad]
        if rng.random() < 0.5:
            filters.reverse()
        cols = {"x": ("int", col), "v0": ("int", [10 * k for k in range(len(col))])}
        keep = [k for k, x in enumerate(col) if lo <= x <= hi]
        for eng in ["py", "pa", "pd"]:
            G = B.make_e2e_group("G11u_", eng, cols)
            gf = GlobalFilter()
            try:
                for c_, ft, p in filters:
                    gf.add_filter(c_, ft, dict(p))
            except Exception:
                continue
            case = {"eng": eng, "col": col, "filters": filters, "kind": kind}
            try:
                res = mloda.run_all([Feature("v0")], compute_frameworks={F.FW_SHORT[B.E2E_FW[eng]]}, plugin_collector=F.collector({G}), global_filter=gf)
                got: Any = sorted(v for r in res for v in F.to_columns(r).get("v0", []))
                outcome = "returned"
            except Exception as e:  # noqa: BLE001
                got = {"err": type(e).__name__}
                outcome = "raised"
            ctx.case("e2e_uneval", case, True, engine=eng, uneval_kind=kind, uneval_outcome=outcome)
            if outcome == "returned" and not set(got) <= {10 * k for k in keep}:
                ctx.violation("e2e_uneval", case, f"rows returned although one filter could not be evaluated, and they do not satisfy the range filter [{lo}, {hi}]", got, [10 * k for k in keep])


def search(ctx: Ctx, broken: List[str]) -> None:
    run(ctx, 1.0)
    run_uneval(ctx, 1.0)


def replay(ctx: Ctx, body: Dict[str, Any]) -> None:
    run(ctx, 1.0)
