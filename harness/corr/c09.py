"""C09 - after a run nothing is left behind: no workers, no stored datasets."""
from __future__ import annotations

import multiprocessing
import threading
import time
from typing import Any, Dict, List, Optional, Set
from uuid import UUID

from harness.core import Ctx
from harness import fgfactory as F
from harness import schedlib as S

ASSUMPTIONS = [
    "that terminate()+join() ends an OS process, that daemon queue-feeder threads exit and that a Flight do_action is durable is observed (3 s grace), not proved",
    "the flight store is observed through FlightServer.list_flight_infos on one long-lived server shared by all runs of the check",
]


def leftovers(base_threads: Set[int], flight_pid: Optional[int]) -> Dict[str, Any]:
    deadline = time.time() + 3.0
    while True:
        th = [t.name for t in threading.enumerate() if t.ident not in base_threads and t.is_alive() and not t.daemon]
        pr = [p.pid for p in multiprocessing.active_children() if p.pid != flight_pid]
        if (not th and not pr) or time.time() > deadline:
            return {"threads": th, "processes": pr}
        time.sleep(0.02)


def tracker_suite(ctx: Ctx) -> None:
    """Function-level differential of add_already_calculated_children_and_drop_if_possible on a real ComputeFramework object."""
    from mloda.core.abstract_plugins.components.parallelization_modes import ParallelizationMode
    from mloda_plugins.compute_framework.base_implementations.pyarrow.table import PyArrowTable

    reqs, impls = [], []
    for _ in range(ctx.budget(400, 8000)):
        us = [UUID(int=i + 1) for i in range(5)]
        children = ctx.rng.sample(range(5), ctx.rng.randint(0, 4))
        cfw = PyArrowTable(ParallelizationMode.SYNC, frozenset(us[i] for i in children), UUID(int=99))
        ops, outs = [], []
        for _ in range(ctx.rng.randint(1, 5)):
            if ctx.rng.random() < 0.25:
                k = ctx.rng.randint(50, 60)
                cfw.data = str(k)  # what upload_finished_data leaves behind: the key string
                cfw.object_ids.append(str(k))
                ops.append(["upload", k])
                outs.append(None)
            else:
                rep = ctx.rng.sample(range(5), ctx.rng.randint(0, 3))
                before = cfw.data
                r = cfw.add_already_calculated_children_and_drop_if_possible({us[i] for i in rep}, None)
                ops.append(["report", rep])
                if r is True:
                    outs.append({"r": "dropped", "key": int(before) if isinstance(before, str) else None})
                elif r is False:
                    outs.append({"r": "no"})
                else:
                    outs.append({"r": "pending"})
                # oracle: a drop happens only when every child has been reported
                if r is True and not set(children) <= {us.index(u) for u in cfw.already_calculated_children_tracker}:
                    ctx.violation("tracker", {"children": children, "ops": ops}, "data dropped although a child was never reported", r, False)
        impl = {"outs": outs, "tracker": sorted(us.index(u) for u in cfw.already_calculated_children_tracker), "dataKey": int(cfw.data) if isinstance(cfw.data, str) else None}
        reqs.append({"op": "C09.reports", "children": children, "ops": ops})
        impls.append(impl)
        ctx.case("tracker", {"children": children, "ops": ops}, any(o and o.get("r") == "dropped" for o in outs) or len(ops) >= 3)
    for rq, im, o in zip(reqs, impls, ctx.lean.batch(reqs)):
        model = {"outs": o.get("outs"), "tracker": sorted(o.get("tracker", [])), "dataKey": o.get("dataKey")}
        if model != im:
            ctx.disagree("tracker", rq, im, model)


def joinall_suite(ctx: Ctx) -> None:
    """WorkerManager.join_all with recording fake tasks: every task is visited, failures are reported after the loop."""
    from mloda.core.runtime.worker_manager import WorkerManager

    class FakeThread(threading.Thread):
        def __init__(self, tid: int, fails: bool, log: List[int]):
            super().__init__(target=lambda: None)
            self.tid, self.fails, self.log = tid, fails, log

        def start(self) -> None:  # never really started
            pass

        def join(self, timeout: Any = None) -> None:
            self.log.append(self.tid)
            if self.fails:
                raise RuntimeError("join failed")

    reqs, impls = [], []
    for _ in range(ctx.budget(150, 2000)):
        n = ctx.rng.randint(0, 5)
        fails = [t for t in range(n) if ctx.rng.random() < 0.25]
        wm = WorkerManager()
        log: List[int] = []
        for t in range(n):
            wm.add_thread_task(FakeThread(t, t in fails, log))
        try:
            wm.join_all()
            out = "returned"
        except Exception:
            out = "raised"
        ctx.case("join_all", {"n": n, "fails": fails}, bool(fails))
        if log != list(range(n)):
            ctx.violation("join_all", {"n": n, "fails": fails}, "join_all did not visit every task", log, list(range(n)))
        if (out == "raised") != bool(fails):
            ctx.violation("join_all", {"n": n, "fails": fails}, "a failing join was swallowed / a clean join raised", out, bool(fails))
        reqs.append({"op": "C09.joinAll", "spawns": [[t, False] for t in range(n)], "joinFails": fails, "loop": "returned"})
        impls.append(out)
    for rq, im, o in zip(reqs, impls, ctx.lean.batch(reqs)):
        if o.get("outcome") != im or sorted(o.get("tasks", [])) != sorted(t for t, _ in rq["spawns"]):
            ctx.disagree("join_all", rq, im, o)


def e2e_suite(ctx: Ctx, n: int) -> None:
    S.install_step_observers()
    base_threads = {t.ident for t in threading.enumerate()}
    fs = S.flight_server()
    flight_pid = fs.flight_server_process.pid
    for k in range(n):
        kind = ctx.rng.choice(["dag", "dag", "multi", "link"])
        try:
            if kind == "dag":
                spec = S.gen_spec(ctx.rng, max_feats=5, frameworks=(ctx.rng.choice(["pa", "pa", "pd"]),), allow_options=ctx.rng.random() < 0.3)
                sess = S.prepare(spec, S.build_classes(spec))
            elif kind == "multi":
                spec = S.gen_chain_spec(ctx.rng)
                sess = S.prepare(spec, S.build_classes(spec))
            else:
                spec = S.gen_link_spec(ctx.rng, frameworks=("pa",), nsrc=2, jointypes=("inner", "left", "outer"))
                sess = S.prepare_link(spec)
        except Exception:
            continue
        exp = S.export_plan(sess)
        idx_of = {v: u for u, v in exp["_step_uuid_to_idx"].items()}
        nsteps = len(exp["steps"])
        # success, then a failure at a (seeded) step, then success again - all against the same long-lived server
        faults: List[Optional[int]] = [None] + [ctx.rng.randrange(nsteps)] + ([ctx.rng.randrange(nsteps)] if not ctx.quick else []) + [None]
        for rep, fault in enumerate(faults):
            for mode in ["mp"] + (["thread", "sync"] if ctx.rng.random() < 0.5 else []):
                stream = ctx.rng.random() < 0.25
                S.FAULTS.clear()
                if fault is not None:
                    S.FAULTS[idx_of[fault]] = "execute"
                before = S.flight_keys()
                flakes0 = S.FLAKES["hangs_retried"]
                rr = S.run_session(sess, mode, stream=stream, timeout=60)
                S.FAULTS.clear()
                left = leftovers(base_threads, flight_pid)
                after = S.flight_keys()
                uploads = sum(1 for s_ in exp["steps"] if s_["kind"] != "fg" or s_.get("need_to_upload"))
                case = {"spec": spec, "mode": mode, "fault_step": fault, "run_index": rep, "stream": stream}
                ctx.case("e2e", case, mode == "mp" and (uploads > 0 or fault is not None), mode=mode, fault=fault is not None, kind=kind, stream=stream,
                         outcome="timeout" if rr.timed_out else ("raise" if rr.error else "return"))  # fmt: skip
                if rr.timed_out:
                    ctx.violation("e2e", case, "run did not end", None, None)
                    continue
                new = sorted(after - before)
                if S.FLAKES["hangs_retried"] != flakes0:
                    ctx.tag("leak_assertion_skipped_after_hang_retry", 1)  # the aborted attempt never reached its clean-up
                    new = []
                    S.kill_stray_children()
                if new:
                    ctx.violation("e2e", case, f"{len(new)} dataset(s) uploaded by the run are still in the flight store after the call {'raised' if rr.error else 'returned'}", new, [])
                if left["threads"] or left["processes"]:
                    ctx.violation("e2e", case, f"workers of the run are still alive after the call ended: {left}", left, {"threads": [], "processes": []})
                # no dataset dropped while a step still needs it: a premature drop shows as a failed download in a run without injected fault
                known_mp_tfs = mode == "mp" and (any(s_["kind"] == "tfs" and s_["from"] != "PyArrowTable" for s_ in exp["steps"]) or S.mp_unuploaded_tfs_source(exp))  # fails on its own: F-C14-flight-transform-step / F-C02-mp-unuploaded-source (never uploaded, not dropped early)
                if fault is None and not known_mp_tfs and rr.error and ("not found" in rr.error or "empty apache flight" in rr.error):
                    ctx.violation("e2e", case, "a step failed to download a dataset that had already been dropped", rr.error[-300:], None)
    S.stop_flight_server()


def enter_fault_suite(ctx: Ctx) -> None:
    """The call fails while it is still setting the run up (after the manager process of a non-SYNC run was started): an extender
    or api_data value that cannot be sent to the manager process.  The call must raise and leave no process or thread behind -
    at the moment it raises, i.e. also while the caller still holds the exception object (rr.exc keeps it, with its traceback,
    alive during the look: clean-up that only happens when the garbage collector finalises the run's objects does not count)."""
    from mloda.steward import Extender, ExtenderHook

    class LockedExtender(Extender):
        def __init__(self) -> None:
            self.lock = threading.Lock()  # not picklable: cannot be handed to the manager process

        def wraps(self) -> Set[Any]:
            return {ExtenderHook.FEATURE_GROUP_CALCULATE_FEATURE}

        def __call__(self, func: Any, *args: Any, **kwargs: Any) -> Any:
            return func(*args, **kwargs)

    base_threads = {t.ident for t in threading.enumerate()}
    fs = S.flight_server()
    flight_pid = fs.flight_server_process.pid
    for k in range(ctx.budget(4, 30)):
        spec = S.gen_spec(ctx.rng, max_feats=3, frameworks=("pa",), allow_options=False)
        sess = S.prepare(spec, S.build_classes(spec))
        for mode in ("thread", "mp", "sync"):
            for stream in (False, True):
                for what in ("extender", "api_data"):
                    kw: Dict[str, Any] = {"extenders": {LockedExtender()}} if what == "extender" else {"api_data": {"VerifKey": {"col": [threading.Lock()]}}}
                    before = S.flight_keys()
                    rr = S.run_session(sess, mode, stream=stream, timeout=60, attempts=1, **kw)
                    left = leftovers(base_threads, flight_pid)
                    case = {"spec": spec, "mode": mode, "stream": stream, "unpicklable": what}
                    ctx.case("enter_fault", case, mode != "sync", mode=mode, stream=stream, what=what, outcome="timeout" if rr.timed_out else ("raise" if rr.error else "return"))
                    if rr.timed_out:
                        ctx.violation("enter_fault", case, "call did not end", None, None)
                        S.kill_stray_children()
                        continue
                    if mode != "sync" and rr.error is None:
                        ctx.violation("enter_fault", case, f"call returned although its {what} cannot be sent to the manager process", "returned", "raise")
                    if left["threads"] or left["processes"]:
                        ctx.violation("enter_fault", case, f"processes/threads of the call are still alive after it {'raised' if rr.error else 'returned'} during set-up: {left}", left, {"threads": [], "processes": []})
                        S.kill_stray_children()
                    new = sorted(S.flight_keys() - before)
                    if new:
                        ctx.violation("enter_fault", case, f"{len(new)} dataset(s) left in the flight store", new, [])
    S.stop_flight_server()


def run(ctx: Ctx) -> None:
    ctx.extra["rule"] = (
        "tracker: seeded report/upload sequences on a real ComputeFramework object vs the Lean tracker model; join_all: recording fake tasks with failing joins; "
        "e2e: generated plans (DAGs, multi-framework chains with transform steps, two-source joins) x MULTIPROCESSING (+ THREADING/SYNC samples) x "
        "{success, failure injected at a seeded step, success again; failure while the run is set up (extender / api_data that cannot be sent to the manager process)} x {run, stream_run} against ONE long-lived flight server: after every call the store "
        "listing must not have grown and no thread/process of the run may be alive; non-trivial = MULTIPROCESSING run with an upload or an injected failure"
    )
    tracker_suite(ctx)
    joinall_suite(ctx)
    e2e_suite(ctx, ctx.budget(16, 300))
    enter_fault_suite(ctx)


def search(ctx: Ctx, broken: List[str]) -> None:
    run(ctx)


def replay(ctx: Ctx, body: Dict[str, Any]) -> None:
    run(ctx)
