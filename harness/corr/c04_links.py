"""C04 (extension `links`) - the code that ORDERS joins inside the planner.

Real code: mloda/core/prepare/resolve_links.py (LinkTrekker, ResolveLinks.add_links_to_queue) and
mloda/core/prepare/resolve_compute_frameworks.py (ResolveComputeFrameworks).  Model: lean/MlodaVerif/Model/LinkOrder.lean,
driver `C04_links`.  Function level: the real classes are driven with generated link sets / queues and compared with the
model after renaming uuids to small numbers.  End to end: for real prepared requests the inputs and outputs of
`add_links_to_queue`, `links` and `order_queue_by_trekker_order` are captured by wrappers installed in the check process and
compared with the model; the oracle is written from the property text ("accepted plans run to completion": no join may
get lost or doubled on the way from the request to the planned queue).
"""
from __future__ import annotations

import json
from collections import OrderedDict, defaultdict
from types import SimpleNamespace
from typing import Any, Dict, List, Optional, Tuple
from uuid import UUID

from harness.core import Ctx
from harness import fgfactory as F
from harness import schedlib as S

SUITES = {"links_trekker", "links_addq", "links_orderq", "links_resolve", "links_full", "links_witness", "links_e2e"}

ASSUMPTIONS = [
    "C04_links: a link is one number in the model (dict-key identity by Link.__eq__/__hash__ and link.uuid coincide): the links of a request are the elements of one set, so equal links with different uuids do not occur",
    "C04_links: the iteration order of the set issue_collector[k] is observed on the real run (defaultdict wrapper that tags the sets it creates) and handed to the model; the theorems quantify over every such order",
    "C04_links: trekker_right_left_adjuster iterates deepcopy(uuids) in hash order, the model in insertion order; the resulting trekker is compared as dict-of-sets (sets sorted), which does not depend on that order",
]

DRV = "C04_links"


# ------------------------------------------------------------------------------------------------------------------
# a small world of real Link objects and compute-framework classes addressed by numbers


class World:
    def __init__(self, nlinks: int, jts: Optional[Dict[int, str]] = None):
        from mloda.core.abstract_plugins.components.link import Link, JoinSpec, JoinType
        from mloda.core.abstract_plugins.components.index.index import Index

        self.fws = [F.FW_SHORT[k] for k in ("pa", "pd", "py", "pa2", "pa3", "pa4", "pa5")]
        if not hasattr(World, "_fgs"):
            uid = F.uniq("")
            World._fgs = (F.make_group(f"LkA{uid}", root_data={"a": [1]}, index_columns=[("a",)], frameworks={self.fws[0]}),
                          F.make_group(f"LkB{uid}", root_data={"b": [1]}, index_columns=[("b",)], frameworks={self.fws[0]}))  # fmt: skip
        a, b = World._fgs
        self.jts = jts or {}
        self.links = []
        for i in range(nlinks):
            jt = self.jts.get(i, "other")
            mk = Link.right if jt == "right" else (Link.inner if i % 2 == 0 else Link.left)
            l = mk(JoinSpec(a, Index((f"l{i}",))), JoinSpec(b, Index((f"r{i}",))))
            if jt == "invalid":
                l.jointype = "no-join-type"  # type: ignore[assignment]
            self.links.append(l)
        self.link_no = {l.uuid: i for i, l in enumerate(self.links)}

    def key(self, k: List[int]) -> Tuple[Any, Any, Any]:
        return (self.links[k[0]], self.fws[k[1]], self.fws[k[2]])

    def unkey(self, k: Tuple[Any, Any, Any]) -> List[int]:
        return [self.link_no[k[0].uuid], self.fws.index(k[1]), self.fws.index(k[2])]

    def jt_table(self) -> List[List[Any]]:
        return [[i, self.jts.get(i, "other")] for i in range(len(self.links))]

    def unu(self, u: UUID) -> int:
        return unU(u)

    def lno(self, u: UUID) -> int:
        return self.link_no[u]


def U(n: int) -> UUID:
    return UUID(int=n + 1)


def unU(u: UUID) -> int:
    return u.int - 1


def err_of(e: BaseException) -> str:
    if isinstance(e, KeyError):
        return "KeyError"
    msg = str(e)
    if "This jointype is not implemented" in msg:
        msg = "This jointype is not implemented"
    return f"{type(e).__name__}: {msg}"


def dump_state(t: Any, w: Any) -> Dict[str, Any]:
    """Canonical state of a real LinkTrekker: dict orders kept, sets sorted, uuids -> numbers (`w`: World or Namer)."""
    data = [[w.unkey(k), sorted(w.unu(u) for u in v)] for k, v in t.data.items()]
    dord = [[w.unkey(k), (dict.get(t.data, k) is v), sorted(w.unu(u) for u in v)] for k, v in t.data_ordered.items()]
    order = [[w.lno(k), sorted(w.lno(x) for x in v)] for k, v in t.order.items()]
    return {"data": data, "dord": dord, "order": order}


def canon_state(s: Dict[str, Any]) -> Dict[str, Any]:
    return {"data": [[k, sorted(v)] for k, v in s.get("data", [])], "dord": [[k, bool(a), sorted(v)] for k, a, v in s.get("dord", [])],
            "order": [[k, sorted(v)] for k, v in s.get("order", [])]}  # fmt: skip


def real_op(t: Any, w: World, op: List[Any]) -> str:
    try:
        n = op[0]
        if n == "update":
            t.update(w.key(op[1]), U(op[2]))
        elif n == "invert":
            k = w.key(op[1])
            t.invert_link(k[0], k[1], k[2], U(op[2]))
        elif n == "order_links":
            t.order_links_by_frameworks()
        elif n == "order_raw":
            saved = t.drop_dependency_in_case_of_circular_dependencies
            t.drop_dependency_in_case_of_circular_dependencies = lambda: None
            try:
                t.order_links_by_frameworks()
            finally:
                del t.drop_dependency_in_case_of_circular_dependencies
                assert t.drop_dependency_in_case_of_circular_dependencies == saved
        elif n == "drop_circular":
            t.drop_dependency_in_case_of_circular_dependencies()
        elif n == "reorder":
            t.order_ordered_ids_by_relation()
        elif n == "create":
            t.create_data_ordered()
        elif n == "get_ordered":
            t.get_ordered_data()
        else:
            raise AssertionError(n)
        return "ok"
    except (ValueError, KeyError) as e:
        return err_of(e)


# ------------------------------------------------------------------------------------------------------------------
# generators


def gen_keys(rng: Any) -> Tuple[int, List[List[int]]]:
    """Trekker keys [link, left fw, right fw]: chains, stars, rings, random, plus second keys of one link."""
    shape = rng.choice(["chain", "chain", "rchain", "star", "instar", "ring", "random", "random", "samefw", "two"])
    n = rng.randint(2, 6) if shape != "two" else 2
    nf = rng.randint(2, 6)
    keys: List[List[int]] = []
    if shape == "chain":
        keys = [[i, i % 7, (i + 1) % 7] for i in range(n)]
    elif shape == "rchain":
        keys = [[i, (i + 1) % 7, i % 7] for i in range(n)]
    elif shape == "star":
        keys = [[i, 0, 1 + (i % 6)] for i in range(n)]
    elif shape == "instar":
        keys = [[i, 1 + (i % 6), 0] for i in range(n)]
    elif shape == "ring":
        keys = [[i, i % n, (i + 1) % n] for i in range(n)]
    elif shape == "samefw":
        keys = [[i, 0, 0] for i in range(n)]
    else:
        keys = [[i, rng.randrange(nf), rng.randrange(nf)] for i in range(n)]
    if rng.random() < 0.35:
        for _ in range(rng.randint(1, 2)):
            k = list(rng.choice(keys))
            r = rng.random()
            if r < 0.4:
                k = [k[0], k[2], k[1]]
            elif r < 0.7:
                k = [k[0], k[1], rng.randrange(nf)]
            else:
                k = [k[0], rng.randrange(nf), k[2]]
            if k not in keys:
                keys.append(k)
    if rng.random() < 0.3:
        # a few pairs that wait for each other (2-cycles of the order relation)
        a, b = rng.sample(range(n), 2)
        fa, fb = rng.sample(range(7), 2)
        keys = [k for k in keys if k[0] not in (a, b)] + [[a, fa, fb], [b, fb, fa]]
    rng.shuffle(keys)
    return n, keys


def gen_updates(rng: Any, keys: List[List[int]], nu: int = 8) -> List[List[Any]]:
    ops = []
    for k in keys:
        for u in rng.sample(range(nu), rng.randint(1, 3)):
            ops.append(["update", k, u])
    if rng.random() < 0.5:
        rng.shuffle(ops)
    return ops


# ------------------------------------------------------------------------------------------------------------------
# function level: LinkTrekker


def relation_oracle(keys: List[List[int]], order: List[List[Any]], dropped: bool) -> Optional[str]:
    """Statement of C04.order_relation_iff / C04.drop_circular_no_two_cycles evaluated on the real result: `l in order[k]` iff some
    key of l has as right framework the left framework of some key of k (and that is not also l's left framework); after the
    dropping pass no two links wait for each other and only edges of such pairs are missing."""
    want = {(ok[0], tk[0]) for tk in keys for ok in keys if tk[0] != ok[0] and tk[2] == ok[1] and ok[1] != tk[1]}
    got = {(k, l) for k, v in order for l in v}
    if len({k for k, _ in order}) != len(order):
        return "a key occurs twice in order"
    if not got <= want:
        return f"edges {sorted(got - want)} are not justified by the frameworks of the links"
    if not dropped:
        return None if got == want else f"edges {sorted(want - got)} are missing"
    for a, b in got:
        if (b, a) in got and a != b:
            return f"links {a} and {b} still wait for each other"
    for a, b in want - got:
        if (b, a) not in want:
            return f"edge {(a, b)} was dropped although it is on no 2-cycle"
    for a, b in want:
        if (b, a) in want and (a, b) not in got and (b, a) not in got:
            return f"both directions between {a} and {b} were dropped"
    return None


def trekker_suite(ctx: Ctx, n: int) -> None:
    from mloda.core.prepare.resolve_links import LinkTrekker

    reqs, impls = [], []
    for _ in range(n):
        nl, keys = gen_keys(ctx.rng)
        w = World(nl)
        ops = gen_updates(ctx.rng, keys)
        style = ctx.rng.choice(["whole", "whole", "pieces", "raw", "malformed"])
        if style == "whole":
            ops.append(["get_ordered"])
        elif style == "pieces":
            ops += [["order_links"], ["reorder"], ["create"]]
        elif style == "raw":
            ops += [["order_raw"], ["drop_circular"], ["reorder"], ["create"]]
        else:
            tail = [["get_ordered"], ["create"], ["reorder"], ["order_links"], ["update", ctx.rng.choice(keys), ctx.rng.randrange(8)],
                    ["invert", ctx.rng.choice(keys), ctx.rng.randrange(8)], ["update", [0, 5, 6], 1]]  # fmt: skip
            ops += [ctx.rng.choice(tail) for _ in range(ctx.rng.randint(1, 5))]
        t = LinkTrekker()
        outs = []
        for i, op in enumerate(ops):
            r = real_op(t, w, op)
            outs.append(r)
            if r == "ok" and op[0] in ("order_raw", "order_links") and all(o[0] == "update" for o in ops[:i]):
                bad_rel = relation_oracle([w.unkey(k) for k in t.data], dump_state(t, w)["order"], dropped=op[0] == "order_links")
                if bad_rel:
                    ctx.violation("links_trekker", {"ops": ops[: i + 1]}, "order_links_by_frameworks on a fresh trekker: " + bad_rel, dump_state(t, w)["order"], None)
            if r == "ok" and op[0] in ("get_ordered", "create") and not any(o[0] in ("get_ordered", "create", "invert") for o in ops[:i]):
                # C04.data_ordered_priority: links named by `order` first
                st_ = dump_state(t, w)
                okeys = {k for k, _ in st_["order"]}
                seen_rest = False
                for k, _a, _u in st_["dord"]:
                    if k[0] not in okeys:
                        seen_rest = True
                    elif seen_rest:
                        ctx.violation("links_trekker", {"ops": ops[: i + 1]}, "create_data_ordered (first call): a key whose link is not in order precedes a key whose link is", [k for k, _a, _u in st_["dord"]], sorted(okeys))
                        break
            if r == "ok" and op[0] in ("get_ordered", "create"):
                # oracle (property text): what `get_ordered_data` hands on covers every link of `data` exactly once
                dk = sorted(map(json.dumps, (w.unkey(k) for k in t.data)))
                ok_ = sorted(map(json.dumps, (w.unkey(k) for k in t.data_ordered)))
                if dk != ok_:
                    ctx.violation("links_trekker", {"ops": ops[: i + 1]}, "data_ordered does not hold exactly the keys of data after create_data_ordered", ok_, dk)
            if r != "ok":
                ops = ops[: i + 1]
                break
        else:
            # inversions of existing (key, uuid) pairs, now and then of a missing pair; then the second ordering pass of `links`
            extra: List[List[Any]] = []
            for _k in range(ctx.rng.randint(0, 4)):
                st = dump_state(t, w)
                if not st["dord"]:
                    break
                k, _a, us = ctx.rng.choice(st["dord"])
                u = ctx.rng.choice(us) if us and ctx.rng.random() < 0.9 else ctx.rng.randrange(8)
                op = ["invert", k, u] if ctx.rng.random() < 0.9 else ["update", k, ctx.rng.randrange(8)]
                r = real_op(t, w, op)
                extra.append(op)
                outs.append(r)
                if r == "ok" and op[0] == "invert":
                    # docstring / comment of invert_link: "if data is not there, we plug it behind the existing link"; the uuid moves
                    bk = [x[0] for x in st["dord"]]
                    ak = [x[0] for x in dump_state(t, w)["dord"]]
                    newk = [k[0], k[2], k[1]]
                    if newk not in bk and k != newk:
                        want = bk.index(k) + (1 if k in ak else 0)
                        if newk not in ak or ak.index(newk) != want:
                            ctx.violation("links_trekker", {"ops": ops + extra}, "invert_link did not plug the inverted key directly behind the existing one", ak, want)
                    da = {json.dumps(x[0]): x[1] for x in dump_state(t, w)["data"]}
                    if k != newk and (u not in da.get(json.dumps(newk), []) or u in da.get(json.dumps(k), [])):
                        ctx.violation("links_trekker", {"ops": ops + extra}, "invert_link did not move the uuid from the key to the inverted key", da, None)
                if r != "ok":
                    break
            if all(o == "ok" for o in outs) and ctx.rng.random() < 0.7:
                op = ["order_links"]
                outs.append(real_op(t, w, op))
                extra.append(op)
            ops = ops + extra
        impl = {"outs": outs, "state": dump_state(t, w) if outs[-1] == "ok" else None}
        case = {"ops": ops}
        ninv = sum(1 for o in ops if o[0] == "invert")
        ctx.case("links_trekker", case, len(keys) >= 3 or ninv > 0, lt_style=style, lt_outcome="ok" if outs[-1] == "ok" else outs[-1].split(":")[0], lt_inverts=min(ninv, 3))
        reqs.append({"op": "C04_links.trek", "state": {}, "ops": ops})
        impls.append(impl)
    for rq, im, o in zip(reqs, impls, ctx.driver(DRV).batch(reqs)):
        model = {"outs": o.get("outs"), "state": canon_state(o.get("state", {})) if (o.get("outs") or ["x"])[-1] == "ok" else None}
        if model != im:
            ctx.disagree("links_trekker", rq, im, model)


# ------------------------------------------------------------------------------------------------------------------
# function level: add_links_to_queue


def build_trekker(w: World, ops: List[List[Any]]) -> Any:
    from mloda.core.prepare.resolve_links import LinkTrekker

    t = LinkTrekker()
    for op in ops:
        r = real_op(t, w, op)
        assert r == "ok", (op, r)
    return t


def addq_oracle(ordered: List[Tuple[List[int], List[int]]], queue: List[int], out: List[Any]) -> Optional[str]:
    """From the text: the uuid queue is kept; every link some queued feature depends on is inserted exactly once, before the
    first queued feature that depends on it (and after the feature before that one); no other link is inserted."""
    if [x[1] for x in out if x[0] == "u"] != queue:
        return "the uuid queue was changed"
    links = [json.dumps(x[1]) for x in out if x[0] == "l"]
    if len(set(links)) != len(links):
        return "a link was inserted twice"
    for k, us in ordered:
        users = [i for i, u in enumerate(queue) if u in us]
        kk = json.dumps(k)
        if not users:
            if kk in links:
                return "a link nobody in the queue depends on was inserted"
            continue
        if kk not in links:
            return "a link with a queued dependant was not inserted"
        pos = out.index(["l", k])
        first_user = queue[users[0]]
        after = [x for x in out[pos:] if x[0] == "u"]
        before = [x for x in out[:pos] if x[0] == "u"]
        if not after or after[0][1] != first_user or len(before) != users[0]:
            return "a link is not placed directly before its first dependant"
    return None


def addq_suite(ctx: Ctx, n: int) -> None:
    from mloda.core.prepare.resolve_links import ResolveLinks

    reqs, impls = [], []
    for _ in range(n):
        nl, keys = gen_keys(ctx.rng)
        w = World(nl)
        ops = gen_updates(ctx.rng, keys)
        t = build_trekker(w, ops)
        before = dump_state(t, w)
        queue = ctx.rng.sample(range(10), ctx.rng.randint(0, 9))
        rl = ResolveLinks(SimpleNamespace(queue=[U(u) for u in queue]), None)  # type: ignore[arg-type]
        rl.link_trekker = t
        try:
            out = rl.add_links_to_queue()
            res: Dict[str, Any] = {"out": [["u", unU(x)] if isinstance(x, UUID) else ["l", w.unkey(x)] for x in out], "state": dump_state(t, w)}
        except (ValueError, KeyError) as e:
            res = {"err": err_of(e)}
        case = {"state": before, "queue": queue}
        if "out" in res:
            bad = addq_oracle([(k, us) for k, _a, us in res["state"]["dord"]], queue, res["out"])
            if bad:
                ctx.violation("links_addq", case, "add_links_to_queue: " + bad, res["out"], None)
        else:
            # C04.order_links_ok / C04.data_ordered_ok: on a fresh trekker nothing in get_ordered_data can raise
            ctx.violation("links_addq", case, "add_links_to_queue raised on a freshly filled trekker: " + res["err"], res, "a queue")
        ctx.case("links_addq", case, sum(1 for x in res.get("out", []) if x[0] == "l") >= 2, aq_links=min(4, sum(1 for x in res.get("out", []) if x[0] == "l")), aq_outcome="ok" if "out" in res else res["err"][:20])
        reqs.append({"op": "C04_links.addLinks", **case})
        impls.append(res)
    for rq, im, o in zip(reqs, impls, ctx.driver(DRV).batch(reqs)):
        model = {"err": o["err"]} if "err" in o else {"out": o.get("out"), "state": canon_state(o.get("state", {}))}
        if model != im:
            ctx.disagree("links_addq", rq, im, model)


# ------------------------------------------------------------------------------------------------------------------
# function level: order_queue_by_trekker_order  (+ the recorded iteration orders of issue_collector's sets)


class RecSet(set):  # type: ignore[type-arg]
    log: List[Tuple[Any, List[Any]]] = []
    tag: Any = None

    def __iter__(self) -> Any:
        items = list(set.__iter__(self))
        RecSet.log.append((self.tag, items))
        return iter(items)


class RecDD(defaultdict):  # type: ignore[type-arg]
    """defaultdict whose default values are sets that remember under which key they were created and log every iteration."""

    def __missing__(self, key: Any) -> Any:
        s = RecSet()
        s.tag = key
        self[key] = s
        return s


class recording:
    """Within the block `issue_collector` of order_queue_by_trekker_order is a RecDD (check process only)."""

    def __enter__(self) -> "recording":
        import mloda.core.prepare.resolve_compute_frameworks as rcf

        self.rcf = rcf
        self.saved = rcf.defaultdict
        rcf.defaultdict = RecDD  # type: ignore[misc,assignment]
        RecSet.log = []
        return self

    def __exit__(self, *a: Any) -> None:
        self.rcf.defaultdict = self.saved  # type: ignore[misc]

    def ords(self, link_no: Any, unkey: Any) -> List[List[Any]]:
        seen: Dict[int, List[Any]] = {}
        for tag, items in RecSet.log:
            seen[link_no(tag)] = [unkey(x) for x in items]
        return [[k, v] for k, v in seen.items()]


def orderq_oracle(orders: List[List[Any]], queue: List[Any], out: List[Any]) -> Tuple[Optional[str], Dict[str, int]]:
    """Clauses the function always owes (violation when broken) and the counts of lost / doubled links."""
    fg_in = [x for x in queue if x[0] == "f"]
    fg_out = [x for x in out if x[0] == "f"]
    bad = None
    if fg_in != fg_out:
        bad = "feature-group entries were dropped, added or reordered"
    lin = [json.dumps(x) for x in queue if x[0] == "l"]
    lout = [json.dumps(x) for x in out if x[0] == "l"]
    if any(x not in lin for x in lout):
        bad = "a link entry that was not in the queue appears in the result"
    # a link never precedes a link it has to wait for
    seen_ids: set = set()  # type: ignore[type-arg]
    for x in out:
        if x[0] == "l":
            for k, v in orders:
                if x[1][0] in v and k not in seen_ids:
                    bad = "a link entry precedes every entry of a link it waits for"
            seen_ids.add(x[1][0])
    lost = sum(1 for x in set(lin) if x not in lout)
    dup = sum(1 for x in set(lout) if lout.count(x) > lin.count(x))
    return bad, {"lost": lost, "dup": dup}


def depth1_class(orders: List[List[Any]], queue: List[Any]) -> bool:
    """Hypothesis of C04.link_queue_perm_partial (decidable): link ids of the queue pairwise different; every link id is a
    member of at most one set; no key with members is itself a member; every awaited key is a link of the queue."""
    ids = [x[1][0] for x in queue if x[0] == "l"]
    if len(set(ids)) != len(ids):
        return False
    keys = [k for k, _ in orders]
    if len(set(keys)) != len(keys):
        return False
    for u in ids:
        if sum(1 for _k, v in orders if u in v) > 1:
            return False
    for k, v in orders:
        if v and any(k in v2 for _k2, v2 in orders):
            return False
        if any(u in v for u in ids) and k not in ids:
            return False
    return True


def call_orderq(w: World, orders: List[List[Any]], queue: List[Any]) -> Tuple[List[Any], List[List[Any]]]:
    from mloda.core.prepare.resolve_compute_frameworks import ResolveComputeFrameworks

    od: "OrderedDict[Any, Any]" = OrderedDict()
    for k, v in orders:
        od[w.links[k].uuid] = {w.links[x].uuid for x in v}
    fg_cls = {}

    def el(x: List[Any]) -> Any:
        if x[0] == "l":
            return w.key(x[1])
        fg_cls.setdefault(x[1], type(f"Fg{x[1]}", (), {}))
        return (fg_cls[x[1]], frozenset())

    pq = [el(x) for x in queue]
    rcf = ResolveComputeFrameworks(None)  # type: ignore[arg-type]
    with recording() as rec:
        out = rcf.order_queue_by_trekker_order(pq, SimpleNamespace(order=od))
        ords = rec.ords(lambda u: w.link_no[u], w.unkey)
    inv = {v: k for k, v in fg_cls.items()}
    res = [["l", w.unkey(x)] if not isinstance(x[0], type) else ["f", inv[x[0]]] for x in out]
    return res, ords


def gen_orders(rng: Any, nl: int) -> List[List[Any]]:
    style = rng.choice(["chain", "star", "instar", "random", "random", "sparse", "empty"])
    rel: Dict[int, List[int]] = {}
    ids = list(range(nl))
    if style == "chain":
        p = ids[:]
        rng.shuffle(p)
        for a, b in zip(p, p[1:]):
            rel.setdefault(a, []).append(b)
    elif style == "star":
        c = rng.choice(ids)
        rel[c] = [x for x in ids if x != c and rng.random() < 0.8]
    elif style == "instar":
        c = rng.choice(ids)
        for x in ids:
            if x != c and rng.random() < 0.8:
                rel.setdefault(x, []).append(c)
    elif style in ("random", "sparse"):
        pr = 0.35 if style == "random" else 0.15
        for a in ids:
            for b in ids:
                if (a != b or rng.random() < 0.05) and rng.random() < pr:
                    rel.setdefault(a, []).append(b)
    items = [[k, v] for k, v in rel.items()]
    rng.shuffle(items)
    return items


def orderq_suite(ctx: Ctx, n: int) -> None:
    reqs, impls = [], []
    for _ in range(n):
        nl = ctx.rng.randint(1, 6)
        w = World(nl)
        orders = gen_orders(ctx.rng, nl)
        queue: List[Any] = []
        for i in range(nl):
            if ctx.rng.random() < 0.9:
                queue.append(["l", [i, ctx.rng.randrange(3), ctx.rng.randrange(3)]])
                if ctx.rng.random() < 0.12:
                    queue.append(["l", [i, ctx.rng.randrange(3), 3]])  # a second trekker key of the same link
        for f in range(ctx.rng.randint(0, 4)):
            queue.append(["f", f])
        ctx.rng.shuffle(queue)
        out, ords = call_orderq(w, orders, queue)
        case = {"orders": orders, "queue": queue, "ords": ords}
        bad, cnt = orderq_oracle(orders, queue, out)
        if bad:
            ctx.violation("links_orderq", case, "order_queue_by_trekker_order: " + bad, out, None)
        d1 = depth1_class(orders, queue)
        if d1 and (cnt["lost"] or cnt["dup"]):
            ctx.violation("links_orderq", case, "order_queue_by_trekker_order lost or doubled a link although every link waits for at most one, never-waiting, present link", out, None)
        ctx.case("links_orderq", case, out != queue, oq_depth1=d1, oq_lost=min(cnt["lost"], 3), oq_dup=min(cnt["dup"], 3), oq_moved=out != queue)
        reqs.append({"op": "C04_links.orderQueue", **case})
        impls.append(out)
    for rq, im, o in zip(reqs, impls, ctx.driver(DRV).batch(reqs)):
        if o.get("out") != im:
            ctx.disagree("links_orderq", rq, im, o.get("out"))


# ------------------------------------------------------------------------------------------------------------------
# function level: resolve_trekked_links and links (whole)


def resolve_suite(ctx: Ctx, n: int) -> None:
    from mloda.core.prepare.resolve_compute_frameworks import ResolveComputeFrameworks

    reqs, impls = [], []
    for _ in range(n):
        nl = ctx.rng.randint(1, 4)
        jts = {i: ctx.rng.choice(["other", "other", "right", "right"] + (["invalid"] if ctx.rng.random() < 0.15 else [])) for i in range(nl)}
        w = World(nl, jts)
        trekked = [[ctx.rng.randrange(nl), ctx.rng.randrange(4), ctx.rng.randrange(4)] for _ in range(ctx.rng.randint(0, 4))]
        cfws = ctx.rng.sample(range(4), ctx.rng.randint(0, 3))
        rcf = ResolveComputeFrameworks(None)  # type: ignore[arg-type]
        try:
            new = rcf.resolve_trekked_links([w.key(k) for k in trekked], {w.fws[c] for c in cfws})
            res: Dict[str, Any] = {"new": sorted(w.fws.index(c) for c in new), "inv": [w.unkey(k) for k in rcf.to_invert_trekker_collection]}
        except ValueError as e:
            res = {"err": err_of(e)}
        case = {"jt": w.jt_table(), "trekked": trekked, "cfws": cfws, "inv": []}
        # oracle: the frameworks chosen for the consumer are frameworks of the links' sides, each link contributes at most one
        if "new" in res and not set(res["new"]) <= {k[1] for k in trekked} | {k[2] for k in trekked}:
            ctx.violation("links_resolve", case, "resolve_trekked_links returned a framework that is on no side of the trekked links", res, None)
        ctx.case("links_resolve", case, "new" in res and bool(res["inv"]), rs_outcome="ok" if "new" in res else res["err"][:40], rs_inv=len(res.get("inv", [])))
        reqs.append({"op": "C04_links.resolve", **case})
        impls.append(res)
    for rq, im, o in zip(reqs, impls, ctx.driver(DRV).batch(reqs)):
        model = {"err": o["err"]} if "err" in o else {"new": sorted(o.get("new", [])), "inv": o.get("inv")}
        if model != im:
            ctx.disagree("links_resolve", rq, im, model)


def call_links(w: World, t: Any, queue: List[Any]) -> Tuple[Dict[str, Any], List[Any], List[List[Any]]]:
    """Run the real `links` on a planned queue given as [["f", id, [[uuid, [cfw..]]..]] | ["l", key]]; returns (result, the
    queue as the code saw it (features in the iteration order of the real set), recorded iteration orders)."""
    from mloda.core.abstract_plugins.components.feature import Feature
    from mloda.core.prepare.resolve_compute_frameworks import ResolveComputeFrameworks

    fg_cls: Dict[int, Any] = {}
    feats: Dict[int, List[Any]] = {}
    pq = []
    seen_q = []
    for x in queue:
        if x[0] == "l":
            pq.append(w.key(x[1]))
            seen_q.append(x)
            continue
        fg_cls.setdefault(x[1], type(f"Fg{x[1]}", (), {}))
        fs = set()
        for u, cf in x[2]:
            f = Feature(f"lkf{u}")
            f.uuid = U(u)
            f.compute_frameworks = {w.fws[c] for c in cf}
            fs.add(f)
        feats[x[1]] = list(fs)  # the order `next(iter(..))` and `for f in p[1]` will see
        pq.append((fg_cls[x[1]], fs))
        seen_q.append(["f", x[1], [[unU(f.uuid), sorted(w.fws.index(c) for c in f.compute_frameworks)] for f in feats[x[1]]]])
    rcf = ResolveComputeFrameworks(None)  # type: ignore[arg-type]
    inv = {v: k for k, v in fg_cls.items()}
    with recording() as rec:
        try:
            out = rcf.links(pq, t)
            res: Dict[str, Any] = {"out": [["l", w.unkey(x)] if not isinstance(x[0], type) else
                                           ["f", inv[x[0]], [[unU(f.uuid), sorted(w.fws.index(c) for c in f.compute_frameworks)] for f in feats[inv[x[0]]]]] for x in out],
                                   "state": dump_state(t, w)}  # fmt: skip
        except (ValueError, KeyError, StopIteration) as e:
            res = {"err": err_of(e)}
        ords = rec.ords(lambda u: w.link_no[u], w.unkey)
    return res, seen_q, ords


def left_side_oracle(jt: List[List[Any]], qin: List[Any], res: Dict[str, Any]) -> Optional[str]:
    """From the comments of resolve_trekked_links / invert_link ("we keep the left framework if possible", a link whose right side
    was chosen is inverted): after `links`, the feature that was used to resolve an entry runs on the LEFT framework of every
    non-RIGHT trekker key it depends on, provided one side of that key was among its frameworks."""
    if "out" not in res:
        return None
    jtd = {i: j for i, j in jt}
    before = {x[1]: x[2][0] for x in qin if x[0] == "f" and x[2]}
    for x in res["out"]:
        if x[0] != "f" or not x[2] or x[1] not in before:
            continue
        u, cf_after = x[2][0]
        cf_before = before[x[1]][1]
        for k, _a, us in res["state"]["dord"]:
            if u in us and jtd.get(k[0], "other") == "other" and (k[1] in cf_before or k[2] in cf_before) and k[1] not in cf_after:
                return f"feature {u} depends on key {k} but does not run on its left framework {k[1]} (frameworks {cf_after})"
    return None


def canon_links_out(o: Dict[str, Any]) -> Dict[str, Any]:
    if "err" in o:
        return {"err": o["err"]}
    out = [[x[0], x[1], [[u, sorted(c)] for u, c in x[2]]] if x[0] == "f" else x for x in o.get("out", [])]
    return {"out": out, "state": canon_state(o.get("state", {}))}


def full_suite(ctx: Ctx, n: int) -> None:
    from mloda.core.prepare.resolve_links import ResolveLinks

    reqs, impls = [], []
    for _ in range(n):
        nl, keys = gen_keys(ctx.rng)
        jts = {i: ctx.rng.choice(["other", "other", "other", "right"] + (["invalid"] if ctx.rng.random() < 0.05 else [])) for i in range(nl)}
        w = World(nl, jts)
        nu = 8
        t = build_trekker(w, gen_updates(ctx.rng, keys, nu))
        # feature groups: a partition of the uuids; each feature's frameworks drawn around the frameworks of the links it depends on
        us = list(range(nu))
        ctx.rng.shuffle(us)
        groups: List[List[int]] = []
        while us:
            g, us = us[: ctx.rng.randint(1, 3)], us[3:]
            groups.append(g)
        rl = ResolveLinks(SimpleNamespace(queue=[U(u) for g in groups for u in g]), None)  # type: ignore[arg-type]
        rl.link_trekker = t
        try:
            lq = rl.add_links_to_queue()
        except (ValueError, KeyError):
            continue
        st = dump_state(t, w)
        dep_fws: Dict[int, List[int]] = {}
        for k, _a, uu in st["dord"]:
            for u in uu:
                dep_fws.setdefault(u, []).extend([k[1], k[2]])
        queue: List[Any] = []
        done: set = set()  # type: ignore[type-arg]
        for x in lq:
            if not isinstance(x, UUID):
                queue.append(["l", w.unkey(x)])
                continue
            u = unU(x)
            if u in done:
                continue
            gi = next(i for i, g in enumerate(groups) if u in g)
            fl = []
            for v in groups[gi]:
                pool = dep_fws.get(v, []) or [0, 1]
                r = ctx.rng.random()
                cf = [ctx.rng.choice(pool)] if r < 0.6 else (sorted(set(pool)) if r < 0.9 else [ctx.rng.randrange(7)])
                fl.append([v, cf])
            queue.append(["f", gi, fl])
            done.update(groups[gi])
        res, seen_q, ords = call_links(w, t, queue)
        case = {"jt": w.jt_table(), "state": st, "queue": seen_q, "ords": ords}
        nlinks = sum(1 for x in seen_q if x[0] == "l")
        moved = "out" in res and [x[:2] for x in res["out"]] != [x[:2] for x in seen_q]
        inverted = "out" in res and [k for k, _a, _u in res["state"]["dord"]] != [k for k, _a, _u in st["dord"]]
        bad_ls = left_side_oracle(case["jt"], seen_q, res)
        if bad_ls:
            ctx.violation("links_full", case, "links(): " + bad_ls, res.get("out"), None)
        ctx.case("links_full", case, nlinks >= 2 and (moved or inverted), lf_outcome="ok" if "out" in res else res["err"][:40], lf_moved=moved, lf_inverted=inverted)
        reqs.append({"op": "C04_links.links", **case})
        impls.append(res)
    for rq, im, o in zip(reqs, impls, ctx.driver(DRV).batch(reqs)):
        if canon_links_out(o) != canon_links_out(im):
            ctx.disagree("links_full", rq, canon_links_out(im), canon_links_out(o))


# ------------------------------------------------------------------------------------------------------------------
# end to end: real prepared requests; inputs / outputs of the three functions captured by wrappers (check process only)


class Namer:
    """uuids / links / frameworks / feature-group classes of one preparation -> numbers in order of first occurrence."""

    def __init__(self) -> None:
        self.u: Dict[Any, int] = {}
        self.l: Dict[Any, int] = {}
        self.f: Dict[Any, int] = {}
        self.g: Dict[Any, int] = {}
        self.jt: Dict[int, str] = {}

    def unu(self, u: Any) -> int:
        return self.u.setdefault(u, len(self.u))

    def lno(self, u: Any) -> int:
        return self.l.setdefault(u, len(self.l))

    def fw(self, c: Any) -> int:
        return self.f.setdefault(c, len(self.f))

    def grp(self, c: Any) -> int:
        return self.g.setdefault(c, len(self.g))

    def unkey(self, k: Any) -> List[int]:
        from mloda.core.abstract_plugins.components.link import JoinType

        i = self.lno(k[0].uuid)
        self.jt[i] = "right" if k[0].jointype == JoinType.RIGHT else ("other" if k[0].jointype in JoinType else "invalid")
        return [i, self.fw(k[1]), self.fw(k[2])]

    def jt_table(self) -> List[List[Any]]:
        return [[i, j] for i, j in sorted(self.jt.items())]


class capture:
    """Wraps ResolveLinks.add_links_to_queue and ResolveComputeFrameworks.links for the duration of the block and records, per
    call, the canonical input, the canonical output (or exception) and the iteration orders of issue_collector's sets."""

    def __enter__(self) -> "capture":
        import mloda.core.prepare.resolve_links as rl
        import mloda.core.prepare.resolve_compute_frameworks as rc
        from mloda.core.abstract_plugins.components.link import Link

        self.rl, self.rc = rl, rc
        self.orig_add = rl.ResolveLinks.add_links_to_queue
        self.orig_links = rc.ResolveComputeFrameworks.links
        self.rec = recording().__enter__()
        self.records: List[Dict[str, Any]] = []
        self.nm = Namer()
        cap = self

        def add_wrapper(self_: Any) -> Any:
            cap.nm = nm = Namer()
            t = self_.link_trekker
            before = dump_state(t, nm)
            queue = [nm.unu(u) for u in self_.graph.queue]
            r: Dict[str, Any] = {"fn": "add", "state": before, "queue": queue}
            cap.records.append(r)
            try:
                out = cap.orig_add(self_)
            except BaseException as e:
                r["res"] = {"err": err_of(e)}
                raise
            r["res"] = {"out": [["u", nm.unu(x)] if isinstance(x, UUID) else ["l", nm.unkey(x)] for x in out], "state": dump_state(t, nm)}
            return out

        def links_wrapper(self_: Any, planned_queue: Any, link_trekker: Any) -> Any:
            nm = cap.nm
            before = dump_state(link_trekker, nm)
            order_of: Dict[int, List[Any]] = {}

            def view(q: Any) -> List[Any]:
                o = []
                for p in q:
                    if isinstance(p[0], Link):
                        o.append(["l", nm.unkey(p)])
                    else:
                        g = nm.grp(p[0])
                        order_of.setdefault(g, list(p[1]))  # iteration order of the real set, fixed before the call
                        o.append(["f", g, [[nm.unu(f.uuid), sorted(nm.fw(c) for c in (f.compute_frameworks or ()))] for f in order_of[g]]])
                return o

            qin = view(planned_queue)
            RecSet.log = []
            r: Dict[str, Any] = {"fn": "links", "state": before, "queue": qin}
            cap.records.append(r)
            try:
                out = cap.orig_links(self_, planned_queue, link_trekker)
            except BaseException as e:
                r["res"] = {"err": err_of(e)}
                r["jt"] = nm.jt_table()
                r["ords"] = []
                raise
            r["res"] = {"out": view(out), "state": dump_state(link_trekker, nm)}
            r["jt"] = nm.jt_table()
            seen: Dict[int, List[Any]] = {}
            for tag, items in RecSet.log:
                seen[nm.lno(tag)] = [nm.unkey(x) for x in items]
            r["ords"] = [[k, v] for k, v in seen.items()]
            return out

        rl.ResolveLinks.add_links_to_queue = add_wrapper  # type: ignore[method-assign]
        rc.ResolveComputeFrameworks.links = links_wrapper  # type: ignore[method-assign]
        return self

    def __exit__(self, *a: Any) -> None:
        self.rl.ResolveLinks.add_links_to_queue = self.orig_add  # type: ignore[method-assign]
        self.rc.ResolveComputeFrameworks.links = self.orig_links  # type: ignore[method-assign]
        self.rec.__exit__()


def gen_tree_spec(rng: Any) -> Dict[str, Any]:
    """3-6 sources on up to five frameworks joined by a random link tree (random orientation and join type); the consumer group
    has 1-3 features, each over the value columns of a connected subset of the sources.  Only prepared, never run."""
    uid = F.uniq("")
    n = rng.randint(3, 6)
    pool = rng.sample(["pa", "pd", "py", "pa2", "pa3", "pa4", "pa5"], rng.randint(1, 5))
    srcs = []
    for i in range(n):
        srcs.append({"name": f"S{uid}_{i}", "fw": rng.choice(pool), "key": f"k{uid}_{i}", "cols": {f"k{uid}_{i}": [1, 2], f"v{uid}_{i}": [i, i + 1]}})
    shape = rng.choice(["chain", "star", "tree", "tree"])
    pairs = []
    for i in range(1, n):
        j = i - 1 if shape == "chain" else (0 if shape == "star" else rng.randrange(i))
        pairs.append((j, i))
    jts = rng.choice([("inner",), ("inner", "left"), ("inner", "left", "outer"), ("inner", "left", "outer", "right")])
    links = []
    for a, b in pairs:
        if rng.random() < 0.4:
            a, b = b, a
        links.append({"type": rng.choice(jts), "left": a, "right": b})
    rng.shuffle(links)
    adj: Dict[int, List[int]] = {}
    for a, b in pairs:
        adj.setdefault(a, []).append(b)
        adj.setdefault(b, []).append(a)
    feats: Dict[str, Any] = {}
    for j in range(rng.randint(1, 3)):
        sub = [rng.randrange(n)]
        for _ in range(rng.randint(1, n - 1)):
            cand = [y for x in sub for y in adj.get(x, []) if y not in sub]
            if not cand:
                break
            sub.append(rng.choice(cand))
        if j == 0 and rng.random() < 0.6:
            sub = list(range(n))
        parents = [f"v{uid}_{i}" for i in sorted(sub)]
        expr: Any = ["col", parents[0]]
        for q in parents[1:]:
            expr = ["add", expr, ["col", q]]
        feats[f"z{uid}_{j}"] = {"parents": parents, "expr": expr}
    consumer = {"name": f"Z{uid}", "fw": rng.choice(pool), "features": feats}
    return {"sources": srcs, "links": links, "consumer": consumer, "request": [{"name": f, "options": {}} for f in feats], "tree": True}


def lost_link_class(orders: List[List[Any]], queue: List[Any], out: List[Any], u: int) -> Optional[str]:
    """Input class of ONE link (id `u`) that order_queue_by_trekker_order dropped, decided on the captured call only:
    `orders` = link_trekker.order the function read, `queue` / `out` = its planned queue before / after."""
    waits = {k: [x for x in v] for k, v in orders}

    def awaited(x: int) -> List[int]:
        return [k for k, v in waits.items() if x in v]

    # on a cycle of the wait-for relation?
    seen, todo = set(), list(awaited(u))  # type: ignore[var-annotated]
    while todo:
        k = todo.pop()
        if k == u:
            return "lost-link-on-wait-cycle"
        if k not in seen:
            seen.add(k)
            todo += awaited(k)
    ids_in = [x[1][0] for x in queue if x[0] == "l"]
    ids_out = [x[1][0] for x in out if x[0] == "l"]
    aw = awaited(u)
    if any(k not in ids_in for k in aw):
        return "lost-link-waits-for-absent-link"
    if len(aw) >= 2:
        return "lost-link-waits-for-two-links"
    if len(aw) == 1:
        k = aw[0]
        # the awaited link was itself filed as too early (or lost): its dependants are never looked at again
        if k not in ids_out or awaited(k):
            return "lost-link-waits-for-deferred-link"
    return None


def e2e_suite(ctx: Ctx, n: int) -> None:
    reqs, impls, kinds = [], [], []
    for i in range(n):
        r0 = ctx.rng.random()
        if r0 < 0.15:
            spec = S.gen_link_spec(ctx.rng)
        elif r0 < 0.3:
            spec = S.gen_long_chain_spec(ctx.rng)
        elif r0 < 0.4:
            spec = S.gen_star_spec(ctx.rng)
        elif r0 < 0.5:
            spec = S.gen_units_spec(ctx.rng)
        else:
            spec = gen_tree_spec(ctx.rng)
        with capture() as cap:
            try:
                if "units" in spec:
                    S.prepare_units(spec)
                else:
                    S.prepare_link(spec)
                outcome = "plan"
            except BaseException as e:  # a rejection is an outcome of planning, not of this check
                outcome = "rejected:" + type(e).__name__
        for r in cap.records:
            if "res" not in r:
                continue
            res = r["res"]
            if r["fn"] == "add":
                case = {"spec": spec, "state": r["state"], "queue": r["queue"]}
                nl = sum(1 for x in res.get("out", []) if x[0] == "l")
                if "err" in res:
                    ctx.violation("links_e2e", case, "add_links_to_queue raised on a real request (its trekker is fresh, nothing in get_ordered_data can raise): " + res["err"], res, "a queue")
                if "out" in res:
                    bad = addq_oracle([(k, us) for k, _a, us in res["state"]["dord"]], r["queue"], res["out"])
                    if bad:
                        ctx.violation("links_e2e", case, "add_links_to_queue on a real request: " + bad, res["out"], None)
                    # every link the request resolved (every key of the trekker) must be handed on
                    if {json.dumps(k) for k, _ in r["state"]["data"]} != {json.dumps(x[1]) for x in res["out"] if x[0] == "l"}:
                        ctx.violation("links_e2e", case, "a link resolved for the request is missing from the queue add_links_to_queue returns", res["out"], [k for k, _ in r["state"]["data"]])
                ctx.case("links_e2e", {"fn": "add", "state": r["state"], "queue": r["queue"]}, nl >= 2, e2e_fn="add", e2e_links=min(nl, 5), e2e_outcome=outcome.split(":")[0])
                reqs.append({"op": "C04_links.addLinks", "state": r["state"], "queue": r["queue"]})
                impls.append(res)
                kinds.append("add")
            else:
                case = {"spec": spec, "jt": r["jt"], "state": r["state"], "queue": r["queue"], "ords": r["ords"]}
                lin = [json.dumps(x) for x in r["queue"] if x[0] == "l"]
                moved = inverted = False
                if "out" in res:
                    lout = [json.dumps(x) for x in res["out"] if x[0] == "l"]
                    for x in r["queue"]:
                        if x[0] == "l" and json.dumps(x) not in lout:
                            ctx.violation("links_e2e", case, f"links(): the planned queue of a real request lost the link entry {x[1]}: no JoinStep is planned for it", res["out"], r["queue"],
                                          finding_class=lost_link_class(res["state"]["order"], r["queue"], res["out"], x[1][0]))  # fmt: skip
                    if len(lout) != len(set(lout)) or any(x not in lin for x in lout):
                        ctx.violation("links_e2e", case, "links(): the planned queue of a real request holds a link entry twice or a link entry that was not in the input", res["out"], r["queue"])
                    if [x for x in res["out"] if x[0] == "f" and x[:2] not in [y[:2] for y in r["queue"]]] or [x[:2] for x in res["out"] if x[0] == "f"] != [x[:2] for x in r["queue"] if x[0] == "f"]:
                        ctx.violation("links_e2e", case, "links(): feature-group entries of the planned queue were dropped or reordered", res["out"], r["queue"])
                    moved = [x[:2] for x in res["out"]] != [x[:2] for x in r["queue"]]
                    inverted = [k for k, _a, _u in res["state"]["dord"]] != [k for k, _a, _u in r["state"]["dord"]]
                    bad_ls = left_side_oracle(r["jt"], r["queue"], res)
                    if bad_ls:
                        ctx.violation("links_e2e", case, "links() on a real request: " + bad_ls, res["out"], None)
                ctx.case("links_e2e", {"fn": "links", "jt": r["jt"], "state": r["state"], "queue": r["queue"]}, len(lin) >= 2, e2e_fn="links", e2e_links=min(len(lin), 5), e2e_moved=moved, e2e_inverted=inverted,
                         e2e_deferred=bool(r["ords"]), e2e_res="ok" if "out" in res else res["err"][:40])  # fmt: skip
                reqs.append({"op": "C04_links.links", "jt": r["jt"], "state": r["state"], "queue": r["queue"], "ords": r["ords"]})
                impls.append(res)
                kinds.append("links")
    for rq, im, kd, o in zip(reqs, impls, kinds, ctx.driver(DRV).batch(reqs)):
        if kd == "add":
            model = {"err": o["err"]} if "err" in o else {"out": o.get("out"), "state": canon_state(o.get("state", {}))}
            if model != im:
                ctx.disagree("links_e2e", rq, im, model)
        elif canon_links_out(o) != canon_links_out(im):
            ctx.disagree("links_e2e", rq, canon_links_out(im), canon_links_out(o))


# ------------------------------------------------------------------------------------------------------------------
# the closed witnesses of Props/C04_links.lean replayed on the real functions, and the ring request end to end


def K(l: int, a: int, b: int) -> List[Any]:
    return ["l", [l, a, b]]


# (theorem, orders, queue, the value stated in the theorem)
ORDERQ_WITNESSES = [
    ("C04.link_queue_links_nodup_witness", [[5, [7]]], [K(7, 0, 1), K(5, 0, 1), K(5, 0, 2)], [K(5, 0, 1), K(7, 0, 1), K(5, 0, 2), K(7, 0, 1)]),
    ("C04.link_queue_drops_link_witness", [[0, [2]], [1, [2]]], [K(2, 0, 1), K(0, 1, 2), ["f", 7], K(1, 2, 3)], [K(0, 1, 2), ["f", 7], K(1, 2, 3)]),
    ("C04.link_queue_drops_chain_witness", [[1, [2]], [0, [1]]], [K(2, 0, 1), K(1, 1, 2), K(0, 2, 3)], [K(0, 2, 3), K(1, 1, 2)]),
    ("C04.link_queue_drops_cycle_witness", [[0, [1]], [1, [2]], [2, [0]]], [K(0, 0, 1), K(1, 1, 2), K(2, 2, 0), ["f", 3]], [["f", 3]]),
    ("C04.link_queue_dict_order_witness.1", [[0, [2]], [1, [2]]], [K(2, 0, 1), K(1, 2, 3), K(0, 1, 2)], [K(1, 2, 3), K(0, 1, 2), K(2, 0, 1)]),
    ("C04.link_queue_dict_order_witness.2", [[1, [2]], [0, [2]]], [K(2, 0, 1), K(1, 2, 3), K(0, 1, 2)], [K(1, 2, 3), K(0, 1, 2)]),
    ("example (Depth1, reordered)", [[0, [1, 2]]], [K(1, 0, 1), ["f", 9], K(2, 0, 1), K(0, 1, 2), ["f", 8]], None),
]

# (theorem, ops on a fresh trekker, what to read, the value stated in the theorem)
TREKKER_WITNESSES = [
    ("C04.order_links_three_cycle_witness", [["update", [0, 0, 1], 0], ["update", [1, 1, 2], 0], ["update", [2, 2, 0], 0], ["order_links"]], "order", [[1, [0]], [2, [1]], [0, [2]]]),
    ("C04.drop_circular_data_order_witness.1", [["update", [0, 0, 1], 0], ["update", [1, 1, 0], 0], ["order_links"]], "order", [[1, [0]], [0, []]]),
    ("C04.drop_circular_data_order_witness.2", [["update", [1, 1, 0], 0], ["update", [0, 0, 1], 0], ["order_links"]], "order", [[0, [1]], [1, []]]),
    ("C04.order_relation_key_order_witness.1", [["update", [0, 0, 1], 0], ["update", [1, 1, 2], 0], ["update", [2, 1, 3], 0], ["order_raw"]], "orderkeys", [1, 2]),
    ("C04.order_relation_key_order_witness.2", [["update", [0, 0, 1], 0], ["update", [2, 1, 3], 0], ["update", [1, 1, 2], 0], ["order_raw"]], "orderkeys", [2, 1]),
    ("C04.data_ordered_order_witness.1", [["update", [0, 0, 0], 4], ["update", [1, 0, 0], 4], ["create"]], "dordkeys", [[0, 0, 0], [1, 0, 0]]),
    ("C04.data_ordered_order_witness.2", [["update", [1, 0, 0], 4], ["update", [0, 0, 0], 4], ["create"]], "dordkeys", [[1, 0, 0], [0, 0, 0]]),
]

# (theorem, order before, order after order_ordered_ids_by_relation)
REORDER_WITNESSES = [
    ("C04.reorder_is_perm_witness", [[1, [8]], [2, [9]], [3, [1, 2]]], [[3, [1, 2]], [2, [9]]]),
    ("C04.reorder_misorders_chain_witness", [[1, []], [2, [1]], [3, [2]]], [[3, [2]], [1, []], [2, [1]]]),
    ("example (reorder, no collision)", [[3, [7]], [1, [3]], [2, []], [4, [2]]], [[1, [3]], [4, [2]], [3, [7]], [2, []]]),
]


def ring_spec() -> Dict[str, Any]:
    """Four sources on the three frameworks mloda ships, links S2->S3, S0->S1, S1->S2 whose frameworks form a ring
    (pandas -> python dict -> pyarrow -> pandas): every link waits for the next one round the ring."""
    uid = F.uniq("")
    fws = ["pd", "py", "pa", "pd"]
    srcs = [{"name": f"S{uid}_{i}", "fw": fws[i], "key": f"k{uid}_{i}", "cols": {f"k{uid}_{i}": [1, 2], f"v{uid}_{i}": [i, i + 1]}} for i in range(4)]
    links = [{"type": "left", "left": 2, "right": 3}, {"type": "left", "left": 0, "right": 1}, {"type": "inner", "left": 1, "right": 2}]
    return {"sources": srcs, "links": links, "consumer": {"name": f"Z{uid}", "fw": "pd", "feature": f"z{uid}", "parents": [f"v{uid}_{i}" for i in range(4)]}}


def witness_suite(ctx: Ctx) -> None:
    from mloda.core.prepare.resolve_links import LinkTrekker

    drv = ctx.driver(DRV)
    # order_queue_by_trekker_order: the model with insertion order = the value stated in the theorem; the real function = the
    # model with the iteration orders the real sets had
    reqs, reals = [], []
    for name, orders, queue, _exp in ORDERQ_WITNESSES:
        w = World(8)
        out, ords = call_orderq(w, orders, queue)
        reals.append(out)
        reqs.append({"op": "C04_links.orderQueue", "orders": orders, "queue": queue, "ords": []})
        reqs.append({"op": "C04_links.orderQueue", "orders": orders, "queue": queue, "ords": ords})
    mouts = drv.batch(reqs)
    for i, (name, orders, queue, exp) in enumerate(ORDERQ_WITNESSES):
        ctx.case("links_witness", {"theorem": name}, True, lw_kind="orderq")
        if exp is not None and mouts[2 * i].get("out") != exp:
            ctx.disagree("links_witness", {"theorem": name}, "value stated in the theorem: " + json.dumps(exp), mouts[2 * i].get("out"))
        if reals[i] != mouts[2 * i + 1].get("out"):
            ctx.disagree("links_witness", {"theorem": name, "orders": orders, "queue": queue}, reals[i], mouts[2 * i + 1].get("out"))
    # trekker witnesses
    for name, ops, what, exp in TREKKER_WITNESSES:
        w = World(3)
        t = LinkTrekker()
        outs = [real_op(t, w, op) for op in ops]
        st = dump_state(t, w)
        got = {"order": st["order"], "orderkeys": [k for k, _ in st["order"]], "dordkeys": [k for k, _a, _u in st["dord"]]}[what]
        ctx.case("links_witness", {"theorem": name}, True, lw_kind="trekker")
        if outs[-1] != "ok" or got != exp:
            ctx.disagree("links_witness", {"theorem": name, "ops": ops}, [outs, got], exp)
    # order_ordered_ids_by_relation on a given order
    for name, before, after in REORDER_WITNESSES:
        w = World(10)
        t = LinkTrekker()
        for k, v in before:
            t.order[w.links[k].uuid] = {w.links[x].uuid for x in v}
        t.order_ordered_ids_by_relation()
        got = dump_state(t, w)["order"]
        ctx.case("links_witness", {"theorem": name}, True, lw_kind="reorder")
        if got != after:
            ctx.disagree("links_witness", {"theorem": name, "order": before}, got, after)
    # the ring request: prepared (captured), its plan decided by the main C04 driver, and run under a watchdog in a child
    spec = ring_spec()
    with capture() as cap:
        try:
            sess = S.prepare_link(spec)
            outcome: Any = "plan"
        except BaseException as e:
            sess, outcome = None, "rejected:" + type(e).__name__
    rec = [r for r in cap.records if r["fn"] == "links" and "out" in r.get("res", {})]
    lost = []
    if rec:
        lout = [json.dumps(x) for x in rec[0]["res"]["out"] if x[0] == "l"]
        lost = [x for x in rec[0]["queue"] if x[0] == "l" and json.dumps(x) not in lout]
    njoin = None
    ran = None
    if sess is not None:
        exp_ = S.export_plan(sess)
        njoin = sum(1 for st_ in exp_["steps"] if st_["kind"] == "join")
        if lost:
            from harness.corr.c04 import run_in_child

            ran = run_in_child(spec, 6.0)
    ctx.case("links_witness", {"request": "framework ring", "outcome": outcome, "lost": len(lost), "joins": njoin, "run": ran}, True, lw_kind="ring", lw_ring=f"{outcome}/lost{len(lost)}/joins{njoin}/run:{ran}")
    for x in lost:
        ctx.violation("links_witness", {"spec": spec, "queue": rec[0]["queue"], "order": rec[0]["res"]["state"]["order"], "plan_join_steps": njoin, "run": ran},
                      f"links(): the planned queue of the framework-ring request lost the link entry {x[1]}; the accepted plan has {njoin} JoinStep(s) for 3 links and run_all ended as: {ran}",
                      rec[0]["res"]["out"], rec[0]["queue"], finding_class=lost_link_class(rec[0]["res"]["state"]["order"], rec[0]["queue"], rec[0]["res"]["out"], x[1][0]))  # fmt: skip


# ------------------------------------------------------------------------------------------------------------------


def run(ctx: Ctx) -> None:
    trekker_suite(ctx, ctx.budget(250, 6000))
    addq_suite(ctx, ctx.budget(150, 4000))
    orderq_suite(ctx, ctx.budget(300, 8000))
    resolve_suite(ctx, ctx.budget(150, 3000))
    full_suite(ctx, ctx.budget(150, 4000))
    e2e_suite(ctx, ctx.budget(120, 3000))
    witness_suite(ctx)


def search(ctx: Ctx, broken: List[str]) -> None:
    run(ctx)


def replay(ctx: Ctx, body: Dict[str, Any]) -> None:
    run(ctx)
