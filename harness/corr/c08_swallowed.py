"""C08 / swallowed - a failure raised by the framework's OWN post-processing of a step is reported, whatever its class.

The main C08 harness and `c08_excls` inject faults into `calculate_feature` (and, with one exception class, into the two
validators).  Between the return of `calculate_feature` and the moment a step's result is handed to the caller, however, the
framework itself runs user-pluggable code on the calculated data (ComputeFramework.run_calculation and the result
collection): the FILTER ENGINE of the compute framework applies the global filters, the framework TRANSFORMS data that is
not in its native representation, reads the column names, the group's validators run, and the requested columns are
SELECTED.  A failure there is a failure of the run like any other.  This module enumerates

    plan (link-free DAG | multi-framework chain | two-source join; stock frameworks or user-defined subclasses of them
          with an own filter engine)
      x  failing feature-group step (root / derived)
      x  post-processing site:  global filter  (a filter type the engine does not implement - GlobalFilter.add_filter accepts
                                               any type string -, an implemented filter type that cannot be evaluated on the
                                               column's real type or with the given parameters, a user-defined engine raising),
                                input / output validator (raising, or returning False / a message),
                                transform of returned data (user framework raising, stock framework given an unsupported
                                                            object), column-name bookkeeping, selection of the result columns
      x  exception class (the 18-class family of c08_excls plus NotImplementedError subclasses such as
         pyarrow.lib.ArrowNotImplementedError, bare NotImplementedError, StopIteration, further pyarrow / OS / import errors)
      x  SYNC / THREADING / MULTIPROCESSING  x  batch / streaming  x  prepared session (run / stream_run) or the one-call
         entry points (mlodaAPI.run_all / stream_all)

and judges every real run with the oracle of the property text: the API call raises within the bound, returns / yields
nothing of the failed step, and the raised exception (args, str, __cause__ / __context__ chain) carries the ORIGINAL error's
class name and message.  In particular it must not return normally with the unfiltered data.  What "the original error" is
comes either from the construction of the case (injected class + marker) or, for natural failures of stock code, from
evaluating the same stock function directly on the same column in the harness (reference evaluation).  Session-based runs are
also replayed on the Lean transition system (`C08.accepts`, main driver).
"""
from __future__ import annotations

import time
from typing import Any, Callable, Dict, List, Optional, Set, Tuple

import pyarrow as pa

from harness.core import Ctx
from harness import fgfactory as F
from harness import schedlib as S
from harness.corr import c08_excls as X

from mloda.user import mloda, GlobalFilter, stream_all
from mloda.core.abstract_plugins.components.parallelization_modes import ParallelizationMode
from mloda.core.filter.single_filter import SingleFilter
from mloda_plugins.compute_framework.base_implementations.pyarrow.table import PyArrowTable
from mloda_plugins.compute_framework.base_implementations.pyarrow.pyarrow_filter_engine import PyArrowFilterEngine
from mloda_plugins.compute_framework.base_implementations.pandas.dataframe import PandasDataFrame
from mloda_plugins.compute_framework.base_implementations.pandas.pandas_filter_engine import PandasFilterEngine
from mloda_plugins.compute_framework.base_implementations.python_dict.python_dict_framework import PythonDictFramework
from mloda_plugins.compute_framework.base_implementations.python_dict.python_dict_filter_engine import PythonDictFilterEngine

SUITES = {"swallowed_faults", "swallowed_accepts"}

ASSUMPTIONS = [
    "swallowed: faults are instances of Exception subclasses raised synchronously by code the framework calls while post-processing a step "
    "(filter engine, validators, transform, column bookkeeping, result selection); GeneratorExit / KeyboardInterrupt / SystemExit are outside the family",
    "swallowed: for natural failures of stock code (unimplemented filter type, filter not evaluable on the column type, unsupported returned object) the "
    "'original error' is the one the same stock function raises when called directly on the same column in the harness",
    "swallowed: 'carries the original error' = class name and message (marker) occur in the text of the raised exception (args, str, __cause__/__context__ chain)",
]

BOUND_S = 30.0
HANG_CAP = 3

# ------------------------------------------------------------------------------------------------
# exception family: the 18 classes of c08_excls + classes that matter for post-processing code


class VerifUnsupportedFilter(NotImplementedError):
    """a plugin's own 'this filter is not supported here' error"""


def _mk(cls: Any) -> Callable[[str], None]:
    def r(m: str) -> None:
        raise cls(m)

    return r


def _r_bare_nie(m: str) -> None:
    raise NotImplementedError


def _r_arrow_natural(m: str) -> None:
    import pyarrow.compute as pc

    pc.match_substring_regex(pa.array([1, 2, 3]), m)  # no kernel for int64: pyarrow.lib.ArrowNotImplementedError


def _r_stopiter_next(m: str) -> None:
    next(iter(()))


def _r_import(m: str) -> None:
    raise ModuleNotFoundError(f"No module named {m!r}", name=m)


FAMILY: Dict[str, Tuple[str, str, Callable[[str], None]]] = dict(X.FAMILY)
FAMILY.update(
    {
        "NotImplementedError:bare": ("NotImplementedError", "NotImplementedError", _r_bare_nie),
        "VerifUnsupportedFilter": ("VerifUnsupportedFilter", "NotImplementedError", _mk(VerifUnsupportedFilter)),
        "ArrowNotImplementedError": ("ArrowNotImplementedError", "NotImplementedError", _mk(pa.lib.ArrowNotImplementedError)),
        "ArrowNotImplementedError:kernel": ("ArrowNotImplementedError", "NotImplementedError", _r_arrow_natural),
        "ArrowInvalid": ("ArrowInvalid", "ValueError", _mk(pa.lib.ArrowInvalid)),
        "ArrowKeyError": ("ArrowKeyError", "KeyError", _mk(pa.lib.ArrowKeyError)),
        "ArrowTypeError": ("ArrowTypeError", "TypeError", _mk(pa.lib.ArrowTypeError)),
        "StopIteration": ("StopIteration", "StopIteration", _mk(StopIteration)),
        "StopIteration:next": ("StopIteration", "StopIteration", _r_stopiter_next),
        "ModuleNotFoundError": ("ModuleNotFoundError", "ImportError", _r_import),
        "TimeoutError": ("TimeoutError", "OSError", _mk(TimeoutError)),
        "RecursionError": ("RecursionError", "RuntimeError", _mk(RecursionError)),
        "MemoryError": ("MemoryError", "MemoryError", _mk(MemoryError)),
        "UnicodeError": ("UnicodeError", "ValueError", _mk(UnicodeError)),
    }
)
# family members whose original message is not the marker (the raiser ignores / reshapes it)
NO_MARKER = {"NotImplementedError:bare", "StopIteration:next", "ArrowNotImplementedError:kernel"}
# the NotImplementedError stratum is drawn more often at the filter site (an engine's natural 'cannot do that' error)
NIE_KEYS = [k for k, v in FAMILY.items() if v[1] == "NotImplementedError" or v[0] == "NotImplementedError"]

# ------------------------------------------------------------------------------------------------
# armed fault (module state; inherited by forked workers)

PP: Dict[str, Any] = {}  # {"fault": {...}} when armed
RETURN_MODE: Dict[str, str] = {}  # group class name -> "dict" | "bad:<kind>": what calculate_feature hands back


def _fire(site: str, keys: Any) -> None:
    f = PP.get("fault")
    if f is not None and f["site"] == site and f.get("exc") and f["key"] in keys:
        FAMILY[f["exc"]][2](f["marker"])


def _names(xs: Any) -> Set[str]:
    return {str(getattr(x, "name", x)) for x in (xs or ())}


# ------------------------------------------------------------------------------------------------
# user-defined filter engines and compute frameworks (plain subclasses of the stock ones)


def _keep(data: Any, name: str, pred: Callable[[Any], bool]) -> Any:
    if isinstance(data, pa.Table):
        mask = [v is not None and bool(pred(v)) for v in data.column(name).to_pylist()]
        return data.filter(pa.array(mask, pa.bool_()))
    if hasattr(data, "columns") and hasattr(data, "assign"):
        import pandas as pd

        mask = [v is not None and v == v and bool(pred(v)) for v in data[name].tolist()]
        return data[pd.Series(mask, index=data.index, dtype=bool)]
    return [r for r in data if r.get(name) is not None and pred(r.get(name))]


CUSTOM_TYPES = ("verif_not_equal", "verif_abs_max", "verif_not_null")


class _SwEngineMixin:
    """An engine that implements three own filter types, names the types it cannot handle, and fails when armed."""

    @classmethod
    def do_custom_filter(cls, data: Any, filter_feature: Any) -> Any:
        name = str(filter_feature.name)
        t = filter_feature.filter_type
        _fire("filter", {f"{name}|{t}"})
        v = filter_feature.parameter.value
        if t == "verif_not_equal":
            return _keep(data, name, lambda x: x != v)
        if t == "verif_abs_max":
            return _keep(data, name, lambda x: abs(x) <= v)
        if t == "verif_not_null":
            return _keep(data, name, lambda x: True)
        raise NotImplementedError(f"filter type '{t}' is not supported by {cls.__name__}")

    @classmethod
    def do_min_filter(cls, data: Any, filter_feature: Any) -> Any:
        _fire("filter", {f"{filter_feature.name}|{filter_feature.filter_type}"})
        return super().do_min_filter(data, filter_feature)  # type: ignore[misc]

    @classmethod
    def do_max_filter(cls, data: Any, filter_feature: Any) -> Any:
        _fire("filter", {f"{filter_feature.name}|{filter_feature.filter_type}"})
        return super().do_max_filter(data, filter_feature)  # type: ignore[misc]

    @classmethod
    def do_range_filter(cls, data: Any, filter_feature: Any) -> Any:
        _fire("filter", {f"{filter_feature.name}|{filter_feature.filter_type}"})
        return super().do_range_filter(data, filter_feature)  # type: ignore[misc]


class SwArrowEngine(_SwEngineMixin, PyArrowFilterEngine):
    pass


class SwPandasEngine(_SwEngineMixin, PandasFilterEngine):
    pass


class SwDictEngine(_SwEngineMixin, PythonDictFilterEngine):
    pass


class _SwFwMixin:
    def transform(self, data: Any, feature_names: Set[str]) -> Any:
        _fire("transform", set(feature_names))
        return super().transform(data, feature_names)  # type: ignore[misc]

    def set_column_names(self) -> None:
        super().set_column_names()  # type: ignore[misc]
        _fire("colnames", set(self.column_names))  # type: ignore[attr-defined]

    def select_data_by_column_names(self, data: Any, selected_feature_names: Any, column_ordering: Optional[str] = None) -> Any:
        _fire("select", _names(selected_feature_names))
        return super().select_data_by_column_names(data, selected_feature_names, column_ordering=column_ordering)  # type: ignore[misc]


class SwArrowTable(_SwFwMixin, PyArrowTable):
    @classmethod
    def filter_engine(cls) -> Any:
        return SwArrowEngine


class SwPandasFrame(_SwFwMixin, PandasDataFrame):
    @classmethod
    def filter_engine(cls) -> Any:
        return SwPandasEngine


class SwDictFramework(_SwFwMixin, PythonDictFramework):
    @classmethod
    def filter_engine(cls) -> Any:
        return SwDictEngine


SW_FW = {"pa": SwArrowTable, "pd": SwPandasFrame, "py": SwDictFramework}
STOCK_ENGINE = {"pa": PyArrowFilterEngine, "pd": PandasFilterEngine, "py": PythonDictFilterEngine}
SW_ENGINE = {"pa": SwArrowEngine, "pd": SwPandasEngine, "py": SwDictEngine}


def fw_cls(spec: Dict[str, Any], short: str) -> Any:
    return SW_FW[short] if spec.get("sw") else F.FW_SHORT[short]


def engine_cls(spec: Dict[str, Any], short: str) -> Any:
    return SW_ENGINE[short] if spec.get("sw") else STOCK_ENGINE[short]


# ------------------------------------------------------------------------------------------------
# generated groups: hooks / validators


def _after_calc(cls: Any, data: Any, features: Any, result: Any) -> Any:
    m = RETURN_MODE.get(cls.__name__)
    if m is None:
        return None
    if m == "dict":
        return F.to_columns(result)  # a columnar dict: every stock framework's transform() turns it into its table
    return bad_object(m.split(":", 1)[1])


def bad_object(kind: str) -> Any:
    """objects no stock framework can turn into a table"""
    if kind == "tuple":
        return (1, 2, 3)
    if kind == "set":
        return {1, 2}
    if kind == "int":
        return 7
    if kind == "str":
        return "not a table"
    if kind == "float":
        return 2.5
    return object()


BAD_KINDS = ("tuple", "set", "int", "str", "float")
HOOKS = {"after_calc": _after_calc}


def _extra_for(name: str) -> Dict[str, Any]:
    def _validator(site: str) -> Any:
        def v(cls: Any, data: Any, features: Any) -> Any:
            f = PP.get("fault")
            if f is not None and f["site"] == site and f["key"] == cls.__name__:
                if f.get("exc"):
                    FAMILY[f["exc"]][2](f["marker"])
                if f["how"] == "return:str":
                    return f["marker"]
                if f["how"] == "return:False":
                    return False
            return True

        return classmethod(v)

    return {"validate_input_features": _validator("validate_input"), "validate_output_features": _validator("validate_output")}


# ------------------------------------------------------------------------------------------------
# building a request from a spec (own builders: frameworks may be the user-defined subclasses)


def gen_plan(rng: Any) -> Tuple[str, Dict[str, Any]]:
    r = rng.random()
    if r < 0.5:
        fw = rng.choice(["pa", "pa", "pd", "py"])
        spec = S.gen_spec(rng, max_feats=5, frameworks=(fw,), allow_options=False)
        shape = "dag"
    elif r < 0.78:
        spec = S.gen_chain_spec(rng)
        shape = "chain"
    else:
        spec = S.gen_link_spec(rng, frameworks=("pa",), nsrc=2, jointypes=("inner", "left", "outer"))
        shape = "link"
    spec["sw"] = rng.random() < 0.5
    spec["filters"] = []
    spec["return_mode"] = {}
    return shape, spec


def build(shape: str, spec: Dict[str, Any]) -> Tuple[Dict[str, Any], Optional[Set[Any]], List[Any], Set[Any]]:
    classes: Dict[str, Any] = {}
    if shape == "link":
        from mloda.core.abstract_plugins.components.link import Link, JoinSpec
        from mloda.core.abstract_plugins.components.index.index import Index

        for s in spec["sources"]:
            classes[s["name"]] = F.make_group(s["name"], root_data=s["cols"], index_columns=[(s["key"],)], frameworks={fw_cls(spec, s["fw"])}, hooks=HOOKS,
                                              return_as=s["fw"], extra=_extra_for(s["name"]))  # fmt: skip
        for g in S.link_groups(spec):
            classes[g["name"]] = F.make_group(g["name"], derived=g["features"], frameworks={fw_cls(spec, g["fw"])}, hooks=HOOKS, extra=_extra_for(g["name"]))
        links: Set[Any] = set()
        for l in spec["links"]:
            a, b = spec["sources"][l["left"]], spec["sources"][l["right"]]
            links.add(getattr(Link, l["type"])(JoinSpec(classes[a["name"]], Index((a["key"],))), JoinSpec(classes[b["name"]], Index((b["key"],)))))
        fws = {fw_cls(spec, s["fw"]) for s in spec["sources"]} | {fw_cls(spec, spec["consumer"]["fw"])}
        return classes, links, [spec["consumer"]["feature"]], fws
    for r in spec["roots"]:
        classes[r["name"]] = F.make_group(r["name"], root_data=r["cols"], frameworks={fw_cls(spec, r["fw"])}, hooks=HOOKS, return_as=r["fw"], extra=_extra_for(r["name"]))
    for g in spec["groups"]:
        classes[g["name"]] = F.make_group(g["name"], derived=g["features"], frameworks={fw_cls(spec, g["fw"])}, hooks=HOOKS, extra=_extra_for(g["name"]))
    fws = {fw_cls(spec, x["fw"]) for x in spec["roots"] + spec["groups"]}
    return classes, None, S.features_of(spec), fws


def make_gf(spec: Dict[str, Any]) -> Optional[GlobalFilter]:
    if not spec.get("filters"):
        return None
    gf = GlobalFilter()
    for fl in spec["filters"]:
        gf.add_filter(fl["feature"], fl["type"], dict(fl["param"]))
    return gf


class Request:
    """Everything needed to issue the request again (classes are built once; the GlobalFilter is built per preparation)."""

    def __init__(self, shape: str, spec: Dict[str, Any], built: Optional[Tuple[Any, Any, Any, Any]] = None) -> None:
        self.shape = shape
        self.spec = spec
        self.classes, self.links, self.feats, self.fws = built if built is not None else build(shape, spec)

    def with_spec(self, spec: Dict[str, Any]) -> "Request":
        return Request(self.shape, spec, (self.classes, self.links, self.feats, self.fws))

    def prep_kw(self) -> Dict[str, Any]:
        kw: Dict[str, Any] = {"compute_frameworks": set(self.fws), "plugin_collector": F.collector(set(self.classes.values()))}
        if self.links:
            kw["links"] = set(self.links)
        gf = make_gf(self.spec)
        if gf is not None:
            kw["global_filter"] = gf
        return kw

    def prepare(self) -> Any:
        return mloda.prepare(list(self.feats), **self.prep_kw())


class OneCall:
    """The one-call entry points behind the interface S.run_session expects of a session: every run prepares anew."""

    def __init__(self, req: Request) -> None:
        self.req = req
        self.features = list(req.feats)

    def run(self, **kw: Any) -> Any:
        return mloda.run_all(list(self.req.feats), **self.req.prep_kw(), **kw)

    def stream_run(self, **kw: Any) -> Any:
        return stream_all(list(self.req.feats), **self.req.prep_kw(), **kw)


# ------------------------------------------------------------------------------------------------
# reference side: values of a column, the original error of a natural failure


def ref_columns(shape: str, spec: Dict[str, Any]) -> Dict[str, List[Any]]:
    """Unfiltered reference values of the root / source columns (and, for link-free plans, of every derived feature)."""
    if shape == "link":
        out: Dict[str, List[Any]] = {}
        for s in spec["sources"]:
            out.update({c: list(v) for c, v in s["cols"].items()})
        return out
    return S.reference(spec)


def native_table(cols: Dict[str, List[Any]], short: str) -> Any:
    return F.from_columns(cols, F.FW_SHORT[short])


def original_error(fn: Callable[[], Any]) -> Optional[Tuple[str, str]]:
    """(class name, message) of what fn raises; None when it does not raise."""
    try:
        fn()
    except Exception as e:  # noqa
        msg = str(e)
        if isinstance(e, KeyError) and e.args:
            msg = str(e.args[0])
        return type(e).__name__, msg
    return None


def msg_needle(msg: str) -> Optional[str]:
    """A stretch of the original message that survives repr / traceback formatting (no quotes, no newlines)."""
    best = ""
    cur = ""
    for ch in msg:
        if ch in "'\"\\\n\r":
            if len(cur) > len(best):
                best = cur
            cur = ""
        else:
            cur += ch
    if len(cur) > len(best):
        best = cur
    best = best.strip()
    return best[:80] if len(best) >= 6 else None


# ------------------------------------------------------------------------------------------------
# fault construction


def group_fw(shape: str, spec: Dict[str, Any], group: str) -> str:
    if shape == "link":
        for s in spec["sources"]:
            if s["name"] == group:
                return str(s["fw"])
        for g in S.link_groups(spec):
            if g["name"] == group:
                return str(g["fw"])
    for x in spec.get("roots", []) + spec.get("groups", []):
        if x["name"] == group:
            return str(x["fw"])
    raise KeyError(group)


def root_groups(shape: str, spec: Dict[str, Any]) -> Set[str]:
    return {s["name"] for s in (spec["sources"] if shape == "link" else spec["roots"])}


def requested_names(req: Request) -> Set[str]:
    return {str(getattr(f, "name", f)) for f in req.feats}


UNKNOWN_TYPES = ("not_equal", "zscore", "greater_than", "is_null", "top_k", "between", "startswith", "outlier", "Equal", "MIN", "isin")


def benign_filter(rng: Any, col: str, vals: List[Any]) -> Optional[Dict[str, Any]]:
    """An implemented filter that keeps at least one row of an integer column."""
    nn = [v for v in vals if isinstance(v, int)]
    if not nn or len(nn) != len(vals):
        return None
    k = rng.random()
    if k < 0.4:
        return {"feature": col, "type": "min", "param": {"value": min(nn)}}
    if k < 0.7:
        return {"feature": col, "type": "max", "param": {"value": max(nn)}}
    return {"feature": col, "type": "range", "param": {"min": min(nn), "max": max(nn), "max_exclusive": False}}


def natural_filter(rng: Any, short: str, col: str) -> Dict[str, Any]:
    """An implemented filter type that the stock engine cannot evaluate: wrong column type for the operation or missing parameter."""
    pool: List[Dict[str, Any]] = [
        {"type": "range", "param": {"min": 0}},  # no max
        {"type": "range", "param": {"max": 5, "max_exclusive": True}},  # no min
        {"type": "equal", "param": {"values": [1, 2]}},  # no value
        {"type": "min", "param": {"min": 1}},  # no value
        {"type": "categorical_inclusion", "param": {"value": 1}},  # no values
        {"type": "max", "param": {"min": 0, "max": 3}},  # max filter with a min
        {"type": "min", "param": {"value": "2020-01-01T00:00:00+00:00"}},  # time bound on an integer column
        {"type": "range", "param": {"min": "2020-01-01T00:00:00+00:00", "max": "2021-01-01T00:00:00+00:00", "max_exclusive": True}},
        {"type": "regex", "param": {"value": "^1"}},  # regex on an integer column
        {"type": "regex", "param": {"value": "(unclosed"}},  # malformed pattern
        {"type": "categorical_inclusion", "param": {"values": [[1], [2]]}},  # unhashable / nested values
    ]
    f = dict(rng.choice(pool))
    f["feature"] = col
    return f


def candidate_sites(shape: str, spec: Dict[str, Any], st: Dict[str, Any], req: Request, roots: Set[str]) -> List[str]:
    sites = ["filter:unknown_type", "filter:unknown_type", "filter:natural", "validate_output:raise", "validate_output:return", "transform:unsupported"]
    if st["req"]:
        sites += ["validate_input:raise", "validate_input:return"]
    if spec.get("sw"):
        sites += ["filter:engine"] * 4 + ["transform:override"] * 2 + ["colnames:override"] * 2
        if set(st["features"]) & requested_names(req):
            sites += ["select:override"] * 2
    return sites


def make_fault(ctx: Ctx, deck: "Deck", site_how: str, shape: str, spec: Dict[str, Any], st: Dict[str, Any], req: Request, refc: Dict[str, List[Any]], counter: int) -> Optional[Tuple[Dict[str, Any], Dict[str, Any]]]:  # fmt: skip
    """(fault, spec of the faulty request) or None when the case cannot be built for this step."""
    rng = ctx.rng
    site, how = site_how.split(":")
    group = st["group"]
    short = group_fw(shape, spec, group)
    marker = f"VERIFSW{counter}x{rng.randint(1000, 9999)}"
    spec2 = dict(spec)
    spec2["filters"] = list(spec["filters"])
    spec2["return_mode"] = dict(spec["return_mode"])
    fault: Dict[str, Any] = {"site": site, "how": how, "group": group, "exc": None, "marker": None, "key": group}
    feats = sorted(st["features"])
    if site == "filter":
        col = rng.choice(feats)
        vals = refc.get(col)
        # other, implemented filters of the same request (on this and on other groups): the filter machinery also runs normally
        others = [c for c in refc if c != col and rng.random() < 0.3][:2]
        for c in others + ([col] if rng.random() < 0.3 else []):
            b = benign_filter(rng, c, refc.get(c) or [])
            if b is not None and b not in spec2["filters"]:
                spec2["filters"].append(b)
        if how == "unknown_type":
            t = rng.choice(UNKNOWN_TYPES) if rng.random() < 0.7 else f"custom_{rng.randint(100, 999)}"
            fl = {"feature": col, "type": t, "param": {"value": rng.randint(-3, 6)}}
            fault["expect_cls"] = "NotImplementedError"
            fault["expect_msg"] = f"filter type '{t}' is not supported" if spec.get("sw") else None  # the stock engines raise it without a message
        elif how == "natural":
            fl = natural_filter(rng, short, col)
        else:  # user-defined engine raising
            if rng.random() < 0.6:
                fl = {"feature": col, "type": rng.choice(CUSTOM_TYPES), "param": {"value": rng.randint(-3, 6)}}
            else:
                b = benign_filter(rng, col, vals or [])
                if b is None:
                    return None
                fl = b
            fault["exc"] = deck.draw("filter", NIE_KEYS if rng.random() < 0.45 else None)
            fault["key"] = f"{col}|{fl['type']}"
        fault["filter"] = fl
        fault["target"] = col
        spec2["filters"] = [f_ for f_ in spec2["filters"] if not (f_["feature"] == col and f_["type"] == fl["type"])] + [fl]
        rng.shuffle(spec2["filters"])
        if how in ("unknown_type", "natural"):
            # reference evaluation: what does the framework's own filter function raise on this very column?
            if vals is None:
                return None
            eng = engine_cls(spec, short)
            tab = native_table({col: list(vals)}, short)
            oe = original_error(lambda: eng.do_filter(tab, SingleFilter(col, fl["type"], dict(fl["param"]))))
            if oe is None:
                return None  # the engine can evaluate it on this column: not a fault
            if how == "natural":
                fault["expect_cls"], fault["expect_msg"] = oe[0], msg_needle(oe[1])
            elif oe[0] != "NotImplementedError":
                fault["expect_cls"], fault["expect_msg"] = oe[0], msg_needle(oe[1])
            fault["reference_error"] = [oe[0], oe[1][:160]]
            # control request: the same request with an implemented, evaluable filter on the same column instead (must run through)
            ctl = [v for v in vals if isinstance(v, int) and not isinstance(v, bool)]
            if len(ctl) != len(vals) or not ctl:
                return None
            fault["control_filter"] = {"feature": col, "type": "min", "param": {"value": min(ctl)}}
    elif site in ("validate_input", "validate_output"):
        if how == "raise":
            fault["exc"] = deck.draw(site)
        else:
            fault["how"] = rng.choice(["return:str", "return:False"])
            fault["expect_cls"] = "ValueError"  # run_validate_*: `raise ValueError(result)`
            fault["expect_msg"] = marker if fault["how"] == "return:str" else "False"
            fault["marker"] = marker
    elif site == "transform":
        if how == "override":
            spec2["return_mode"][group] = "dict"
            fault["exc"] = deck.draw(site)
            fault["key"] = rng.choice(feats)
        else:
            kind = rng.choice(BAD_KINDS)
            spec2["return_mode"][group] = f"bad:{kind}"
            inst = fw_cls(spec, short)(ParallelizationMode.SYNC, frozenset())
            oe = original_error(lambda: inst.transform(bad_object(kind), set(feats)))
            if oe is None:
                return None
            fault["expect_cls"], fault["expect_msg"] = oe[0], msg_needle(oe[1])
            fault["reference_error"] = [oe[0], oe[1][:160]]
            fault["returned_object"] = kind
    elif site == "colnames":
        fault["exc"] = deck.draw(site)
        fault["key"] = rng.choice(feats)
    elif site == "select":
        fault["exc"] = deck.draw(site)
        fault["key"] = rng.choice(sorted(set(feats) & requested_names(req)))
    if fault.get("exc"):
        fault["marker"] = marker
        fault["expect_cls"] = FAMILY[fault["exc"]][0]
        fault["expect_msg"] = None if fault["exc"] in NO_MARKER else marker
    return fault, spec2


class Deck:
    """Round-robin over the family in a shuffled order per site, so that every class meets every site early."""

    def __init__(self, rng: Any) -> None:
        self.rng = rng
        self.decks: Dict[Any, List[str]] = {}

    def draw(self, stratum: str, only: Optional[List[str]] = None) -> str:
        key = (stratum, bool(only))
        d = self.decks.get(key)
        if not d:
            d = list(only) if only else list(FAMILY)
            self.rng.shuffle(d)
            self.decks[key] = d
        return d.pop()


# ------------------------------------------------------------------------------------------------
# oracle


def judge(rr: Any, stream: bool, fault: Dict[str, Any], step_cols: Set[str]) -> Tuple[str, Optional[str], Any]:
    """(outcome tag, what is violated or None, observed)"""
    cls_name, needle = fault["expect_cls"], fault.get("expect_msg")
    origin = f"{cls_name}({needle!r})" if needle else cls_name
    where = f"{fault['site']} ({fault['how']})"
    if rr.timed_out:
        return "timeout", f"run whose {where} post-processing fails did not end within {BOUND_S}s (hang)", "timeout"
    tables = rr.yielded if stream else (rr.results or [])
    if rr.error is None and rr.exc is None:
        desc = [{c: v for c, v in F.to_columns(t).items()} for t in tables][:4]
        extra = ""
        if fault["site"] == "filter":
            extra = " - the data came back as if no filter had been requested" if any(fault["target"] in d for d in desc) else ""
        return "return", f"run returned normally ({len(tables)} tables) although the {where} post-processing of group {fault['group']} raised {origin}{extra}", desc
    if stream:
        leaked = [sorted(F.columns_of(t)) for t in tables if step_cols & set(F.columns_of(t))]
        if leaked:
            return "raise:leaked", f"stream handed out a result of the step whose {where} post-processing raised {origin} before raising", leaked[:3]
    text = X.exc_text(rr.exc) if rr.exc is not None else (rr.error or "")
    has_c = cls_name in text
    has_m = needle is None or needle in text
    if has_c and has_m:
        return "raise:carried", None, None
    tail = " | ".join(l.strip() for l in text.replace("\\n", "\n").strip().splitlines()[-3:])[-300:]
    if not has_c and (needle is None or not has_m):
        return "raise:lost", f"raised error carries neither the original error's class {cls_name} nor its message {needle!r} (original failure of the {where} post-processing swallowed, a secondary error is reported)", tail
    if not has_m:
        return "raise:no_message", f"raised error does not carry the original message {needle!r} of the {cls_name} raised by the {where} post-processing", tail
    return "raise:no_class", f"raised error does not carry the original error's class {cls_name} (message {needle!r} is there)", tail


# ------------------------------------------------------------------------------------------------
# one real execution


def arm(fault: Optional[Dict[str, Any]], spec: Dict[str, Any]) -> None:
    PP.clear()
    RETURN_MODE.clear()
    RETURN_MODE.update(spec.get("return_mode") or {})
    if fault is not None:
        PP["fault"] = fault


def disarm() -> None:
    PP.clear()
    RETURN_MODE.clear()


def run_one(ctx: Ctx, req: Request, sess: Any, exp: Dict[str, Any], i: int, fault: Dict[str, Any], mode: str, stream: bool, entry: str,
            lean_reqs: Optional[List[Dict[str, Any]]] = None, metas: Optional[List[Any]] = None) -> str:  # fmt: skip
    shape, spec = req.shape, req.spec
    st = exp["steps"][i]
    group = st["group"]
    is_root = group in root_groups(shape, spec)
    S.FAULTS.clear()
    arm(fault, spec)
    t0 = time.time()
    try:
        target = sess if entry == "session" else OneCall(req)
        rr = S.run_session(target, mode, stream=stream, timeout=BOUND_S)
    finally:
        disarm()
    wall = time.time() - t0
    # columns only the failing step produces (a streamed table holding one of them is a result of the failed step)
    step_cols = set(st["features"])
    outcome, what, observed = judge(rr, stream, fault, step_cols)
    case = {"shape": shape, "spec": spec, "plan": S.canon_plan(exp), "fail_group": group, "fail_step": i, "root": is_root, "fault": fault, "mode": mode, "stream": stream, "entry": entry}
    calc_ran = any(e.get("ev") == "end" and e.get("group") == group for e in rr.events)
    step_failed = any(e.get("ev") == "sfail" for e in rr.events)
    fam = FAMILY[fault["exc"]][1] if fault.get("exc") else fault["expect_cls"]
    ctx.case(
        "swallowed_faults", case, True,
        sw_site=f"{fault['site']}:{fault['how']}", sw_exc=fault.get("exc") or f"natural:{fault['expect_cls']}", sw_expect_cls=fault["expect_cls"], sw_base=fam,
        sw_site_x_base=f"{fault['site']}:{fam}", sw_root=is_root, sw_mode=mode, sw_stream=stream, sw_entry=("stream_all" if stream else "run_all") if entry == "api" else ("stream_run" if stream else "run"),
        sw_shape=shape, sw_user_framework=bool(spec.get("sw")), sw_fw=group_fw(shape, spec, group), sw_outcome=outcome, sw_calc_finished_before_failure=calc_ran,
        sw_step_failure_observed=step_failed, sw_has_message=fault.get("expect_msg") is not None, sw_nfilters=len(spec.get("filters") or []),
    )  # fmt: skip
    if fault["site"] == "filter":
        ctx.tag("sw_filter_type", fault["filter"]["type"] if fault["how"] != "unknown_type" else "<unknown type>")
    ctx.tag("sw_wall_s", "<1" if wall < 1 else "<5" if wall < 5 else ">=5")
    if what is not None:
        fclass = None
        if outcome.startswith("raise") and outcome != "raise:leaked" and mode == "thread" and not is_root and fg_overlap_on_shared_fw(shape, rr.events):
            # open finding F-C08-thread-lost-update (predicate of the main harness, narrowed as in c08_excls to a fault in a later step)
            fclass = "threading-overlapping-steps-on-shared-cfw"
        where = f"{'ROOT' if is_root else 'derived'} step {i} ({group} on {st['fw']})"
        ctx.violation("swallowed_faults", case, f"{what}; {where}, mode={mode}, stream={stream}, entry={entry}", observed, f"raises with {fault['expect_cls']}" + (f" and {fault['expect_msg']!r}" if fault.get("expect_msg") else ""), finding_class=fclass)  # fmt: skip
    if lean_reqs is not None and metas is not None and entry == "session":
        obs = S.obs_of(exp, rr.events)
        if obs:
            lean_reqs.append({"op": "C08.accepts", "steps": S.lean_plan(exp)["steps"], "obs": obs})
            metas.append(({k: v for k, v in case.items() if k != "spec"}, rr.error))
    return outcome


def fg_overlap_on_shared_fw(shape: str, events: List[Dict[str, Any]]) -> bool:
    """S.overlap_on_shared_fw without the step-uuid map of a prepared session (the one-call entry points prepare internally):
    two feature-group steps were open at the same time.  For the shapes generated here this is the same predicate: a link-free
    DAG and the two-source join live on ONE framework, and the steps of a multi-framework chain are totally ordered (they never
    overlap at all)."""
    open_: Set[str] = set()
    for e in events:
        if e.get("kind") != "FeatureGroupStep":
            continue
        if e.get("ev") == "sbegin":
            if open_:
                return True
            open_.add(str(e.get("step")))
        elif e.get("ev") in ("send", "sfail"):
            open_.discard(str(e.get("step")))
    return False


def baseline(req: Request, sess: Any, mode: str, stream: bool = False) -> Any:
    arm(None, req.spec)
    try:
        return S.run_session(sess, mode, stream=stream, timeout=BOUND_S)
    finally:
        disarm()


def run(ctx: Ctx) -> None:
    S.install_step_observers()
    deck = Deck(ctx.rng)
    lean_reqs: List[Dict[str, Any]] = []
    metas: List[Any] = []
    nplans = ctx.budget(16, 100)
    per_step = 2 if ctx.quick else 4
    max_steps = 3 if ctx.quick else 6
    p_mp = 0.2 if ctx.quick else 0.3
    hangs = 0
    counter = 0
    for _ in range(nplans):
        if hangs >= HANG_CAP:
            ctx.note(f"swallowed: enumeration stopped after {hangs} reproducible hangs")
            break
        shape, spec = gen_plan(ctx.rng)
        disarm()
        S.FAULTS.clear()
        try:
            req0 = Request(shape, spec)
            sess0 = req0.prepare()
        except Exception:
            ctx.tag("sw_skipped_plans", "prepare_failed")
            continue
        exp0 = S.export_plan(sess0)
        ok: Dict[str, bool] = {}

        def plan_ok(mode: str) -> bool:
            # only where the plan runs to completion without a fault (plans failing on their own are other properties' findings)
            if mode not in ok:
                b = baseline(req0, sess0, mode)
                ok[mode] = b.error is None and not b.timed_out
                if not ok[mode]:
                    ctx.tag("sw_mode_skipped_failing_without_fault", f"{shape}:{mode}")
            return ok[mode]

        if not plan_ok("sync"):
            ctx.tag("sw_skipped_plans", "fails_without_fault")
            continue
        refc = ref_columns(shape, spec)
        roots = root_groups(shape, spec)
        fg = [i for i, st in enumerate(exp0["steps"]) if st["kind"] == "fg" and sum(1 for s2 in exp0["steps"] if s2.get("group") == st["group"]) == 1]
        ctx.rng.shuffle(fg)
        for i in sorted(fg[:max_steps]):
            st0 = exp0["steps"][i]
            sites = candidate_sites(shape, spec, st0, req0, roots)
            for _k in range(per_step):
                if hangs >= HANG_CAP:
                    break
                counter += 1
                site_how = ctx.rng.choice(sites)
                made = make_fault(ctx, deck, site_how, shape, spec, st0, req0, refc, counter)
                if made is None:
                    ctx.tag("sw_skipped_faults", f"{site_how}:not_a_fault_here")
                    continue
                fault, spec2 = made
                req = req0.with_spec(spec2)
                try:
                    arm(None, spec2)
                    sess = req.prepare()
                except Exception:
                    ctx.tag("sw_skipped_faults", f"{site_how}:prepare_failed")
                    continue
                finally:
                    disarm()
                exp = S.export_plan(sess)
                idx = [j for j, s_ in enumerate(exp["steps"]) if s_.get("group") == fault["group"]]
                if len(idx) != 1:
                    ctx.tag("sw_skipped_faults", f"{site_how}:group_split")
                    continue
                # control request: the same request with the fault disarmed (injected faults) resp. with an implemented filter on the same
                # column (natural filter failures) must run through in the mode under test - the armed / un-evaluable post-processing is
                # then the only reason to fail (a global filter changes the plan; plans failing on their own are other properties' findings)
                ctl_req, ctl_sess = None, None
                if fault.get("exc"):
                    ctl_req, ctl_sess = req, sess
                elif fault.get("control_filter"):
                    spec3 = dict(spec2)
                    spec3["filters"] = [fault["control_filter"] if f_ is fault["filter"] else f_ for f_ in spec2["filters"]]
                    try:
                        ctl_req = req0.with_spec(spec3)
                        ctl_sess = ctl_req.prepare()
                    except Exception:
                        ctx.tag("sw_skipped_faults", f"{site_how}:control_prepare_failed")
                        continue
                ctl_ok: Dict[str, bool] = {}

                def fault_mode_ok(mode: str) -> bool:
                    if not plan_ok(mode):
                        return False
                    if ctl_req is None:
                        return True
                    if mode not in ctl_ok:
                        b = baseline(ctl_req, ctl_sess, mode)
                        ctl_ok[mode] = b.error is None and not b.timed_out
                        if not ctl_ok[mode]:
                            ctx.tag("sw_skipped_faults", f"{site_how}:control_request_fails:{mode}:{'root' if fault['group'] in roots else 'derived'}")
                    return ctl_ok[mode]

                if not fault_mode_ok("sync"):
                    continue
                modes = ["sync", "thread"] + (["mp"] if ctx.rng.random() < p_mp else [])
                for mode in modes:
                    if not fault_mode_ok(mode):
                        continue
                    for stream in ([False, True] if ctx.rng.random() < 0.45 else [ctx.rng.random() < 0.3]):
                        entry = "api" if ctx.rng.random() < 0.4 else "session"
                        out = run_one(ctx, req, sess, exp, idx[0], fault, mode, stream, entry, lean_reqs, metas)
                        if out == "timeout":
                            hangs += 1
    disarm()
    S.stop_flight_server()
    if ctx.lean is not None and lean_reqs:
        outs = ctx.lean.batch(lean_reqs)
        for rq, (case, err), o in zip(lean_reqs, metas, outs):
            c2 = {"case": case, "obs": rq["obs"]}
            ctx.case("swallowed_accepts", c2, True, sw_acc_mode=case["mode"])
            if not o.get("ok"):
                ctx.disagree("swallowed_accepts", c2, "observed trace", o)
                continue
            stt = o["state"]
            failed_obs = [j for k_, j in rq["obs"] if k_ == "x"]
            if failed_obs and (stt["returned"] or stt["raised"] is None or stt["raised"] not in failed_obs):
                ctx.disagree("swallowed_accepts", c2, {"failed": failed_obs, "error": (err or "")[-120:]}, stt)


def run_oracle_only(ctx: Ctx) -> None:
    run(ctx)


def search(ctx: Ctx, broken: List[str]) -> None:
    run(ctx)


def replay(ctx: Ctx, body: Dict[str, Any]) -> None:
    """Re-run the recorded case: rebuild the request from the recorded spec and arm the recorded fault."""
    case = body.get("case") or {}
    if "case" in case and "spec" not in case:
        case = case["case"]
    if "spec" not in case:
        run(ctx)
        return
    S.install_step_observers()
    req = Request(case["shape"], case["spec"])
    arm(None, case["spec"])
    try:
        sess = req.prepare()
    finally:
        disarm()
    exp = S.export_plan(sess)
    idx = [j for j, s_ in enumerate(exp["steps"]) if s_.get("group") == case["fail_group"]]
    if not idx:
        ctx.note("swallowed replay: the failing group is not a step of the rebuilt plan")
        return
    run_one(ctx, req, sess, exp, idx[0], case["fault"], case["mode"], case["stream"], case.get("entry", "session"))
    S.stop_flight_server()
