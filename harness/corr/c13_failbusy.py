"""C13 / failbusy - streamed (and batch) runs that FAIL, or are abandoned, while another step of the same run is still busy.

Input class (generated, never replayed from a fixed request): a request over n >= 2 INDEPENDENT units (a root group and a chain of 0-2
derived groups each; the units share no feature, so their steps run concurrently in THREADING - one worker thread per step - and in
MULTIPROCESSING - one worker process per unit).  Roles are dealt to groups of different units:
  * `fail`  - the group's calculate_feature raises (at once or after a short delay; before or after it computed its result),
  * `busy`  - the group's calculate_feature sleeps 0.5 - 2 s, so that its worker is still inside the calculation when the other unit's
              step fails / when the consumer stops,
  * the remaining units are fast (their tables are yielded before the failure).
Kinds of cases:  failbusy (fail + busy; the stream is drained until it raises),  failstop (fail + busy, the consumer stops after k items:
close | drop | throw),  abandon (busy, no failure; the consumer stops after k items while the busy step runs),  failonly (fail, nothing busy:
every other step is through - control),  busydrain (busy, no failure, drained - control).  Modes THREADING (most), MULTIPROCESSING, SYNC
(control); API run_all/stream_all or prepare + session.run/session.stream_run (then also repeated streamed runs on one session).

Every case is executed by the REAL mloda code in a child python process (own hash seed, private flight server); the orchestrator runs in
a NON-daemon thread of the child (worker threads inherit the daemon flag of their creator).  The child only reports; the verdict is taken
here.  Observation: the generated groups' begin / end / fail event log (harness/fgfactory.log_event, CLOCK_MONOTONIC, shared by threads and
forked workers), harness-side step observers (schedlib.install_step_observers), threading.enumerate() and
multiprocessing.active_children() at the very moment the call ended in the consumer (exception received / close() returned / drained).

Oracle (property text of C13):
  * with the same arguments the streamed call and the batch call end the same way: both return tables or both raise, same error class,
    and the error is the failing group's error;
  * a drained stream that did not raise yields the same MULTISET of tables as the batch call; every yielded item - also the ones yielded
    before a failure or before the consumer stopped - is the complete table of one feature-group step per an independent reference
    evaluation, none twice, none of a failed step, and nothing is yielded after the consumer stopped;
  * "abandoning or failing the generator still releases the run's resources": at the moment the exception reaches the consumer (or close() /
    throw() / the drop of the generator returns) no worker thread of the run is alive, no calculate_feature of the run is still executing,
    nothing of the run executes afterwards (no event later than that moment), no worker process of the run is alive, and no dataset of
    the run is left on the flight server; the batch call with the same arguments must not leave anything behind that the stream does not.
Model: the observed step trace of a drained session stream (with its `fail` event) is replayed by the Lean scheduler model (`C13.accepts`);
the model must accept it and must raise exactly when the implementation raised, for a step of a failing group.
"""
from __future__ import annotations

import json
import os
import subprocess
import sys
import time
from concurrent.futures import ThreadPoolExecutor
from typing import Any, Dict, List, Optional, Tuple

SUITES = {"failbusy", "failbusy_model"}

ASSUMPTIONS = [
    "failbusy: 'busy' is a calculation sleeping 0.5-2 s (plus the failure's delay), 'failing early' a calculation raising 0-0.5 s after it "
    "began; that a step really was busy when the other step failed / the consumer stopped is read off the event log (tag fb_class_hit) and "
    "only such runs count as non-trivial",
    "failbusy: 'the moment the exception reaches the consumer' is time.monotonic_ns() taken first thing in the consumer's except clause (or "
    "right after close()/throw()/del returned); the groups' events carry the same clock; thread liveness is threading.enumerate() at that "
    "moment without any grace period (join() has returned by then on a tree that joins its workers), process liveness is "
    "multiprocessing.active_children() re-checked after 0.25 s; multiprocessing's daemon QueueFeederThreads are not counted as workers",
    "failbusy: each batch of cases runs in a child python process with its own PYTHONHASHSEED and private flight server; worker processes "
    "are forked (Linux default), so the role hook is inherited",
]

MARK = "@@C13FAILBUSY@@"
RUN_TIMEOUT = 60.0
FAILMSG = "VERIF-FAIL"

# ======================================================================================================================
# generator (parent side; pure JSON)
# ======================================================================================================================

KINDS = ("failbusy", "failstop", "abandon", "failonly", "busydrain")


def gen_case(rng: Any, kind: str, mode: str, thorough: bool = False) -> Dict[str, Any]:
    from harness import fgfactory as F

    uid = F.uniq("")
    nunits = rng.choice([2, 2, 3, 3, 4] if thorough else [2, 3, 3])
    one_fw = rng.random() < 0.5
    fw0 = rng.choice(["pa", "pa", "pd", "py"])
    units: List[Dict[str, Any]] = []
    request: List[str] = []
    for u in range(nunits):
        fw = fw0 if one_fw else rng.choice(["pa", "pa", "pd", "py"])
        nrows = rng.randint(1, 4)
        root = {"name": f"R{uid}_{u}", "fw": fw, "cols": {f"r{uid}_{u}_{i}": [rng.randint(-5, 9) for _ in range(nrows)] for i in range(rng.randint(1, 2))}}
        prev = rng.choice(list(root["cols"]))
        groups = []
        for j in range(rng.choice([0, 0, 1, 1, 2])):
            f = f"d{uid}_{u}_{j}"
            expr = [rng.choice(["add", "mul", "sub"]), ["col", prev], ["const", rng.randint(2, 4)]]
            groups.append({"name": f"G{uid}_{u}_{j}", "fw": fw, "features": {f: {"parents": [prev], "expr": expr}}})
            prev = f
        req = [prev]  # the top of the chain is always requested; lower levels sometimes (then the unit has several result steps)
        for g in groups[:-1]:
            if rng.random() < 0.3:
                req += list(g["features"])
        if groups and rng.random() < 0.3:
            req.append(rng.choice(list(root["cols"])))
        units.append({"root": root, "groups": groups, "request": req})
        request += req
    rng.shuffle(request)

    def names(u: int) -> List[str]:
        return [units[u]["root"]["name"]] + [g["name"] for g in units[u]["groups"]]

    order = list(range(nunits))
    rng.shuffle(order)
    fail_units: List[int] = []
    busy_units: List[int] = []
    if kind in ("failbusy", "failstop"):
        fail_units, busy_units = [order[0]], [order[1]]
        if thorough and nunits >= 4 and rng.random() < 0.5:
            (fail_units if rng.random() < 0.5 else busy_units).append(order[2])
    elif kind == "failonly":
        fail_units = [order[0]]
    else:
        busy_units = [order[0]]
    roles: Dict[str, Any] = {}
    depth = 0  # position in its chain of the deepest busy group: the failure must not come before that group has begun
    for u in busy_units:
        pos = rng.randint(0, len(names(u)) - 1)
        depth = max(depth, pos)
        roles[names(u)[pos]] = {"role": "busy", "pos": pos}
    lag = (0.22 if mode == "mp" else 0.12) * depth
    for u in fail_units:
        pos = rng.randint(0, len(names(u)) - 1)
        delay = lag + (0.0 if (depth == 0 and rng.random() < 0.5) else rng.uniform(0.0, 0.12))
        roles[names(u)[pos]] = {"role": "fail", "pos": pos, "delay": round(delay, 3), "at": rng.choice(["before", "before", "after"])}
    maxdelay = max([r["delay"] for r in roles.values() if r["role"] == "fail"], default=0.0)
    for r in roles.values():
        if r["role"] == "busy":
            smax = (2.0 if thorough else 1.4) if mode != "sync" else 0.6
            r["seconds"] = round(maxdelay + rng.uniform(0.5 if mode != "sync" else 0.2, smax), 2)
    spec = {"units": units, "request": [{"name": f, "options": {}} for f in request], "roles": roles}
    nres = len(step_tables(spec))
    nfast = len(step_tables(spec, only_fast=True))
    api = rng.choice(["all", "session"])
    hist: List[List[Any]] = [["batch", "drain", 0]]
    stop = lambda: [rng.choice(["close", "drop", "throw"]), rng.randint(1, max(1, nfast))]  # noqa: E731
    if kind in ("failbusy", "failonly", "busydrain"):
        hist.append(["stream", "drain", 0])
        if api == "session" and (thorough or rng.random() < 0.35):
            hist.append(["stream"] + (stop() if rng.random() < 0.5 else ["drain", 0]))  # repeated streamed runs on one session
    else:
        hist.append(["stream"] + stop())
        if api == "session" and thorough and rng.random() < 0.5:
            hist.append(["stream"] + (stop() if rng.random() < 0.5 else ["drain", 0]))
    if api == "session" and thorough and rng.random() < 0.3:
        hist.append(["batch", "drain", 0])  # a batch run after the failed / abandoned streams ends like the first one
    return {"spec": spec, "kind": kind, "mode": mode, "api": api, "history": hist, "hashseed": rng.randint(0, 2**31 - 1), "nres": nres, "nfast": nfast}


def flat_spec(spec: Dict[str, Any]) -> Dict[str, Any]:
    """the units as one schedlib spec (roots / groups / request)"""
    return {"roots": [u["root"] for u in spec["units"]], "groups": [g for u in spec["units"] for g in u["groups"]], "request": spec["request"]}


def step_tables(spec: Dict[str, Any], only_fast: bool = False, without_failed: bool = False) -> List[Any]:
    """Independent reference: the complete result table of every feature-group step that carries requested features (canonical form of
    schedlib.tables_canon).  only_fast: steps of units without any role; without_failed: not the failing groups and what is above them."""
    from harness import schedlib as S

    want = {r["name"] for r in spec["request"]}
    roles = spec.get("roles", {})
    out = []
    for u in spec["units"]:
        vals = S.reference({"roots": [u["root"]], "groups": u["groups"]})
        chain = [{"name": u["root"]["name"], "features": u["root"]["cols"]}] + u["groups"]
        if only_fast and any(g["name"] in roles for g in chain):
            continue
        for g in chain:
            if without_failed and roles.get(g["name"], {}).get("role") == "fail":
                break  # the failing step and every step that needs it have no result
            cols = sorted(f for f in g["features"] if f in want)
            if cols:
                out.append([[c, vals[c]] for c in cols])
    return sorted(out, key=lambda x: json.dumps(x, default=str))


# ======================================================================================================================
# child: runs the real code, reports JSON
# ======================================================================================================================


def _role_hooks(roles: Dict[str, Any]) -> Dict[str, Any]:
    from harness import fgfactory as F

    def before_calc(cls: Any, data: Any, features: Any) -> None:
        r = roles.get(cls.__name__)
        if not r:
            return
        if r["role"] == "busy":
            F.log_event(ev="fb_busy", group=cls.__name__)
            time.sleep(r["seconds"])
            F.log_event(ev="fb_busy_end", group=cls.__name__)
        elif r["role"] == "fail" and r["at"] == "before":
            if r["delay"]:
                time.sleep(r["delay"])
            F.log_event(ev="fb_raise", group=cls.__name__)
            raise RuntimeError(f"{FAILMSG} {cls.__name__}")

    def after_calc(cls: Any, data: Any, features: Any, result: Any) -> Any:
        r = roles.get(cls.__name__)
        if r and r["role"] == "fail" and r["at"] == "after":
            if r["delay"]:
                time.sleep(r["delay"])
            F.log_event(ev="fb_raise", group=cls.__name__)
            raise RuntimeError(f"{FAILMSG} {cls.__name__}")
        return None

    return {"before_calc": before_calc, "after_calc": after_calc}


def _guarded_nondaemon(fn: Any, timeout: float) -> Tuple[bool, Any]:
    """like schedlib.guarded, but the helper thread is NOT a daemon: threads started by the orchestrator inherit the flag, and a user's
    orchestrator normally runs in the (non-daemon) main thread"""
    import threading

    box: Dict[str, Any] = {}

    def target() -> None:
        try:
            box["r"] = fn()
        except BaseException as e:  # noqa
            box["e"] = e

    th = threading.Thread(target=target, daemon=False, name="verif-consumer")
    th.start()
    th.join(timeout)
    if th.is_alive():
        return False, None
    return True, box.get("e", box.get("r"))


def _child_case(job: Dict[str, Any]) -> Dict[str, Any]:
    import gc
    import multiprocessing
    import tempfile
    import threading

    from harness import fgfactory as F
    from harness import schedlib as S
    from mloda.user import mloda, stream_all

    spec = job["spec"]
    fspec = flat_spec(spec)
    mode = job["mode"]
    classes = S.build_classes(fspec, hooks=_role_hooks(spec["roles"]))
    common: Dict[str, Any] = {"compute_frameworks": S.frameworks_of(fspec), "plugin_collector": F.collector(set(classes.values()))}
    fs = S.flight_server() if mode == "mp" else None
    srv = S._flight
    flight_pid = srv.flight_server_process.pid if srv is not None and srv.flight_server_process is not None else None
    runkw: Dict[str, Any] = {"parallelization_modes": {S.MODES[mode]}, "flight_server": fs}
    session = mloda.prepare(S.features_of(fspec), **common) if job["api"] == "session" else None
    exp = S.export_plan(session) if session is not None else None
    out: Dict[str, Any] = {"runs": [], "plan": S.lean_plan(exp)["steps"] if exp is not None else None,
                           "plan_groups": [s.get("group") for s in exp["steps"]] if exp is not None else None}  # fmt: skip
    maxbusy = max([r.get("seconds", 0.0) for r in spec["roles"].values()], default=0.0)

    def procs() -> List[int]:
        return [p.pid for p in multiprocessing.active_children() if p.pid != flight_pid]

    def call(what: str, behaviour: str, k: int) -> Dict[str, Any]:
        items: List[Any] = []
        err: Optional[BaseException] = None
        stopped = False
        t_stop: Optional[int] = None
        base = {t.ident for t in threading.enumerate()}
        t0 = time.monotonic_ns()
        try:
            if what == "batch":
                items = list(session.run(**runkw) if session is not None else mloda.run_all(S.features_of(fspec), **common, **runkw))
            else:
                gen = session.stream_run(**runkw) if session is not None else stream_all(S.features_of(fspec), **common, **runkw)
                for item in gen:
                    items.append(item)
                    if behaviour != "drain" and len(items) >= k:
                        stopped = True
                        t_stop = time.monotonic_ns()
                        if behaviour == "throw":
                            try:
                                gen.throw(RuntimeError("consumer failed"))
                            except (RuntimeError, StopIteration):
                                pass
                        elif behaviour == "close":
                            gen.close()
                        del gen  # "drop": the for statement holds the last reference, it goes when the loop is left
                        break
                gc.collect()
            t_end = time.monotonic_ns()
        except BaseException as e:  # noqa
            t_end = time.monotonic_ns()  # the moment the failure reached the consumer
            err = e
        # --- the run is over for the consumer: what of it is still there, right now?
        threads = [t for t in threading.enumerate() if t.ident not in base and t.is_alive() and not t.name.startswith("QueueFeederThread")]
        tnames = [{"name": t.name, "ident": t.ident, "daemon": t.daemon} for t in threads]
        p0 = procs()
        return {"items": items, "error": err, "stopped": stopped, "t0": t0, "t_end": t_end, "t_stop": t_stop, "threads": threads, "tnames": tnames, "procs0": p0}

    for what, behaviour, k in job["history"]:
        rec: Dict[str, Any] = {"what": what, "behaviour": behaviour, "k": k}
        fin = False
        res: Any = None
        events: List[Dict[str, Any]] = []
        for attempt in range(2):
            fd, path = tempfile.mkstemp(prefix="verif_ev_", suffix=".jsonl")
            os.close(fd)
            os.environ[F.LOG_ENV] = path
            t_w = time.time()
            fin, res = _guarded_nondaemon(lambda: call(what, behaviour, k), RUN_TIMEOUT)
            rec["wall"] = round(time.time() - t_w, 2)
            if fin and not isinstance(res, BaseException):
                # leftovers a second look later (a terminated process may need a moment to be reaped), then let everything that is still
                # running run out, so that what it does after the call ended is in the log and nothing leaks into the next run
                p1: List[int] = []
                if res["procs0"]:
                    time.sleep(0.25)
                    p1 = [p for p in procs() if p in res["procs0"]]
                res["procs1"] = p1
                never = []
                for t in res["threads"]:
                    t.join(maxbusy + 10.0)
                    if t.is_alive():
                        never.append(t.name)
                res["never_ended"] = never
                deadline = time.time() + 3.0
                while procs() and time.time() < deadline:
                    time.sleep(0.02)
                res["procs_3s"] = procs()
                if res["procs_3s"]:
                    S.kill_stray_children()
            time.sleep(0.01)
            events = S.read_events(path)
            os.environ.pop(F.LOG_ENV, None)
            try:
                os.unlink(path)
            except OSError:
                pass
            if fin:
                break
            S.kill_stray_children()  # a hang that does not reproduce is a fork flake (see schedlib.run_session), one that does is reported
            rec["hang_retried"] = True
        if not fin:
            rec["timeout"] = True
            out["runs"].append(rec)
            break
        if isinstance(res, BaseException):
            raise res
        e = res["error"]
        rec["error"] = None if e is None else {"type": type(e).__name__, "msg": ("".join(str(a) for a in e.args) if e.args else repr(e))[-600:]}
        rec["tables"] = S.tables_canon(res["items"])
        rec["stopped"] = res["stopped"]
        t_end = res["t_end"]
        rec["t_call_s"] = round((t_end - res["t0"]) / 1e9, 3)
        rec["t_stop_ms"] = None if res["t_stop"] is None else round((res["t_stop"] - t_end) / 1e6, 1)
        rec["threads"] = res["tnames"]
        rec["procs0"] = res["procs0"]
        rec["procs1"] = res["procs1"]
        rec["procs_3s"] = res["procs_3s"]
        rec["never_ended"] = res["never_ended"]
        rec["main_pid"] = os.getpid()
        rec["events"] = [{"ev": ev["ev"], "g": ev.get("group"), "step": ev.get("step"), "kind": ev.get("kind"), "th": ev.get("thread"),
                          "dt": round((ev["t"] - t_end) / 1e6, 2), "own": ev.get("pid") == os.getpid(), "pid": ev.get("pid")} for ev in events]  # fmt: skip
        rec["flight_left"] = sorted(S.flight_keys()) if fs is not None else []
        if exp is not None and what == "stream" and behaviour == "drain":
            rec["obs"] = S.obs_of(exp, events)
        out["runs"].append(rec)
    return out


def child_main() -> None:
    import logging
    import threading

    logging.disable(logging.CRITICAL)
    threading.excepthook = lambda args: None
    from harness import schedlib as S

    jobs = json.loads(sys.stdin.read())
    S.install_step_observers()
    outs = []
    for job in jobs:
        try:
            o = _child_case(job)
        except BaseException:  # noqa
            import traceback

            o = {"crash": traceback.format_exc()[-2000:], "runs": []}
        outs.append(o)
    S.stop_flight_server()
    sys.stdout.write(MARK + json.dumps(outs, default=str) + MARK)
    sys.stdout.flush()
    os._exit(0)


# ======================================================================================================================
# parent: scheduling of the children, oracle
# ======================================================================================================================


def run_children(batches: List[List[Dict[str, Any]]], par: int) -> List[List[Dict[str, Any]]]:
    from harness.core import env_for_subprocess, VERIF

    def one(i: int) -> List[Dict[str, Any]]:
        last = ""
        for attempt in range(2):  # a child that dies without a report (port clash, fork flake) is started once more
            env = env_for_subprocess()
            env["PYTHONHASHSEED"] = str(batches[i][0]["hashseed"] % 4294967295)
            env.pop("VERIF_EVENT_LOG", None)
            try:
                p = subprocess.run(["/venv/bin/python", "-m", "harness.corr.c13_failbusy", "--child"], input=json.dumps(batches[i]), cwd=str(VERIF), env=env,
                                   stdout=subprocess.PIPE, stderr=subprocess.PIPE, text=True, timeout=RUN_TIMEOUT * 2 * sum(len(j["history"]) for j in batches[i]) + 120)  # fmt: skip
            except subprocess.TimeoutExpired as e:
                last = f"child timed out: {e}"
                continue
            if p.stdout.count(MARK) == 2:
                return list(json.loads(p.stdout.split(MARK)[1]))
            last = f"rc={p.returncode} stderr={p.stderr[-1500:]}"
        raise RuntimeError(f"C13 failbusy child {i} produced no report: {last}")

    with ThreadPoolExecutor(max_workers=max(1, par)) as ex:
        return list(ex.map(one, range(len(batches))))


def _counts(tables: List[Any]) -> Dict[str, int]:
    c: Dict[str, int] = {}
    for t in tables:
        key = json.dumps(t, default=str)
        c[key] = c.get(key, 0) + 1
    return c


def leftovers(r: Dict[str, Any], mode: str) -> Dict[str, Any]:
    """what of the run is still there at the moment the call ended in the consumer (dt = 0), read off the child's report"""
    closed_at: Dict[str, float] = {}
    for e in r["events"]:
        if e["ev"] in ("end", "fail", "fb_raise") and e["g"] is not None:
            closed_at.setdefault(e["g"], e["dt"])
    open_calcs = []
    for e in r["events"]:
        # a calculation of THIS process (worker threads / sync) that had begun and was not through; a calculation inside a worker process
        # that was terminated is gone with its process - those are judged through the process list
        if e["ev"] == "begin" and e["own"] and e["dt"] <= 0 and not (e["g"] in closed_at and closed_at[e["g"]] <= 0):
            open_calcs.append({"group": e["g"], "began_ms": e["dt"], "ended_ms": closed_at.get(e["g"])})
    late = [{"ev": e["ev"], "what": e["g"] or e["kind"], "ms_after": e["dt"], "in_worker_process": not e["own"]} for e in r["events"] if e["dt"] > 0]
    out = {
        "threads": [t["name"] for t in r["threads"]],
        "executing": open_calcs,
        "late": late,
        "processes": r["procs1"],
        "flight": r["flight_left"],
    }
    return {k_: v for k_, v in out.items() if v}


def class_hit(r: Dict[str, Any], kind: str) -> Tuple[bool, str]:
    """was a busy calculation really under way when the other step failed / when the consumer stopped?"""
    ev = r["events"]
    busy_b = {e["g"]: e["dt"] for e in ev if e["ev"] == "fb_busy"}
    busy_e = {e["g"]: e["dt"] for e in ev if e["ev"] == "fb_busy_end"}
    fails = [e["dt"] for e in ev if e["ev"] == "fb_raise"]
    if kind in ("failbusy", "failstop") and fails and not (r["stopped"] and not r["error"]):
        t = min(fails)
        hit = any(b <= t + 1e-9 and (g not in busy_e or busy_e[g] > t) for g, b in busy_b.items())
        # the step failed, and the busy calculation began in the rest of that sweep of the main loop - before the loop head raised
        later = any(t < b <= 0 for b in busy_b.values())
        return hit or later, "busy-at-failure" if hit else ("busy-began-between-failure-and-raise" if later else "busy-never-began" if not busy_b else "busy-over-before-failure")
    if r["stopped"] and r["t_stop_ms"] is not None:
        t = r["t_stop_ms"]
        hit = any(b <= t and (g not in busy_e or busy_e[g] > t) for g, b in busy_b.items())
        # the consumer stopped before the busy calculation began, but close() / throw() / the drop met it under way
        later = any(t < b <= 0 for b in busy_b.values())
        return hit or later, "busy-at-stop" if hit else ("busy-began-between-stop-and-cleanup" if later else "not-busy-at-stop")
    return False, "no-failure-no-stop" if not fails else "failure-nothing-busy"


def judge(ctx: Any, job: Dict[str, Any], rep: Dict[str, Any], lean_reqs: List[Any], metas: List[Any]) -> None:
    spec, mode, kind = job["spec"], job["mode"], job["kind"]
    case = {"spec": spec, "kind": kind, "mode": mode, "api": job["api"], "history": job["history"], "hashseed": job["hashseed"]}
    if rep.get("crash"):
        raise RuntimeError("C13 failbusy child crashed:\n" + rep["crash"])
    ref = step_tables(spec)
    refc = _counts(ref)
    okc = _counts(step_tables(spec, without_failed=True))
    failing = sorted(g for g, r_ in spec["roles"].items() if r_["role"] == "fail")
    nbusy = sum(1 for r_ in spec["roles"].values() if r_["role"] == "busy")
    batch: Optional[Dict[str, Any]] = None
    for i, r in enumerate(rep["runs"]):
        sub = dict(case, history=job["history"][: i + 1])
        what, beh, k = r["what"], r["behaviour"], r["k"]
        if r.get("timeout"):
            ctx.case("failbusy", sub, False, fb_mode=mode, fb_call=f"{what}/{beh}", fb_outcome="timeout")
            ctx.violation("failbusy", sub, f"{what} run ({beh}) did not end within {RUN_TIMEOUT:.0f} s, twice", "timeout", "return or raise")
            return
        hit, how = class_hit(r, kind)
        left = leftovers(r, mode)
        outcome = "error" if r["error"] else ("stopped" if r["stopped"] else "tables")
        ended = "failed" if r["error"] else ("abandoned:" + beh if r["stopped"] else "drained")
        ctx.case("failbusy", sub, hit and what == "stream" and mode != "sync", fb_kind=kind, fb_mode=mode, fb_call=f"{what}/{beh}", fb_api=job["api"], fb_units=len(spec["units"]),
                 fb_frameworks="+".join(sorted({u["root"]["fw"] for u in spec["units"]})), fb_failing=len(failing), fb_busy=nbusy,
                 fb_fail_at="+".join(sorted({r_["at"] + ("@root" if r_["pos"] == 0 else "@derived") for r_ in spec["roles"].values() if r_["role"] == "fail"})) or "-",
                 fb_busy_at="+".join(sorted({"root" if r_["pos"] == 0 else "derived" for r_ in spec["roles"].values() if r_["role"] == "busy"})) or "-",
                 fb_outcome=outcome, fb_class_hit=how if mode != "sync" else "control-sync:" + how, fb_yielded_before_end=min(len(r["tables"]), 3) if what == "stream" else "-",
                 fb_call_s=f"{int(r['t_call_s'] * 2) / 2:.1f}+")  # fmt: skip
        if r.get("hang_retried"):
            ctx.tag("failbusy_hang_retried", 1)
        if r.get("never_ended"):
            ctx.tag("failbusy_leaked_thread_never_ended", 1)
        tail = f" [{mode}, {len(spec['units'])} independent units, failing {failing or '-'}, busy {nbusy}, {how}, call took {r['t_call_s']} s]"
        # ---- outcome against the request itself: a request with a failing group raises that group's error, one without returns
        if r["error"]:
            named = [g for g in failing if f"{FAILMSG} {g}" in r["error"]["msg"]]
            if not failing:
                ctx.violation("failbusy", sub, f"the {what} run raised although no group of the request fails: {r['error']['type']}: {r['error']['msg'][-200:]}" + tail, r["error"], "tables")
            elif not named:
                ctx.violation("failbusy", sub, f"the {what} run raised something else than the failing group's error: {r['error']['type']}: {r['error']['msg'][-200:]}" + tail,
                              r["error"], f"an error naming one of {failing}")  # fmt: skip
        elif failing and not r["stopped"]:
            ctx.violation("failbusy", sub, f"the {what} run returned although a group of the request raises" + tail, f"{len(r['tables'])} tables", f"error of {failing}")
        if what == "batch":
            if batch is None:
                batch = r
            else:  # a batch run after failed / abandoned streams on the same session ends like the first batch run
                if (batch["error"] or {}).get("type") != (r["error"] or {}).get("type") or (not r["error"] and _counts(r["tables"]) != _counts(batch["tables"])):
                    ctx.violation("failbusy", sub, "a batch run after failed / abandoned streamed runs on the same session ends differently from the first batch run" + tail,
                                  r["error"] or r["tables"], batch["error"] or batch["tables"])  # fmt: skip
            if left:
                ctx.tag("failbusy_batch_leftovers", "+".join(sorted(left)))  # the batch side alone is C09's subject; compared with the stream below
            continue
        assert batch is not None
        got, want = r["tables"], batch["tables"]
        bt, st_ = (batch["error"] or {}).get("type"), (r["error"] or {}).get("type")
        # ---- same arguments, same end
        if bt != st_ and (not r["stopped"] or bt is None):
            ctx.violation("failbusy", sub, "the streamed run and the batch run with the same arguments end differently (raised error / tables): "
                          f"stream -> {st_ or str(len(got)) + ' tables'}, batch -> {bt or str(len(want)) + ' tables'}" + tail,
                          r["error"] or f"{len(got)} tables", batch["error"] or f"{len(want)} tables")  # fmt: skip
        # ---- every yielded item: a complete table of one step that did not fail, none twice
        gotc = _counts(got)
        for t in got:
            key = json.dumps(t, default=str)
            if key not in refc:
                ctx.violation("failbusy", sub, "a yielded item is not the complete table (requested columns of one group, all rows, reference values) of one feature-group step" + tail, t, ref)
                break
            if key not in okc:
                ctx.violation("failbusy", sub, "the stream yielded a table of a step that failed (or of a step above the failed one)" + tail, t, [json.loads(x) for x in okc])
                break
            if gotc[key] > 1:
                ctx.violation("failbusy", sub, "the stream yielded a table twice" + tail, t, "once")
                break
        if not r["error"] and not r["stopped"] and not batch["error"] and gotc != _counts(want):
            ctx.violation("failbusy", sub, f"multiset of streamed tables differs from the batch result of the same arguments (yielded {len(got)}, batch {len(want)})" + tail, got, want)
        if r["stopped"] and len(got) > k:
            ctx.violation("failbusy", sub, "generator yielded after the consumer stopped" + tail, len(got), k)
        # ---- the resource clause: abandoning or failing the generator releases the run's resources
        if left:
            bleft = leftovers(batch, mode)
            parts = []
            if "threads" in left:
                parts.append(f"{len(left['threads'])} worker thread(s) of the run still alive ({', '.join(left['threads'][:3])})")
            if "executing" in left:
                parts.append("calculate_feature of " + ", ".join(sorted({o['group'] for o in left['executing']})) + " still executing")
            if "late" in left:
                parts.append(f"the run's code went on executing for {max(e['ms_after'] for e in left['late']) / 1000:.2f} s afterwards "
                             f"({', '.join(sorted({e['ev'] + ' ' + str(e['what']) for e in left['late']}))[:160]})")  # fmt: skip
            if "processes" in left:
                parts.append(f"{len(left['processes'])} worker process(es) still alive 0.25 s later")
            if "flight" in left:
                parts.append(f"{len(left['flight'])} dataset(s) left on the flight server")
            moment = {"failed": "when the exception of the failed stream reached the consumer", "drained": "when the drained stream ended"}.get(ended, f"when {beh}() of the abandoned generator had returned"
                                                                                                                                                   if beh != "drop" else "when the dropped generator was finalised")  # fmt: skip
            ctx.violation("failbusy", sub, f"resources of the streamed run not released {moment}: " + "; ".join(parts) +
                          f" - batch run with the same arguments: {'the same kind of leftovers' if sorted(bleft) == sorted(left) else ('nothing left' if not bleft else 'leaves ' + '+'.join(sorted(bleft)))}" + tail,
                          left, {})  # fmt: skip
        elif batch is not None and leftovers(batch, mode) and (batch["error"] or {}).get("type") == st_:
            ctx.violation("failbusy", sub, "the batch run leaves resources behind that the streamed run with the same arguments releases: " + "+".join(sorted(leftovers(batch, mode))) + tail,
                          leftovers(batch, mode), {})  # fmt: skip
        if r["procs_3s"]:
            ctx.tag("failbusy_processes_alive_after_3s", 1)
        # ---- model: the drained trace (with its fail event) is a behaviour of the scheduler model, which raises iff the stream raised
        if "obs" in r and rep.get("plan") is not None:
            lean_reqs.append({"op": "C13.accepts", "steps": rep["plan"], "obs": r["obs"]})
            metas.append((sub, r, [j for j, g in enumerate(rep["plan_groups"]) if g in failing], hit))


def plan_cases(ctx: Any) -> Tuple[List[List[Dict[str, Any]]], int]:
    thorough = not ctx.quick
    rng = ctx.rng
    if ctx.quick:
        mix = [("failbusy", "thread")] * 9 + [("failbusy", "mp")] * 3 + [("failstop", "thread")] * 2 + [("failstop", "mp")] + [("abandon", "thread")] * 3 + [("abandon", "mp")] * 2 + [
            ("failonly", "thread"), ("failonly", "mp"), ("busydrain", "thread"), ("busydrain", "mp"), ("failbusy", "sync"), ("abandon", "sync")]  # fmt: skip
        n = ctx.budget(len(mix), len(mix))
        cases = [gen_case(rng, *mix[i % len(mix)], thorough=False) for i in range(n)]
        per = 3
    else:
        n = ctx.budget(14, 160)
        cases = []
        for _ in range(n):
            kind = rng.choice(["failbusy"] * 5 + ["failstop"] * 2 + ["abandon"] * 2 + ["failonly", "busydrain"])
            mode = rng.choice(["thread"] * 5 + ["mp"] * 2 + ["sync"])
            cases.append(gen_case(rng, kind, mode, thorough=True))
        per = 4
    # spread the slow (THREADING / SYNC wait for the busy step) cases over the children
    cases.sort(key=lambda j: -sum(r_.get("seconds", 0.0) for r_ in j["spec"]["roles"].values()) * (len(j["history"]) if j["mode"] != "mp" else 0.3))
    nb = max(1, (len(cases) + per - 1) // per)
    batches: List[List[Dict[str, Any]]] = [[] for _ in range(nb)]
    for i, j in enumerate(cases):
        batches[i % nb].append(j)
    return [b for b in batches if b], (8 if thorough else 9)


def run_batches(ctx: Any, batches: List[List[Dict[str, Any]]], par: int) -> None:
    t0 = time.time()
    reports = run_children(batches, par)
    lean_reqs: List[Any] = []
    metas: List[Any] = []
    for jobs, reps in zip(batches, reports):
        for job, rep in zip(jobs, reps):
            judge(ctx, job, rep, lean_reqs, metas)
    if lean_reqs and ctx.lean is not None:
        outs = ctx.lean.batch(lean_reqs)
        for rq, (sub, r, fail_steps, hit), o in zip(lean_reqs, metas, outs):
            mcase = {"case": sub, "obs": rq["obs"]}
            ctx.case("failbusy_model", mcase, bool(hit), fb_model_accepts=bool(o.get("ok")), fb_model_raised=bool(o.get("ok") and o["state"]["raised"] is not None))
            if not o.get("ok"):
                ctx.disagree("failbusy_model", mcase, "observed step trace of the drained stream", o)
                continue
            st = o["state"]
            impl = {"raised": r["error"] is not None, "yielded": len(r["tables"])}
            model = {"raised": st["raised"] is not None, "raised_step_is_failing_group": st["raised"] is None or st["raised"] in fail_steps, "results": len(st["results"])}
            # the model collects every completed result step before it raises; the real loop may raise with completed results uncollected
            if impl["raised"] != model["raised"] or not model["raised_step_is_failing_group"] or impl["yielded"] > model["results"] or (not impl["raised"] and impl["yielded"] != model["results"]):
                ctx.disagree("failbusy_model", mcase, impl, model)
    ctx.extra["failbusy_wall_s"] = round(time.time() - t0, 1)


def run(ctx: Any) -> None:
    rule = ctx.extra.get("rule", "")
    ctx.extra["rule"] = rule + (
        " || failbusy: generated requests over 2-4 INDEPENDENT units (root + chain of 0-2 derived groups each); one group of one unit raises (at once / after "
        "a short delay, before / after computing), one group of another unit sleeps 0.5-2 s, the rest is fast; THREADING (one worker thread per step), "
        "MULTIPROCESSING (one worker process per unit), SYNC as control; run_all|session.run vs stream_all|session.stream_run with the same arguments, consumer "
        "drains (until the stream raises) | stops after k items (close, drop, throw) while the busy step runs, repeated streams on one session: same end "
        "(error class, the failing group's error), yielded items are distinct complete step tables per reference evaluation, and at the moment the "
        "exception reaches the consumer / close() returns no worker thread of the run is alive, no calculate_feature still executing, no later event, "
        "no worker process, no flight dataset; non-trivial = the event log shows a calculation under way when the other step failed / the consumer stopped"
    )
    batches, par = plan_cases(ctx)
    run_batches(ctx, batches, par)


def search(ctx: Any, broken: List[str]) -> None:
    run(ctx)


def replay(ctx: Any, body: Dict[str, Any]) -> None:
    case = body.get("case", {})
    if "case" in case and "spec" not in case:
        case = case["case"]
    hist = [list(h) for h in case["history"]]
    if hist[0][0] != "batch":
        hist = [["batch", "drain", 0]] + hist
    job = {"spec": case["spec"], "kind": case.get("kind", "failbusy"), "mode": case.get("mode", "thread"), "api": case.get("api", "all"), "history": hist,
           "hashseed": case.get("hashseed", 0)}  # fmt: skip
    run_batches(ctx, [[job]], 1)


if __name__ == "__main__":
    if "--child" in sys.argv:
        child_main()
