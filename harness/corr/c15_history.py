"""C15 extension `history`: identities along HISTORIES that mix hashing with mutation.

Property C15 quantifies over histories ("for all ... sequences of add/set/update operations; for all parent-child option
merges") and demands that equal objects hash equal.  The main module c15.py looks at `hash` only on objects that were
just built (suite ident) and at histories only through the state they leave behind (suite ops): an Options / Feature
object is never hashed, then changed, then hashed again.  mloda itself does exactly that on every dependency edge: a
feature group's `input_features()` returns a SET of Feature objects (which hashes every Feature and thereby its
Options), afterwards `Features.merge_options` -> `Options.update_with_protected_keys` pushes the dependent feature's
group options into them, and later `ExecutionPlan.group_features_by_compute_framework_and_options` keys a dict by
`similarity_key()` (which hashes the Options again).  The input class of this module is therefore

    a history on ONE object:  observe (hash / set / dict key / similarity-key dict)  ->  mutate (add_to_group,
    add_to_context, add, set, update_with_protected_keys, Features.merge_options, Features(...) with child options)
    ->  observe again, and compare with an equal object that was built fresh (and never hashed before).

Suites (REAL mloda code; oracle from the property text; model = the C15 driver, whose hashVal is a function of the state):

  hist_opts  histories on one Options object over the op alphabet of c15.suite_ops extended by observations.  At every
             observation a fresh twin is built from the current group (a deep copy, or an `==` morph: 1/True/1.0, dict
             order, list order kept).  Oracle: o == twin (both directions), hash(o) == hash(twin), {o, twin} has one
             element, {o: 1}[twin] and {(o, None): 1}[(twin, None)] are found.  Model: C15.optRun on the mutations
             (state after every call), C15.ident on (model state, twin): eq, and hash(decoded hashVal) == the hash the
             real object returned AT THAT POINT.
  hist_feat  the same on one Feature object: observations hash the feature (alone, in a set with a companion, as a
             similarity key), mutations go through feature.options or through Features([...], child_options=,
             child_uuid=) - the engine's own call for input features (child_options set + merge).  Oracle at every
             observation against a fresh twin Feature: ==, equal hash, one set element, similarity_key() equal AND
             has_similarity_properties() equal, dict keyed by similarity_key() finds the twin's key; and the real
             grouping function on {feature, sibling with the same group options / framework / type and another
             context, untyped sibling, stranger with another group}: judged by c15.grouping_oracle.  Model:
             C15.optRun (options after every mutation), C15.ident kind feature, C15.group.
  hist_e2e   mloda.run_all on generated universes: a root group R (int columns), a derived group G and sometimes a
             second derived group H whose input_features() return a set / frozenset of Feature objects that are TYPED
             (Feature(.., data_type=INT64|INT32|DOUBLE)) or untyped and may carry own options; requests ask derived
             features WITH group options (they are merged into the already hashed input features) and ask root /
             first-layer features DIRECTLY with the literal options the merge produces (same / other declared type,
             other context).  Oracle A: every feature computed carries exactly the documented propagated options.
             Oracle B (property text): per feature group the composition of the calculate_feature calls - together
             exactly when group options, framework and declared type agree (c15.grouping_oracle on what the calls saw).
"""
from __future__ import annotations

import copy
import json
import os
import signal
from typing import Any, Dict, List, Optional, Set, Tuple
from uuid import uuid4

from harness.core import Ctx, cjson
from harness import fgfactory as F
from harness.corr import c15 as M

SUITES = {"hist_opts", "hist_feat", "hist_group", "hist_e2e"}

ASSUMPTIONS = [
    "history: Options.group / Options.context are changed only through the class' methods and through Features / Features.merge_options (as in c15: no direct item assignment)",
    "history: the fresh twin of an object is built through the public constructors from deep copies of the object's current group / context (an `==` morph of the group in a part of the cases); it has never been hashed before the comparison",
    "history: a Python set / dict that already holds a mutable object when it is changed keeps it in its old bucket - that is Python's contract and is not judged; judged are hash / == / containers built AFTER the change",
    "history e2e: within R, G and H no feature depends on another feature of the same group (H is a separate class), so 'neither depends on the other' holds for every pair inside one group",
]

ADDERS = {"add": "add", "addToGroup": "add_to_group", "addToContext": "add_to_context", "set": "set"}
OBS_ROUTES = ["hash", "hash", "set", "dict", "frozenset", "simkey"]


# --------------------------------------------------------------------------------------------------
# specs <-> real objects


def mk_options(state: Dict[str, Any], reg: M.Reg) -> Any:
    from mloda.core.abstract_plugins.components.options import Options

    return Options(
        group={k: M.dec(v, reg) for k, v in state["group"]},
        context={k: M.dec(v, reg) for k, v in state["context"]},
        propagate_context_keys=frozenset(state.get("propagate") or []),
    )


def fresh_options(o: Any) -> Any:
    """an Options object with the same content, built through the constructor from deep copies (never hashed)"""
    from mloda.core.abstract_plugins.components.options import Options

    return Options(group=copy.deepcopy(dict(o.group)), context=copy.deepcopy(dict(o.context)), propagate_context_keys=frozenset(o.propagate_context_keys))


def apply_mutation(o: Any, op: Dict[str, Any], reg: M.Reg) -> Optional[str]:
    """one mutating call of the op alphabet on the real Options object; returns the error tag (None = no exception)"""
    from mloda.core.abstract_plugins.components.feature_collection import Features

    kind = op["op"]
    try:
        if kind in ADDERS:
            getattr(o, ADDERS[kind])(op["k"], M.dec(op["v"], reg))
        elif kind == "merge":
            Features.merge_options(None, o, mk_options(op["other"], reg))  # type: ignore[arg-type]
        elif kind == "update":
            o.update_with_protected_keys(mk_options(op["other"], reg), None if op["protected"] is None else set(op["protected"]))
        else:
            raise KeyError(kind)
    except (ValueError, TypeError) as e:
        return M.err_tag(e)
    return None


def touch(x: Any, route: str, keep: List[Any]) -> Any:
    """hash the object the way the given route does; containers stay alive in `keep` for the rest of the history"""
    try:
        if route == "set":
            keep.append({x})
        elif route == "dict":
            keep.append({x: len(keep)})
        elif route == "frozenset":
            keep.append(frozenset([x]))
        elif route == "simkey":
            keep.append({(x, None): 1})
        return hash(x)
    except TypeError as e:
        return "raise:" + ("unhashable" if "unhashable" in str(e) else str(e)[:60])


def compare_with_twin(x: Any, twin: Any) -> Dict[str, Any]:
    """everything the property says about two equal objects; x is the object with the history, twin is fresh"""
    out: Dict[str, Any] = {"eq": M.eq_or_raise(x, twin), "eq_rev": M.eq_or_raise(twin, x), "ne": bool(x != twin), "h_twin": M.h_or_raise(twin), "h_again": M.h_or_raise(x)}
    if isinstance(out["h_twin"], int) and isinstance(out["h_again"], int):
        out["set_len"] = len({x, twin})
        out["set_len_rev"] = len({twin, x})
        out["dict_get"] = {x: 1}.get(twin)
        out["dict_get_rev"] = {twin: 1}.get(x)
        out["tuple_key_get"] = {(x, None): 1}.get((twin, None))
        out["in_frozenset"] = twin in frozenset([x])
    return out


def judge_twin(ctx: Ctx, suite: str, case: Any, what: str, h: Any, cmp_: Dict[str, Any], finding_class: Optional[str] = None) -> bool:
    """oracle (property text): equal objects hash equal, and sets / dicts behave accordingly.  True = a breach was reported"""
    bad: List[str] = []
    if cmp_["eq"] is not True or cmp_["eq_rev"] is not True or cmp_["ne"] is not False:
        bad.append(f"is not == to a freshly built {what} with the same content (==: {cmp_['eq']}, reversed: {cmp_['eq_rev']}, !=: {cmp_['ne']})")
    if isinstance(h, int) != isinstance(cmp_["h_twin"], int):
        bad.append(f"hash raises on one of two equal objects only ({h} / {cmp_['h_twin']})")
    elif isinstance(h, int):
        if h != cmp_["h_twin"]:
            bad.append(f"== a freshly built {what} but hashes differently")
        if cmp_["h_again"] != h:
            bad.append("hash changed between two calls without a mutation in between")
        if cmp_.get("set_len") != 1 or cmp_.get("set_len_rev") != 1:
            bad.append(f"a set built from the object and its equal twin has {cmp_.get('set_len')} / {cmp_.get('set_len_rev')} elements")
        if cmp_.get("dict_get") != 1 or cmp_.get("dict_get_rev") != 1 or cmp_.get("tuple_key_get") != 1 or cmp_.get("in_frozenset") is not True:
            bad.append("a dict / frozenset keyed by the object does not find the equal twin")
    if bad:
        ctx.violation(suite, case, f"{what} with a history: " + "; ".join(bad), {"hash": h, **cmp_}, "equal objects hash equal at every point of the history", finding_class=finding_class)
    return bool(bad)


# --------------------------------------------------------------------------------------------------
# generation of mutations (steered by a pilot object that runs the same real code)


def gen_other(rng: Any, o: Any, reg: M.Reg, aim: float = 0.5) -> Any:
    """the `other` Options of an update / merge: fresh keys flow into the group; part of the time keys of `o` are reused"""
    other, _ = M.gen_options(rng, reg)
    if rng.random() < aim and (o.group or o.context):
        for k in rng.sample(list(o.group.keys()) + list(o.context.keys()), rng.randint(1, min(2, len(o.group) + len(o.context)))):
            val = copy.deepcopy(o.get(k)) if rng.random() < 0.6 else M.gen_val(rng, 1)
            try:
                if rng.random() < 0.6:
                    other.add_to_group(k, val)
                else:
                    other.add_to_context(k, val)
                    if rng.random() < 0.6:
                        other.propagate_context_keys = frozenset(set(other.propagate_context_keys) | {k})
            except ValueError:
                pass
    return other


def gen_mutation(rng: Any, o: Any, reg: M.Reg) -> Dict[str, Any]:
    r = rng.random()
    if r < 0.45:
        kind = rng.choice(["add", "addToGroup", "addToGroup", "addToContext", "set", "set"])
        k = M.gen_key(rng) if rng.random() < 0.55 or not (o.group or o.context) else rng.choice(list(o.group.keys()) + list(o.context.keys()))
        if M.kstr(k) == "feature_chainer_parser_key":
            v = M.gen_chainer_value(rng)
        elif rng.random() < 0.35 and o.get(k) is not None:
            v = M.morph(rng, copy.deepcopy(o.get(k)))
        else:
            v = M.gen_val(rng, 1)
        return {"op": kind, "k": M.kstr(k), "v": M.enc(v, reg)}
    other = gen_other(rng, o, reg)
    if r < 0.75:
        return {"op": "merge", "other": M.state_of(other, reg)}
    explicit = None if rng.random() < 0.6 else sorted(set(rng.sample(M.KEY_POOL + ["in_features"], rng.randint(0, 2))))
    return {"op": "update", "other": M.state_of(other, reg), "protected": explicit}


def gen_init(rng: Any, reg: M.Reg) -> Optional[Dict[str, Any]]:
    g = M.gen_dict(rng, 1, rng.randint(0, 3))
    c = {k: v for k, v in M.gen_dict(rng, 1, rng.randint(0, 2)).items() if k not in g}
    if rng.random() < 0.12:
        g[M.K().feature_chainer_parser_key] = M.gen_chainer_value(rng)
        c.pop(M.K().feature_chainer_parser_key, None)
        c.pop("feature_chainer_parser_key", None)
    for d in (g, c):
        for k in ("domain", "compute_framework"):
            d.pop(k, None)
    p = sorted({M.kstr(k) for k in c.keys() if rng.random() < 0.4})
    try:
        return {"group": M.enc_dict(g, reg), "context": M.enc_dict(c, reg), "propagate": p}
    except M.Unmodellable:
        return None


def same_state(a: Dict[str, Any], b: Dict[str, Any]) -> bool:
    return M.canon_state(a) == M.canon_state(b)


# --------------------------------------------------------------------------------------------------
# suite hist_opts


def gen_opts_history(rng: Any) -> Optional[Dict[str, Any]]:
    reg = M.Reg()
    init = gen_init(rng, reg)
    if init is None:
        return None
    try:
        pilot = mk_options(init, reg)
    except ValueError:
        return None
    ops: List[Dict[str, Any]] = []
    n = rng.randint(3, 9)
    hashed = False
    for i in range(n):
        last = i == n - 1
        if last or rng.random() < (0.45 if not hashed else 0.3):
            twin = "copy"
            op: Dict[str, Any] = {"op": "obs", "route": rng.choice(OBS_ROUTES), "twin": twin}
            if rng.random() < 0.4:
                try:
                    mg = M.morph(rng, copy.deepcopy(dict(pilot.group)))
                    if isinstance(mg, dict) and mg == pilot.group:
                        op["twin"] = "morph"
                        op["twin_group"] = M.enc_dict(mg, reg)
                except M.Unmodellable:
                    pass
            ops.append(op)
            hashed = True
            continue
        try:
            m = gen_mutation(rng, pilot, reg)
        except M.Unmodellable:
            continue
        apply_mutation(pilot, m, reg)
        ops.append(m)
    return {"init": init, "ops": ops}


def exec_opts_history(spec: Dict[str, Any]) -> Dict[str, Any]:
    from mloda.core.abstract_plugins.components.options import Options

    reg = M.Reg()
    o = mk_options(spec["init"], reg)
    keep: List[Any] = []
    steps: List[Dict[str, Any]] = []
    hashed_since: Optional[int] = None  # index of the last observation with no group change after it
    stale_by: List[str] = []  # mutations that changed the group after an observation
    for op in spec["ops"]:
        if op["op"] == "obs":
            h = touch(o, op["route"], keep)
            tg = None
            if op["twin"] == "morph":
                cand = {k: M.dec(v, reg) for k, v in op["twin_group"]}
                if cand == o.group:
                    tg = cand
            twin = Options(group=tg) if tg is not None else fresh_options(o)
            steps.append({"obs": True, "h": h, "cmp": compare_with_twin(o, twin), "twin_state": M.state_of(twin, reg), "state": M.state_of(o, reg),
                          "after_group_change_by": list(stale_by)})  # fmt: skip
            hashed_since = len(steps)
            stale_by = []
            continue
        before = copy.deepcopy(dict(o.group))
        err = apply_mutation(o, op, reg)
        changed = not (before == o.group) or list(map(M.kstr, before.keys())) != list(map(M.kstr, o.group.keys()))
        if changed and hashed_since is not None:
            stale_by.append(op["op"])
        steps.append({"obs": False, "err": err, "state": M.state_of(o, reg), "group_changed": changed})
        both = set(map(M.kstr, o.group)) & set(map(M.kstr, o.context))
        if both:
            steps[-1]["both"] = sorted(both)
    return {"steps": steps}


def suite_hist_opts(ctx: Ctx, only: Optional[List[Dict[str, Any]]] = None) -> None:
    rng = ctx.rng
    n = ctx.budget(1500, 30000)
    specs: List[Dict[str, Any]] = list(only) if only is not None else []
    while only is None and len(specs) < n:
        s = gen_opts_history(rng)
        if s is not None:
            specs.append(s)
    runs = []
    reqs = []
    for spec in specs:
        impl = exec_opts_history(spec)
        runs.append(impl)
        reqs.append({"op": "C15.optRun", "group": spec["init"]["group"], "context": spec["init"]["context"], "propagate": spec["init"]["propagate"],
                     "ops": [op for op in spec["ops"] if op["op"] != "obs"]})  # fmt: skip
    outs = ctx.lean.batch(reqs)
    ident_reqs: List[Dict[str, Any]] = []
    ident_ref: List[Tuple[Dict[str, Any], Dict[str, Any]]] = []
    for spec, impl, mo in zip(specs, runs, outs):
        steps = impl["steps"]
        obs = [s for s in steps if s["obs"]]
        routes = [op["route"] for op in spec["ops"] if op["op"] == "obs"]
        stale = [s for s in obs if s["after_group_change_by"]]
        ctx.case("hist_opts", spec, bool(stale), hist_opts_len=len(spec["ops"]), hist_opts_observations=len(obs),
                 hist_opts_hashed_then_group_changed_then_hashed="yes" if stale else "no")  # fmt: skip
        for s in stale:
            for k in sorted(set(s["after_group_change_by"])):
                ctx.tag("hist_opts_group_changed_after_hash_by", k)
        for r_ in routes:
            ctx.tag("hist_opts_route", r_)
        for op in spec["ops"]:
            if op["op"] == "obs":
                ctx.tag("hist_opts_twin", op["twin"])
        # ---- oracle
        for i, s in enumerate(steps):
            if s.get("both"):
                ctx.violation("hist_opts", spec, f"key(s) {s['both']} present in both group and context after step {i}", s["state"], "disjoint")
                break
            if s["obs"] and judge_twin(ctx, "hist_opts", {**spec, "at_step": i}, "Options", s["h"], s["cmp"]):
                break
        # ---- model: states after the mutations, then the hash at every observation
        if mo.get("init") is not None or len(mo.get("steps", [])) != len([s for s in steps if not s["obs"]]):
            ctx.disagree("hist_opts", spec, "constructor accepted / steps run", mo)
            continue
        mstate = mo["state"]
        mi = 0
        ok = True
        for i, s in enumerate(steps):
            if not s["obs"]:
                ms = mo["steps"][mi]
                mi += 1
                if ms.get("err") != s["err"] or not same_state(ms["state"], s["state"]):
                    ctx.disagree("hist_opts", {**spec, "at_step": i}, {"err": s["err"], "state": s["state"]}, ms)
                    ok = False
                    break
                mstate = ms["state"]
            else:
                ident_reqs.append({"op": "C15.ident", "kind": "options", "a": mstate, "b": s["twin_state"]})
                ident_ref.append(({**spec, "at_step": i}, s))
        if not ok:
            continue
    outs2 = ctx.lean.batch(ident_reqs)
    for r_, (case, s), o_ in zip(ident_reqs, ident_ref, outs2):
        why = []
        if "err" in o_:
            ctx.disagree("hist_opts", case, s["cmp"], o_)
            continue
        if o_["eq"] != s["cmp"]["eq"]:
            why.append("eq")
        if bool(o_["hashableA"]) != isinstance(s["h"], int):
            why.append("hashable")
        elif isinstance(s["h"], int):
            try:
                reg = M.Reg()
                if hash(M.dec(o_["ha"], reg)) != s["h"]:
                    why.append("hash-of-object-with-history")
                if hash(M.dec(o_["hb"], reg)) != s["cmp"]["h_twin"]:
                    why.append("hash-of-twin")
            except M.Unmodellable:
                pass
        if why:
            ctx.disagree("hist_opts", case, {"hash": s["h"], **s["cmp"]}, {"why": why, "eq": o_["eq"], "hvEq": o_.get("hvEq")})


# --------------------------------------------------------------------------------------------------
# suite hist_feat (+ hist_group)

DTYPES = [None, None, "INT64", "INT64", "INT32", "STRING"]
FWS = {None: None, "pa": ["PyArrowTable"], "pd": ["PandasDataFrame"], "pa+py": ["PyArrowTable", "PythonDictFramework"]}


def gen_feat_history(rng: Any) -> Optional[Dict[str, Any]]:
    reg = M.Reg()
    init = gen_init(rng, reg)
    if init is None:
        return None
    try:
        pilot = mk_options(init, reg)
    except ValueError:
        return None
    spec: Dict[str, Any] = {"name": rng.choice(["x", "y", "a__x"]), "init": init, "dtype": rng.choice(DTYPES), "fw": rng.choice([None, "pa", "pa", "pd", "pa+py"]), "ops": []}
    n = rng.randint(3, 8)
    hashed = False
    for i in range(n):
        last = i == n - 1
        r = rng.random()
        if last or r < (0.45 if not hashed else 0.3):
            spec["ops"].append({"op": "obs", "route": rng.choice(["hash", "set", "set", "dict", "simkey", "simkey"])})
            hashed = True
            continue
        try:
            if rng.random() < 0.55:
                # the engine's call for the input features of a dependent feature
                child = gen_other(rng, pilot, reg, aim=0.35)
                if rng.random() < 0.5:
                    child.propagate_context_keys = frozenset()
                op = {"op": "input", "child": M.state_of(child, reg), "via": rng.choice(["set", "set", "frozenset", "list"])}
                apply_mutation(pilot, {"op": "merge", "other": op["child"]}, reg)
            else:
                m = gen_mutation(rng, pilot, reg)
                apply_mutation(pilot, m, reg)
                op = {"op": "opt", "m": m}
        except M.Unmodellable:
            continue
        spec["ops"].append(op)
    return spec


def build_feature(spec: Dict[str, Any], reg: M.Reg) -> Any:
    from mloda.core.abstract_plugins.components.feature import Feature
    from mloda.core.abstract_plugins.components.data_types import DataType

    f = Feature(spec["name"], options=mk_options(spec["init"], reg), data_type=DataType[spec["dtype"]] if spec["dtype"] else None)
    fw = FWS[spec["fw"]]
    f.compute_frameworks = None if fw is None else {F.FRAMEWORKS[x] for x in fw}
    return f


def twin_feature(f: Any, name: Optional[str] = None, context: Optional[Dict[str, Any]] = None, group: Optional[Dict[str, Any]] = None, typed: bool = True, keep_child: bool = True) -> Any:
    """a freshly built Feature with the content of f (or a named variation of it)"""
    from mloda.core.abstract_plugins.components.feature import Feature
    from mloda.core.abstract_plugins.components.options import Options

    if group is None and context is None:
        o = fresh_options(f.options)
    else:
        g = copy.deepcopy(dict(f.options.group)) if group is None else group
        c = copy.deepcopy(dict(f.options.context)) if context is None else {k: v for k, v in context.items() if k not in g}
        o = Options(group=g, context=c)
    t = Feature(name or f.name.name, options=o, data_type=f.data_type if typed else None)
    t.domain = copy.deepcopy(f.domain)
    t.compute_frameworks = None if f.compute_frameworks is None else set(f.compute_frameworks)
    t.child_options = fresh_options(f.child_options) if (keep_child and f.child_options is not None) else None
    return t


def j_feature(f: Any, reg: M.Reg, options_state: Optional[Dict[str, Any]] = None) -> Dict[str, Any]:
    return {
        "name": f.name.name,
        "options": options_state if options_state is not None else M.state_of(f.options, reg),
        "domain": f.domain.name if f.domain is not None else None,
        "cfw": None if f.compute_frameworks is None else [reg.obj(c) for c in f.compute_frameworks],
        "dtype": None if f.data_type is None else reg.obj(f.data_type),
        "child": None if f.child_options is None else M.state_of(f.child_options, reg),
    }


def exec_feat_history(spec: Dict[str, Any], reg: M.Reg) -> Dict[str, Any]:
    """runs the history on a real Feature; `reg` is shared with the model requests (class / enum identities)"""
    from mloda.core.abstract_plugins.components.feature import Feature
    from mloda.core.abstract_plugins.components.feature_collection import Features
    from mloda.core.prepare.execution_plan import ExecutionPlan

    f = build_feature(spec, reg)
    ep = ExecutionPlan()
    keep: List[Any] = []
    steps: List[Dict[str, Any]] = []
    stale_by: List[str] = []
    hashed = False
    for op in spec["ops"]:
        if op["op"] == "obs":
            route = op["route"]
            if route == "simkey":
                keep.append({f.similarity_key(): 1})
                h = M.h_or_raise(f)
            else:
                h = touch(f, route, keep)
            twin = twin_feature(f)
            cmp_ = compare_with_twin(f, twin)
            sim: Dict[str, Any] = {}
            grouping = None
            if isinstance(h, int):
                sim = {"key_eq": bool(f.similarity_key() == twin.similarity_key()), "base_key_eq": bool(f.base_similarity_key() == twin.base_similarity_key()),
                       "sim_hash": [f.has_similarity_properties(), twin.has_similarity_properties()], "base_hash": [f.base_similarity_properties(), twin.base_similarity_properties()],
                       "dict_by_key": {f.similarity_key(): 1}.get(twin.similarity_key()), "dict_by_key_rev": {twin.similarity_key(): 1}.get(f.similarity_key())}  # fmt: skip
                # the grouping function on the feature with the history and freshly built relatives
                members = [f, twin_feature(f, name="sib", context={"zz_ctx": 1}, keep_child=False)]
                if f.data_type is not None:
                    members.append(twin_feature(f, name="untyped", typed=False, keep_child=False))
                other_group = copy.deepcopy(dict(f.options.group))
                other_group["zz_other"] = 1
                members.append(twin_feature(f, name="stranger", group=other_group, context={}, keep_child=False))
                S = set(members)
                order = list(S)
                real = ep.group_features_by_compute_framework_and_options(S)
                idx = {id(x): i for i, x in enumerate(order)}
                # the oracle runs after the history: judge a snapshot of f (the twin has the same content), not the live object
                grouping = {"order": [twin if x is f else x for x in order], "groups": sorted(sorted(idx[id(x)] for x in g) for g in real.values()),
                            "j": [M.j_gfeature(x, reg) for x in order]}  # fmt: skip
            steps.append({"obs": True, "h": h, "cmp": cmp_, "sim": sim, "grouping": grouping, "jf": j_feature(f, reg), "jt": j_feature(twin, reg),
                          "after_group_change_by": list(stale_by)})  # fmt: skip
            hashed = True
            stale_by = []
            continue
        before = copy.deepcopy(dict(f.options.group))
        if op["op"] == "opt":
            err = apply_mutation(f.options, op["m"], reg)
            label = op["m"]["op"]
            mop = op["m"]
        else:
            child = mk_options(op["child"], reg)
            companion = Feature("companion")
            members2: Any = [f, companion]
            if op["via"] == "set":
                members2 = {f, companion}  # what input_features() returns: the set hashes the features
            elif op["via"] == "frozenset":
                members2 = frozenset([f, companion])
            err = None
            try:
                Features([x for x in members2 if x is f], child_options=child, child_uuid=uuid4())
            except (ValueError, TypeError) as e:
                err = M.err_tag(e)
            label = "input-via-" + op["via"]
            # Features replaces empty child options by Options({}): same content
            mop = {"op": "merge", "other": op["child"]}
        changed = not (before == f.options.group) or list(map(M.kstr, before.keys())) != list(map(M.kstr, f.options.group.keys()))
        if changed and (hashed or label.startswith("input-via-set") or label.startswith("input-via-frozenset")):
            stale_by.append(label)
        steps.append({"obs": False, "err": err, "state": M.state_of(f.options, reg), "mop": mop})
    return {"steps": steps}


def suite_hist_feat(ctx: Ctx, only: Optional[List[Dict[str, Any]]] = None) -> None:
    rng = ctx.rng
    n = ctx.budget(700, 12000)
    specs: List[Dict[str, Any]] = list(only) if only is not None else []
    while only is None and len(specs) < n:
        s = gen_feat_history(rng)
        if s is not None:
            specs.append(s)
    reg = M.Reg()
    runs, reqs = [], []
    for spec in specs:
        impl = exec_feat_history(spec, reg)
        runs.append(impl)
        reqs.append({"op": "C15.optRun", "group": spec["init"]["group"], "context": spec["init"]["context"], "propagate": spec["init"]["propagate"],
                     "ops": [s["mop"] for s in impl["steps"] if not s["obs"]]})  # fmt: skip
    outs = ctx.lean.batch(reqs)
    ident_reqs: List[Dict[str, Any]] = []
    ident_ref: List[Tuple[Dict[str, Any], Dict[str, Any]]] = []
    group_reqs: List[Dict[str, Any]] = []
    group_ref: List[Tuple[Dict[str, Any], Dict[str, Any]]] = []
    for spec, impl, mo in zip(specs, runs, outs):
        steps = impl["steps"]
        obs = [s for s in steps if s["obs"]]
        stale = [s for s in obs if s["after_group_change_by"]]
        ctx.case("hist_feat", spec, bool(stale), hist_feat_len=len(spec["ops"]), hist_feat_dtype=spec["dtype"], hist_feat_fw=spec["fw"],
                 hist_feat_hashed_then_group_changed_then_hashed="yes" if stale else "no")  # fmt: skip
        for s in stale:
            for k in sorted(set(s["after_group_change_by"])):
                ctx.tag("hist_feat_group_changed_after_hash_by", k)
        reported = False
        for i, s in enumerate(steps):
            if not s["obs"] or reported:
                continue
            case = {**spec, "at_step": i}
            # the known Feature.__hash__ defect needs Feature objects under in_features of child_options: never generated here
            reported = judge_twin(ctx, "hist_feat", case, "Feature", s["h"], s["cmp"])
            sim = s["sim"]
            if sim and not reported:
                if sim["key_eq"] is not True or sim["base_key_eq"] is not True:
                    ctx.violation("hist_feat", case, "similarity_key() of a Feature with a history differs from the key of an equal freshly built Feature", sim, "equal keys")
                    reported = True
                elif sim["sim_hash"][0] != sim["sim_hash"][1] or sim["base_hash"][0] != sim["base_hash"][1] or sim["dict_by_key"] != 1 or sim["dict_by_key_rev"] != 1:
                    ctx.violation("hist_feat", case, "similarity keys of two equal features compare == but hash differently (has_similarity_properties / a dict keyed by similarity_key() disagree with ==)",
                                  sim, "== and hash of the similarity key agree")  # fmt: skip
                    reported = True
            g = s["grouping"]
            if g is not None:
                gcase = {**case, "features": [{"name": x.name.name, "group": repr(x.options.group), "context": repr(x.options.context),
                                               "dtype": None if x.data_type is None else x.data_type.name} for x in g["order"]]}  # fmt: skip
                ctx.case("hist_group", gcase, bool(s["after_group_change_by"]), hist_group_groups=len(g["groups"]))
                M.grouping_oracle(ctx, "hist_group", gcase, g["order"], g["groups"])
                group_reqs.append({"op": "C15.group", "features": g["j"]})
                group_ref.append((gcase, g))
        # ---- model
        if mo.get("init") is not None or len(mo.get("steps", [])) != len([s for s in steps if not s["obs"]]):
            ctx.disagree("hist_feat", spec, "constructor accepted / steps run", mo)
            continue
        mstate = mo["state"]
        mi = 0
        for i, s in enumerate(steps):
            if not s["obs"]:
                ms = mo["steps"][mi]
                mi += 1
                if ms.get("err") != s["err"] or not same_state(ms["state"], s["state"]):
                    ctx.disagree("hist_feat", {**spec, "at_step": i}, {"err": s["err"], "state": s["state"]}, ms)
                    break
                mstate = ms["state"]
            else:
                ident_reqs.append({"op": "C15.ident", "kind": "feature", "a": {**s["jf"], "options": mstate}, "b": s["jt"]})
                ident_ref.append(({**spec, "at_step": i}, s))
    outs2 = ctx.lean.batch(ident_reqs)
    for r_, (case, s), o_ in zip(ident_reqs, ident_ref, outs2):
        if "err" in o_:
            ctx.disagree("hist_feat", case, s["cmp"], o_)
            continue
        why = []
        if o_["eq"] != s["cmp"]["eq"]:
            why.append("eq")
        if bool(o_["hashableA"]) != isinstance(s["h"], int):
            why.append("hashable")
        elif isinstance(s["h"], int):
            try:
                if hash(M.dec(o_["ha"], reg)) != s["h"]:
                    why.append("hash-of-feature-with-history")
                if hash(M.dec(o_["hb"], reg)) != s["cmp"]["h_twin"]:
                    why.append("hash-of-twin")
            except M.Unmodellable:
                pass
        if why:
            ctx.disagree("hist_feat", case, {"hash": s["h"], **s["cmp"]}, {"why": why, "eq": o_["eq"], "hvEq": o_.get("hvEq")})
    outs3 = ctx.lean.batch(group_reqs)
    for (gcase, g), o_ in zip(group_ref, outs3):
        mg = sorted(sorted(x) for x in o_.get("groups", []))
        if mg != g["groups"]:
            ctx.disagree("hist_group", gcase, g["groups"], mg)


# --------------------------------------------------------------------------------------------------
# suite hist_e2e

ROOTS = ["r0", "r1", "r2", "r3"]
GROUP_PALETTE: List[Dict[str, Any]] = [{}, {"v": 1}, {"v": 1}, {"v": 2}, {"v": 1, "w": [1, {"n": 2}]}, {"u": "a"}]
CONTEXT_PALETTE: List[Tuple[Dict[str, Any], List[str]]] = [({}, []), ({}, []), ({"c": 1}, []), ({"c": 2}, []), ({"c": 1, "s": 7}, ["s"])]
OWN_PALETTE: List[Optional[Dict[str, Any]]] = [None, None, None, None, None, {"p": 3}, {"v": 1}, {"in_features": "own"}, {"feature_chainer_parser_key": ["v"], "v": 9}]
ROOT_TYPES = [None, "INT64", "INT64", "INT64", "INT32", "DOUBLE"]


def gen_e2e_spec(rng: Any) -> Dict[str, Any]:
    derived: Dict[str, Any] = {}
    # mostly one (declared type, own options) for the inputs of ALL derived features of the universe: derived features that
    # are computed in one call of G then read one dataset of R
    uni = (rng.choice(ROOT_TYPES), rng.choice(OWN_PALETTE)) if rng.random() < 0.75 else None
    for i in range(rng.randint(1, 3)):
        # all inputs of one derived feature carry one declared type and the same own options: they must come out of ONE
        # calculation of R (two datasets would need a join link - another property)
        dt, own = uni if uni is not None else (rng.choice(ROOT_TYPES), rng.choice(OWN_PALETTE))
        inputs = [{"name": p, "dtype": dt, "own": copy.deepcopy(own)} for p in rng.sample(ROOTS, rng.choice([1, 1, 2]))]
        derived[f"d{i}"] = {"inputs": inputs, "container": rng.choice(["set", "set", "frozenset"])}
    second: Dict[str, Any] = {}
    if rng.random() < 0.35:
        for i in range(rng.randint(1, 2)):
            inputs = [{"name": rng.choice(sorted(derived)), "dtype": rng.choice([None, "INT64", "INT64"]), "own": copy.deepcopy(rng.choice(OWN_PALETTE[:7]))}]
            second[f"t{i}"] = {"inputs": inputs, "container": "set"}
    gpal = [copy.deepcopy(g) for g in rng.sample(GROUP_PALETTE, rng.randint(1, 2))]
    request: List[Dict[str, Any]] = []
    tops = sorted(second) + sorted(derived)
    for nm in rng.sample(tops, rng.randint(1, min(3, len(tops)))):
        c, pr = rng.choice(CONTEXT_PALETTE)
        request.append({"name": nm, "group": copy.deepcopy(rng.choice(gpal)), "context": dict(c), "prop": list(pr), "dtype": rng.choice([None, None, "INT64"])})
    spec = {"derived": derived, "second": second, "request": request}
    # direct requests for root / first-layer features: mostly with the literal options (and declared type) an input
    # feature ends up with after the merge, under another name
    try:
        inst = expected_instances(spec)
    except M.ExpectedConflict:
        inst = []
    via_input = [e for e in inst if e["via"] == "input"]
    for _ in range(rng.randint(1, 3)):
        c, pr = rng.choice(CONTEXT_PALETTE)
        if via_input and rng.random() < 0.75:
            e = rng.choice(via_input)
            pool = ROOTS if e["cls"] == "R" else sorted(derived)
            others = [x for x in pool if x != e["name"]] or pool
            nm = rng.choice(others) if rng.random() < 0.85 else e["name"]
            group = copy.deepcopy(e["group"])
            r = rng.random()
            dtype = e["dtype"] if r < 0.7 else rng.choice(ROOT_TYPES if e["cls"] == "R" else [None, "INT64"])
            if any(k in group for k in c):
                c, pr = {}, []
        else:
            nm = rng.choice(ROOTS)
            group = copy.deepcopy(rng.choice(gpal))
            dtype = rng.choice(ROOT_TYPES)
        request.append({"name": nm, "group": group, "context": dict(c), "prop": list(pr), "dtype": dtype})
    rng.shuffle(request)
    return spec


def class_of(name: str) -> str:
    return {"r": "R", "d": "G", "t": "H"}[name[0]]


def expected_instances(spec: Dict[str, Any]) -> List[Dict[str, Any]]:
    """the feature instances the documented propagation rules prescribe (raises c15.ExpectedConflict)"""
    table = {**spec["derived"], **spec["second"]}
    out: List[Dict[str, Any]] = []

    def walk(nm: str, group: Dict[str, Any], ctx_: Dict[str, Any], prop: Set[str], dtype: Optional[str], via: str) -> None:
        for inp in (table[nm]["inputs"] if nm in table else []):
            own_ = copy.deepcopy(inp["own"] or {})
            prot = M.listed_protected(own_)
            for k_, v_ in list(group.items()) + list(ctx_.items()):
                if k_ in own_ and k_ not in prot and not (own_[k_] == v_):
                    raise M.ExpectedConflict(k_)
            pg = dict(own_)
            for k_, v_ in group.items():
                if k_ not in prot:
                    pg[k_] = v_
            pctx = {k_: ctx_[k_] for k_ in prop if k_ not in prot and k_ in ctx_}
            for k_ in pctx:
                if k_ in pg:
                    raise M.ExpectedConflict(k_)
            walk(inp["name"], pg, pctx, set(), inp["dtype"], "input")
        out.append({"cls": class_of(nm), "name": nm, "group": group, "ctx": ctx_, "dtype": dtype, "via": via})

    for rs in spec["request"]:
        walk(rs["name"], copy.deepcopy(rs["group"]), copy.deepcopy(rs["context"]), set(rs["prop"]), rs["dtype"], "request")
    return out


def shares(inst: List[Dict[str, Any]]) -> str:
    """does the case hit the class: a TYPED input feature that received group options from its dependent feature and a
    feature of the same group reached by another route with equal group options (same / other declared type)"""
    best = "no"
    for a in inst:
        if a["via"] != "input" or not a["group"]:
            continue
        for b in inst:
            if b is a or b["cls"] != a["cls"] or not (b["group"] == a["group"]) or (b["name"] == a["name"] and b["via"] == "input" and b["dtype"] == a["dtype"]):
                continue
            if a["dtype"] is not None and b["dtype"] == a["dtype"]:
                return "typed-same-type"
            best = "typed-other-type" if a["dtype"] is not None and best == "no" else ("untyped" if best == "no" else best)
    return best


def make_universe(spec: Dict[str, Any], hook: Any) -> Tuple[Any, ...]:
    from mloda.core.abstract_plugins.components.feature import Feature
    from mloda.core.abstract_plugins.components.data_types import DataType

    def inputs_fn(table: Dict[str, Any]) -> Any:
        def input_features(self: Any, options: Any, feature_name: Any) -> Any:
            d = table[str(feature_name)]
            fs = []
            for inp in d["inputs"]:
                fs.append(Feature(inp["name"], options=copy.deepcopy(inp["own"]) or {}, data_type=DataType[inp["dtype"]] if inp["dtype"] else None))
            return set(fs) if d["container"] == "set" else frozenset(fs)

        return input_features

    def exprs(table: Dict[str, Any]) -> Dict[str, Any]:
        out = {}
        for nm, d in table.items():
            e: Any = ["col", d["inputs"][0]["name"]]
            for inp in d["inputs"][1:]:
                e = ["add", e, ["col", inp["name"]]]
            out[nm] = {"parents": [i["name"] for i in d["inputs"]], "expr": e}
        return out

    R = F.make_group(F.uniq("R15h_"), root_data={r: [1 + i, 2 + i] for i, r in enumerate(ROOTS)}, hooks={"before_calc": hook}, frameworks={F.PyArrowTable})
    G = F.make_group(F.uniq("G15h_"), derived=exprs(spec["derived"]), hooks={"before_calc": hook}, extra={"input_features": inputs_fn(spec["derived"])})
    classes = [R, G]
    if spec["second"]:
        classes.append(F.make_group(F.uniq("H15h_"), derived=exprs(spec["second"]), hooks={"before_calc": hook}, extra={"input_features": inputs_fn(spec["second"])}))
    return tuple(classes)


def run_e2e_spec(ctx: Ctx, spec: Dict[str, Any]) -> None:
    from mloda.user import mloda, Feature, Options
    from mloda.core.abstract_plugins.components.data_types import DataType

    calls: List[List[M.Obs]] = []

    def hook(cls: Any, data: Any, features: Any) -> None:
        idx = len(calls)
        calls.append([M.Obs(f, cls.__name__[0], idx) for f in features.features])

    classes = make_universe(spec, hook)
    feats: List[Any] = []
    for rs in spec["request"]:
        f = Feature(rs["name"], options=Options(group=copy.deepcopy(rs["group"]), context=copy.deepcopy(rs["context"]), propagate_context_keys=frozenset(rs["prop"])),
                    data_type=DataType[rs["dtype"]] if rs["dtype"] else None)  # fmt: skip
        if any(f == g_ for g_ in feats):
            continue  # an exact duplicate request is rejected by Features (not this property)
        feats.append(f)
    exp_conflict = False
    expected: List[Dict[str, Any]] = []
    try:
        expected = expected_instances({**spec, "request": [rs for rs in spec["request"]]})
    except M.ExpectedConflict:
        exp_conflict = True
    hit = shares(expected) if not exp_conflict else "conflict"

    outcome = "ok"
    old_handler = signal.signal(signal.SIGALRM, M._on_alarm)
    signal.alarm(M.E2E_TIMEOUT_S)
    try:
        mloda.run_all(feats, compute_frameworks={F.PyArrowTable}, plugin_collector=F.collector(set(classes)))
    except M._RunTimeout:
        outcome = "timeout"
    except Exception as e:
        msg = repr(e) + str(e)
        if "Duplicate key" in msg or "Cannot propagate context" in msg or "Cannot update group" in msg or "conflict" in msg and "Context key" in msg:
            outcome = "conflict"
        else:
            outcome = "error:" + type(e).__name__ + ":" + msg[-160:]
    finally:
        signal.alarm(0)
        signal.signal(signal.SIGALRM, old_handler)
    ctx.case("hist_e2e", spec, hit.startswith("typed"), hist_e2e_input_shares_group_with_other_route=hit, hist_e2e_outcome=outcome.split(":")[0],
             hist_e2e_calls=len(calls), hist_e2e_layers=2 if spec["second"] else 1)  # fmt: skip
    ocase = {**spec, "calls": [[o.j() for o in c_] for c_ in calls]}
    if outcome == "timeout":
        ctx.violation("hist_e2e", ocase, f"run_all did not terminate within {M.E2E_TIMEOUT_S} s", "timeout", "terminates")
        return
    if exp_conflict != (outcome == "conflict"):
        if outcome.startswith("error"):
            ctx.tag("hist_e2e_skipped", outcome[-110:])
        else:
            ctx.violation("hist_e2e", spec, f"documented conflict rules say conflict={exp_conflict}, run outcome {outcome}", outcome, "conflict" if exp_conflict else "ok")
        return
    if outcome != "ok":
        if outcome.startswith("error"):
            ctx.tag("hist_e2e_skipped", outcome[-110:])
            if os.environ.get("C15_DEBUG"):
                print("SKIPPED", json.dumps(spec), outcome)
        return
    obs = [o for c_ in calls for o in c_]

    # ---- oracle A: the computed features carry exactly the documented propagated options (and declared types)
    def matches(o: M.Obs, e: Dict[str, Any]) -> bool:
        return (o.name == e["name"] and o.options.group == e["group"] and o.options.context == e["ctx"]
                and (None if o.data_type is None else o.data_type.name) == e["dtype"])  # fmt: skip

    for e in expected:
        if not any(matches(o, e) for o in obs):
            ctx.violation("hist_e2e", ocase, f"no computed feature {e['name']} (declared type {e['dtype']}) with the propagated options group={e['group']!r} context={e['ctx']!r}",
                          [o.j() for o in obs if o.name == e["name"]], "documented propagation")  # fmt: skip
            return
    for o in obs:
        if not any(matches(o, e) for e in expected):
            ctx.violation("hist_e2e", ocase, f"feature {o.name} computed with options / type nobody asked for: group={o.options.group!r} context={o.options.context!r}", o.j(), "documented propagation")
            return
    # ---- oracle B: composition of the calls per feature group (no dependencies inside one group here)
    for cls_name in sorted({o.cls_name for o in obs}):
        es = [o for o in obs if o.cls_name == cls_name]
        groups_: Dict[int, List[int]] = {}
        for i, o in enumerate(es):
            groups_.setdefault(o.call, []).append(i)
        M.grouping_oracle(ctx, "hist_e2e", {**ocase, "class": cls_name, "entries": [o.j() for o in es]}, es, sorted(groups_.values()))


def fixed_e2e_specs() -> List[Dict[str, Any]]:
    """hand-made members of the class, present whatever the seed: one typed input that receives {'v': 1} from its
    dependent feature next to a direct request with the literal {'v': 1} (same type, other context; other type; untyped)"""
    out = []
    for dt_in, dt_req, ctx_req in [("INT64", "INT64", {}), ("INT64", "INT64", {"c": 1}), ("INT64", "INT32", {}), (None, "INT64", {}), ("INT64", None, {})]:
        out.append({"derived": {"d0": {"inputs": [{"name": "r0", "dtype": dt_in, "own": None}], "container": "set"}}, "second": {},
                    "request": [{"name": "d0", "group": {"v": 1}, "context": {}, "prop": [], "dtype": None},
                                {"name": "r1", "group": {"v": 1}, "context": dict(ctx_req), "prop": [], "dtype": dt_req},
                                {"name": "r2", "group": {"v": 2}, "context": {}, "prop": [], "dtype": dt_req}]})  # fmt: skip
    return out


def suite_hist_e2e(ctx: Ctx, only: Optional[List[Dict[str, Any]]] = None) -> None:
    import mloda_plugins.compute_framework.base_implementations.pandas.pandaspyarrowtransformer  # noqa: F401
    import mloda_plugins.compute_framework.base_implementations.python_dict.python_dict_pyarrow_transformer  # noqa: F401

    n = ctx.budget(900, 4000)  # every run adds 2-3 classes to FeatureGroup.__subclasses__(): cost per run grows with the count
    specs = list(only) if only is not None else fixed_e2e_specs()
    while only is None and len(specs) < n:
        specs.append(gen_e2e_spec(ctx.rng))
    timeouts = 0
    for spec in specs:
        before = len(ctx.violations)
        run_e2e_spec(ctx, spec)
        if any(v.get("impl") == "timeout" for v in ctx.violations[before:]):
            timeouts += 1
            if timeouts >= 3:
                ctx.note("hist_e2e stopped after 3 runs that did not terminate")
                break


# --------------------------------------------------------------------------------------------------


def _selected() -> Set[str]:
    only = os.environ.get("C15_HIST_ONLY")
    return {"hist_opts", "hist_feat", "hist_e2e"} if not only else {s.strip() for s in only.split(",")}


def run(ctx: Ctx) -> None:
    ctx.extra["rule"] = (ctx.extra.get("rule", "") + " | history: hist_opts / hist_feat: a history is non-trivial when the object was hashed (hash, set, dict key, "
        "frozenset, similarity-key dict, the set returned by input_features), its GROUP was changed afterwards by some call, and it was observed again against a freshly "
        "built equal object; hist_group: the grouping function on such a feature and fresh relatives; hist_e2e: a TYPED input feature that received group options from "
        "its dependent feature and another feature of the same group with equal group options reached by another route")  # fmt: skip
    sel = _selected()
    if "hist_opts" in sel:
        suite_hist_opts(ctx)
    if "hist_feat" in sel:
        suite_hist_feat(ctx)
    if "hist_e2e" in sel:
        suite_hist_e2e(ctx)


def search(ctx: Ctx, broken: List[str]) -> None:
    old = os.environ.get("VERIF_SCALE")
    os.environ["VERIF_SCALE"] = str(0.15 * float(old or 1))
    try:
        run(ctx)
    finally:
        if old is None:
            os.environ.pop("VERIF_SCALE", None)
        else:
            os.environ["VERIF_SCALE"] = old


def _spec_of(case: Dict[str, Any], keys: Tuple[str, ...]) -> Dict[str, Any]:
    return {k: case[k] for k in keys if k in case}


def replay(ctx: Ctx, body: Dict[str, Any]) -> None:
    case = body.get("case") or {}
    suite = body.get("suite")
    if suite == "hist_opts" and "init" in case and "ops" in case:
        suite_hist_opts(ctx, only=[_spec_of(case, ("init", "ops"))])
    elif suite in ("hist_feat", "hist_group") and "init" in case and "ops" in case:
        suite_hist_feat(ctx, only=[_spec_of(case, ("name", "init", "dtype", "fw", "ops"))])
    elif suite == "hist_e2e" and "request" in case:
        suite_hist_e2e(ctx, only=[_spec_of(case, ("derived", "second", "request"))])
    else:
        run(ctx)
