"""C06, extension `steps`: what a step reads and writes, statement by statement.

Function level: real `FeatureGroupStep` / `TransformFrameworkStep` / `JoinStep` objects of REAL prepared plans are executed by the
real `thread_worker` in real threads under a cooperative scheduler: `ComputeFramework.data` is replaced (in the check process only) by
a property whose getter / setter park the calling worker thread before every read and write of `.data` (one gate per modelled `Op`,
see lean/MlodaVerif/Model/StepExec.lean), the generated groups park before their calculation, `get_column_names` and the transform
step's `transform` park as well.  The controller grants one `Op` at a time in the order of a generated schedule, so any interleaving
of the micro-steps of concurrently started steps can be produced deterministically.  After every grant the object the step works on
is observed (identity of the table object, its content, `column_names`, the children tracker) and compared with the model's trace of
the same schedule.  The orchestrator's own accesses (`add_to_result_data_collection`, `_drop_data_if_possible`) are real calls made by
the controller at their place in the schedule.

End to end: the same requests through `session.run` in SYNC / THREADING (gated sibling writes, all placements) / MULTIPROCESSING with
the access recorder on; oracle = C06's text (all modes return SYNC's tables); violations of the known lost-update class are
classified with c06.py's `finding_class` and must be explained by the refined characterisation (a new-table group wrote back a table
that was read before an overlapping sibling's write).
"""
from __future__ import annotations

import itertools
import json
import sys
import threading
import time
from typing import Any, Dict, List, Optional, Set, Tuple

from harness.core import Ctx
from harness import fgfactory as F
from harness import schedlib as S

SUITES = {"steps_micro", "steps_pairs", "steps_witness", "steps_upload", "steps_mode", "steps_e2e", "steps_mp"}

ASSUMPTIONS = [
    "steps: consecutive reads of `self.data` inside one read-only function (validate_input_features, validate_output_features + validate_expected_framework, set_column_names) are one micro-step of the model; they cannot change `data`",
    "steps: an in-place insertion into a pandas frame / list of dicts (`data[c] = v`) is one atomic micro-step (the scheduler of the function-level suite grants it as a whole; pandas itself gives no such guarantee: un-gated, two threads inserting into ONE frame lost a column in about 5 of 300 real THREADING runs - counted under the known lost-update class, which c06.py defines by overlap alone)",
    "steps: a transform step between two compute frameworks with the same data type hands the same table object on (`return data`); the model copies it - observable only with a second user-defined framework on a mutable data type, none ships with mloda (the VerifArrowN harness frameworks are immutable Arrow tables)",
    "steps: tables have at least one row (PythonDictFramework raises on empty data in transform / set_column_names)",
    "steps: the merge of a join step is the SPEC operator of Model/Rel (C05/C12 compare the engines with it); join cases use unique, non-null keys",
]

DRIVER = "C06_steps"

# ------------------------------------------------------------------------------------------------------------------
# the cooperative scheduler


class Coop:
    """Worker threads park at gates; the controller grants them one at a time."""

    def __init__(self) -> None:
        self.cv = threading.Condition()
        self.parked: Dict[int, str] = {}
        self.granted: Set[int] = set()
        self.finished: Dict[int, Optional[str]] = {}  # tid -> error text or None
        self.free = False  # released: every gate passes (used to let threads run out after a disagreement)

    def gate(self, tid: int, label: str) -> None:
        with self.cv:
            if self.free:
                return
            self.parked[tid] = label
            self.cv.notify_all()
            self.cv.wait_for(lambda: tid in self.granted or self.free)
            self.granted.discard(tid)
            self.parked.pop(tid, None)

    def finish(self, tid: int, err: Optional[str]) -> None:
        with self.cv:
            self.finished[tid] = err
            self.cv.notify_all()

    def wait_parked(self, tid: int, timeout: float = 20.0) -> Optional[str]:
        """label the thread is parked at, or None when it has ended"""
        with self.cv:
            ok = self.cv.wait_for(lambda: tid in self.parked or tid in self.finished, timeout)
            if not ok:
                raise RuntimeError(f"worker {tid} neither parked nor ended")
            return self.parked.get(tid)

    def grant(self, tid: int) -> None:
        with self.cv:
            self.granted.add(tid)
            self.cv.notify_all()
        # the thread must have left the gate before we look at `parked` again
        with self.cv:
            self.cv.wait_for(lambda: tid not in self.granted, 20.0)

    def release_all(self) -> None:
        with self.cv:
            self.free = True
            self.cv.notify_all()


_tls = threading.local()
_hooks_installed = False
ACCESS_LOG: Optional[List[Any]] = None  # when a list: every access of `.data` by any thread is appended (e2e recorder)
KEEP: List[Any] = []  # strong references to every table object seen in a case (ids must not be reused)

GET_LABEL = {
    "run_validate_input_features": "valIn",
    "run_calculate_feature": "read",
    "set_column_names": "setCols",
    "run_validate_output_features": "valOut",
    "validate_expected_framework": "valOut",
    "get_data": "get",
    "_merge_data": "jRead",
}
SET_LABEL = {"run_calculation": "write", "set_data": "tSet", "_merge_data": "jWrite"}


def _gate_for(label: str, always: bool) -> None:
    st = getattr(_tls, "st", None)
    if st is None:
        return
    if label == "get":
        label = "jGet" if st["kind"] == "join" else "tGet"
    if label == "write" and st["last"] is None:
        label = "apiWrite"
    if label == "transform":
        st["ntr"] += 1
        if st["fw"] == "pandas":
            label = {1: "trCheck", 2: "trMut", 3: "trRead"}.get(st["ntr"], "tr?")
        else:
            label = {1: "trMut"}.get(st["ntr"], "tr?")
        always = True
    if not always and st["last"] == label:
        return
    st["last"] = label
    st["coop"].gate(st["tid"], label)


def install_hooks() -> None:
    global _hooks_installed
    if _hooks_installed:
        return
    _hooks_installed = True
    from mloda.core.abstract_plugins.compute_framework import ComputeFramework
    from mloda.core.core.step.transform_frame_work_step import TransformFrameworkStep

    def _get(self: Any) -> Any:
        fn = sys._getframe(1).f_code.co_name
        lab = GET_LABEL.get(fn)
        if lab is None and fn == "transform":
            lab = "transform"
        if lab is not None:
            _gate_for(lab, False)
        v = self.__dict__.get("_data")
        if ACCESS_LOG is not None:
            ACCESS_LOG.append(("R", str(self.__dict__.get("uuid")), fn, threading.get_ident(), id(v)))
        return v

    def _set(self: Any, v: Any) -> None:
        fn = sys._getframe(1).f_code.co_name
        lab = SET_LABEL.get(fn)
        if lab is not None:
            _gate_for(lab, True)
        if ACCESS_LOG is not None:
            ACCESS_LOG.append(("W", str(self.__dict__.get("uuid")), fn, threading.get_ident(), id(v), sorted(F.columns_of(v)) if not isinstance(v, str) else None))
            KEEP.append(v)
        self.__dict__["_data"] = v

    ComputeFramework.data = property(_get, _set)  # type: ignore[assignment]

    orig_cols = ComputeFramework.get_column_names

    def get_column_names(self: Any) -> Any:
        _gate_for("tCols", True)
        return orig_cols(self)

    ComputeFramework.get_column_names = get_column_names  # type: ignore[method-assign]

    orig_tr = TransformFrameworkStep.transform

    def transform(self: Any, cfw: Any, data: Any, feature_names: Any) -> Any:
        _gate_for("tConv", True)
        return orig_tr(self, cfw, data, feature_names)

    TransformFrameworkStep.transform = transform  # type: ignore[method-assign]


E2E_DELAYS: Dict[str, float] = {}  # group name -> seconds slept inside calculate_feature (end-to-end suite only)


def before_calc_hook(cls: Any, data: Any, features: Any) -> None:
    if getattr(_tls, "st", None) is None:
        d = E2E_DELAYS.get(cls.__name__)
        if d:
            time.sleep(d)
        return
    _gate_for("call", True)


ARRAY_GROUPS: Set[str] = set()  # generated groups that hand back only the new column as a pa.Array (PyArrow `transform` path)


def after_calc_hook(cls: Any, data: Any, features: Any, result: Any) -> Any:
    if cls.__name__ in ARRAY_GROUPS:
        import pyarrow as pa

        names = sorted(features.get_all_names())
        if len(names) == 1 and isinstance(result, pa.Table):
            return result.column(names[0])
    return None


HOOKS = {"before_calc": before_calc_hook, "after_calc": after_calc_hook}

# ------------------------------------------------------------------------------------------------------------------
# real world of one case


def fw_flag(cls: Any) -> str:
    from mloda_plugins.compute_framework.base_implementations.pandas.dataframe import PandasDataFrame
    from mloda_plugins.compute_framework.base_implementations.python_dict.python_dict_framework import PythonDictFramework

    if issubclass(cls, PandasDataFrame):
        return "pandas"
    if issubclass(cls, PythonDictFramework):
        return "pydict"
    return "pyarrow"


def err_class(text: str) -> str:
    t = text
    table = [
        ("already exists in the dataframe", "dupColumn"),
        ("Only one feature can be added", "notOneFeature"),
        ("is not supported by", "badType"),
        ("No columns found that match", "selectEmpty"),
        ("Not implemented", "notImplemented"),
        ("Data is not None, but api_input_data", "apiNotNone"),
        ("No transformation path", "noConversion"),
        ("failed with a KeyError", "calcRaised"),
        ("cannot add columns to", "calcRaised"),
        ("'NoneType' object", "noneData"),
        ("NoneType", "noneData"),
    ]
    for k, v in table:
        if k in t:
            return v
    return "other:" + t[:80]


class World:
    """One prepared session with the orchestrator's own objects, driven micro-step by micro-step."""

    def __init__(self, sess: Any) -> None:
        from mloda.core.abstract_plugins.components.parallelization_modes import ParallelizationMode
        from mloda.core.core.cfw_manager import CfwManager
        from mloda.core.runtime.compute_framework_executor import ComputeFrameworkExecutor

        self.mode = ParallelizationMode.THREADING
        self.runner = sess.engine.compute()
        self.runner.cfw_register = CfwManager({self.mode}, None)  # in-process register (the manager process adds nothing here)
        self.runner.executor = ComputeFrameworkExecutor(self.runner.cfw_register, self.runner.worker_manager)
        self.steps = list(self.runner.execution_planner)
        self.coop = Coop()
        self.threads: Dict[int, threading.Thread] = {}
        self.objs: List[Any] = []  # compute-framework objects in order of creation
        self.step_obj: Dict[int, Tuple[int, int]] = {}
        self.ids: Dict[Tuple[int, int], int] = {}  # (object index, id(table)) -> first-occurrence index
        self.nids: Dict[int, int] = {}
        self.main_failed: Set[int] = set()

    def obj_index(self, cfw: Any) -> int:
        for k, o in enumerate(self.objs):
            if o is cfw:
                return k
        self.objs.append(cfw)
        return len(self.objs) - 1

    def start(self, i: int) -> None:
        from mloda.core.runtime.worker.thread_worker import thread_worker
        from mloda.core.core.step.feature_group_step import FeatureGroupStep
        from mloda.core.core.step.join_step import JoinStep

        step = self.steps[i]
        ex = self.runner.executor
        before = set(ex.cfw_collection)
        cfw_uuid = ex.prepare_execute_step(step, self.mode)
        for u in ex.cfw_collection:
            if u not in before:
                self.obj_index(ex.cfw_collection[u])
        from_cfw = ex.prepare_tfs_and_joinstep(step) or None
        cfw = ex.cfw_collection[cfw_uuid]
        a = self.obj_index(cfw)
        b = self.obj_index(from_cfw) if from_cfw is not None else a
        self.step_obj[i] = (a, b)
        kind = "fg" if isinstance(step, FeatureGroupStep) else ("join" if isinstance(step, JoinStep) else "tfs")
        coop = self.coop
        reg = self.runner.cfw_register

        def body() -> None:
            _tls.st = {"coop": coop, "tid": i, "kind": kind, "fw": fw_flag(type(cfw)), "last": None, "ntr": 0}
            err = None
            try:
                thread_worker(step, reg, cfw, from_cfw)
            except BaseException as e:  # noqa
                err = "".join(str(a_) for a_ in e.args)[:4000] if e.args else repr(e)
            finally:
                _tls.st = None
                coop.finish(i, err)

        th = threading.Thread(target=body, daemon=True)
        self.threads[i] = th
        th.start()

    def observe(self, a: int) -> Dict[str, Any]:
        o = self.objs[a]
        d = o.__dict__.get("_data")
        KEEP.append(d)
        if d is None:
            data: Any = None
        elif isinstance(d, str):
            data = "key"
        else:
            key = (a, id(d))
            if key not in self.ids:
                self.ids[key] = self.nids.get(a, 0)
                self.nids[a] = self.nids.get(a, 0) + 1
            data = {"ident": self.ids[key], "table": F.to_columns(d)}
        return {"data": data, "cols": sorted(str(c) for c in o.column_names), "tracker": sorted(str(u) for u in o.already_calculated_children_tracker)}

    def close(self) -> None:
        self.coop.release_all()
        for th in self.threads.values():
            th.join(5)


def do_entry(world: World, i: int, what: str) -> Dict[str, Any]:
    """one schedule entry on the real objects: (step, "w") = one worker micro-step, "collect" / "report" = the orchestrator's calls"""
    coop = world.coop
    step = world.steps[i]
    if what == "w":
        if i not in world.threads:
            world.start(i)
        lab = coop.wait_parked(i)
        if lab is None:
            return {"step": i, "op": None, "ended": True, "err": coop.finished.get(i), "obj": world.observe(world.step_obj[i][0])}
        coop.grant(i)
        nxt = coop.wait_parked(i)
        ended = nxt is None
        return {"step": i, "op": lab, "ended": ended, "err": coop.finished.get(i) if ended else None, "obj": world.observe(world.step_obj[i][0])}
    a = world.step_obj[i][0]
    cfw = world.objs[a]
    err = None
    res = None
    try:
        if what == "collect":
            world.runner.add_to_result_data_collection(cfw, step.features, step.uuid)
            r = world.runner.data_lifecycle_manager.result_data_collection.get(step.uuid)
            res = F.to_columns(r) if r is not None else None
        else:
            world.runner._drop_data_if_possible(cfw, step)
    except BaseException as e:  # noqa
        err = "".join(str(a_) for a_ in e.args)[:2000] if e.args else repr(e)
    return {"step": i, "op": what, "ended": True, "err": err, "result": res, "obj": world.observe(a)}


def drive(world: World, choose: Any) -> Tuple[List[Tuple[int, str]], List[Dict[str, Any]]]:
    """Run the plan on the real objects; `choose(cands, cur)` picks the next entry among those the orchestrator allows: a step starts
    after the steps it requires were collected and reported, a feature-group step is collected / reported (by the main thread) some
    time after its worker ended.  The run stops at the first failure (the orchestrator raises at its next loop head)."""
    from mloda.core.core.step.feature_group_step import FeatureGroupStep

    req = requirements(world)
    n = len(world.steps)
    status = ["new"] * n
    tail: Dict[int, List[str]] = {}
    for i, st in enumerate(world.steps):
        tail[i] = []
        if isinstance(st, FeatureGroupStep):
            tail[i] = (["collect"] if st.features.get_initial_requested_features() else []) + ["report"]
    fin: Set[int] = set()
    sched: List[Tuple[int, str]] = []
    trace: List[Dict[str, Any]] = []
    cur: Optional[Tuple[int, str]] = None
    while len(fin) < n and len(sched) < 2000:
        cands: List[Tuple[int, str]] = []
        for i in range(n):
            if status[i] == "new" and req[i] <= fin:
                cands.append((i, "w"))
            elif status[i] == "running":
                cands.append((i, "w"))
            elif status[i] == "ended" and tail[i]:
                cands.append((i, tail[i][0]))
        if not cands:
            break
        e = choose(cands, cur)
        if e is None or e not in cands:
            break
        cur = e
        i, what = e
        t = do_entry(world, i, what)
        sched.append(e)
        trace.append(t)
        if t.get("err") or t["op"] is None:
            break
        if what == "w":
            status[i] = "ended" if t["ended"] else "running"
        else:
            tail[i].pop(0)
        if status[i] == "ended" and not tail[i]:
            status[i] = "fin"
            fin.add(i)
    return sched, trace


def chooser_sync(cands: List[Tuple[int, str]], cur: Optional[Tuple[int, str]]) -> Optional[Tuple[int, str]]:
    """SYNC: the step that is running goes on; otherwise the orchestrator's action for the earliest step of the plan"""
    if cur is not None:
        for c in cands:
            if c[0] == cur[0] and c[1] == "w" and cur[1] == "w":
                return c
    return cands[0]


def chooser_random(rng: Any, burst: float) -> Any:
    def choose(cands: List[Tuple[int, str]], cur: Optional[Tuple[int, str]]) -> Optional[Tuple[int, str]]:
        if cur is not None and rng.random() < burst:
            for c in cands:
                if c[0] == cur[0]:
                    return c
        return rng.choice(cands)

    return choose


def chooser_script(script: List[Tuple[int, str]], fallback: Any) -> Any:
    """follow the script (entries that are not allowed at their turn are skipped), then the fallback"""
    pos = [0]

    def choose(cands: List[Tuple[int, str]], cur: Optional[Tuple[int, str]]) -> Optional[Tuple[int, str]]:
        while pos[0] < len(script):
            e = tuple(script[pos[0]])
            pos[0] += 1
            if e in cands:
                return e  # type: ignore[return-value]
        return fallback(cands, cur)

    return choose


# ------------------------------------------------------------------------------------------------------------------
# building the model request from the real plan


class Names:
    def __init__(self) -> None:
        self.m: Dict[str, int] = {}

    def __call__(self, s: Any) -> int:
        s = str(s)
        if s not in self.m:
            self.m[s] = len(self.m) + 1
        return self.m[s]


def effective_style(style: Any, fw: str, nfeat: int, array: bool) -> str:
    if fw == "pyarrow":
        return "column" if (array and nfeat == 1) else "fresh"
    if not style:
        return "fresh"
    if style == "series" and fw == "pandas" and nfeat == 1:
        return "column"
    return "inplace"


def lean_expr(e: Any, col: Names) -> Any:
    if e[0] == "col":
        return ["col", col(e[1])]
    if e[0] == "const":
        return ["const", e[1]]
    return [e[0], lean_expr(e[1], col), lean_expr(e[2], col)]


def model_request(world: World, spec: Dict[str, Any], col: Names, uid: Names) -> Dict[str, Any]:
    from mloda.core.core.step.feature_group_step import FeatureGroupStep
    from mloda.core.core.step.join_step import JoinStep

    groups = {g["name"]: g for g in spec.get("groups", [])}
    for g in S.link_groups(spec) if "consumer" in spec else []:
        groups[g["name"]] = g
    roots = {r["name"]: r for r in spec.get("roots", []) + spec.get("sources", [])}
    objs = [{"fw": fw_flag(type(o)), "children": sorted(uid(u) for u in o.children_if_root)} for o in world.objs]
    steps = []
    for i, st in enumerate(world.steps):
        a, b = world.step_obj.get(i, (0, 0))
        if isinstance(st, FeatureGroupStep):
            gname = st.feature_group.__name__
            names = sorted(st.features.get_all_names())
            fw = objs[a]["fw"] if a < len(objs) else "pyarrow"
            if gname in roots:
                defs = [{"uuid": col(n), "parents": [], "expr": None, "vals": roots[gname]["cols"][n]} for n in names]
                style = "fresh"
            else:
                g = groups[gname]
                defs = [{"uuid": col(n), "parents": [col(p_) for p_ in g["features"][n]["parents"]], "expr": lean_expr(g["features"][n]["expr"], col), "vals": []} for n in names]
                style = effective_style(g.get("style", bool(spec.get("inplace"))), fw, len(names), gname in ARRAY_GROUPS)
            steps.append({"kind": "fg", "obj": a, "src": a, "style": style, "outs": [col(n) for n in names], "defs": defs, "api": None,
                          "requested": sorted(col(str(n)) for n in st.features.get_initial_requested_features()), "reports": True,
                          "feats": sorted(uid(f.uuid) for f in st.features.features)})  # fmt: skip
        elif isinstance(st, JoinStep):
            li = [col(c) for c in st.link.left_index.index]
            ri = [col(c) for c in st.link.right_index.index]
            steps.append({"kind": "join", "obj": a, "src": b, "style": "fresh", "outs": [], "defs": [], "api": None, "requested": [], "reports": False, "feats": [],
                          "merge": {"type": st.link.jointype.name, "lkey": li[0], "rkey": ri[0]}})  # fmt: skip
        else:
            steps.append({"kind": "tfs", "obj": a, "src": b, "style": "fresh", "outs": [], "defs": [], "api": None, "requested": [], "reports": False, "feats": [],
                          "equalFw": bool(st.equal_frameworks())})  # fmt: skip
    return {"objs": objs, "steps": steps}


def canon_real_obj(o: Dict[str, Any], col: Names, uid: Names) -> Dict[str, Any]:
    d = o["data"]
    if isinstance(d, dict):
        d = {"ident": d["ident"], "table": {str(col(c)): v for c, v in d["table"].items()}}
    return {"data": d, "cols": sorted(col(c) for c in o["cols"]), "tracker": sorted(uid(u) for u in o["tracker"])}


def canon_model_obj(o: Any, idents: Dict[int, int]) -> Dict[str, Any]:
    d = o.get("data")
    if isinstance(d, dict):
        k = d.get("ref")
        if k not in idents:
            idents[k] = len(idents)
        d = {"ident": idents[k], "table": {str(c): v for c, v in d.get("table", [])}}
    return {"data": d, "cols": sorted(o.get("cols", [])), "tracker": sorted(o.get("tracker", []))}


def sort_rows(tab: Dict[str, List[Any]]) -> Dict[str, List[Any]]:
    names = sorted(tab)
    if not names:
        return tab
    n = len(tab[names[0]])
    rows = sorted([[tab[c][i] for c in names] for i in range(n)], key=lambda r: json.dumps(r, default=str))
    return {c: [r[j] for r in rows] for j, c in enumerate(names)}


def compare_traces(real: List[Dict[str, Any]], model: Dict[str, Any], world: World, col: Names, uid: Names, joins: bool) -> Optional[Dict[str, Any]]:
    """first difference between the real trace and the model trace, or None"""
    mt = model.get("trace", [])
    if len(mt) != len(real):
        return {"what": "length", "real": len(real), "model": len(mt)}
    idents: Dict[int, Dict[int, int]] = {}
    for k, (r, m) in enumerate(zip(real, mt)):
        a = world.step_obj.get(r["step"], (0, 0))[0]
        ro = canon_real_obj(r["obj"], col, uid)
        mo = canon_model_obj(m.get("obj") or {}, idents.setdefault(a, {}))
        if joins:
            for o in (ro, mo):
                if isinstance(o["data"], dict):
                    o["data"]["table"] = sort_rows(o["data"]["table"])
        rop = r["op"]
        mop = m.get("op")
        if rop in ("collect", "report"):
            pass
        if rop != mop:
            return {"what": "op", "at": k, "real": rop, "model": mop, "step": r["step"]}
        merr = (m.get("loc") or {}).get("err")
        rerr = err_class(r["err"]) if r.get("err") else None
        if rop is not None and rerr != merr:
            return {"what": "err", "at": k, "op": rop, "real": r.get("err"), "model": merr, "step": r["step"]}
        if ro != mo:
            return {"what": "obj", "at": k, "op": rop, "step": r["step"], "real": ro, "model": mo}
        if rop == "collect" and not r.get("err"):
            rr = {str(col(c)): v for c, v in (r.get("result") or {}).items()}
            mr = {str(c): v for c, v in ((m.get("loc") or {}).get("result") or [])}
            if joins:
                rr, mr = sort_rows(rr), sort_rows(mr)
            if rr != mr:
                return {"what": "result", "at": k, "real": rr, "model": mr, "step": r["step"]}
    return None


# ------------------------------------------------------------------------------------------------------------------
# schedules


def requirements(world: World) -> Dict[int, Set[int]]:
    prod: Dict[Any, int] = {}
    for i, st in enumerate(world.steps):
        for u in st.get_uuids():
            prod[u] = i
    return {i: {prod[u] for u in st.required_uuids if u in prod} - {i} for i, st in enumerate(world.steps)}


# ------------------------------------------------------------------------------------------------------------------
# oracle on the real executions (C06's text: the results do not depend on the execution mode / schedule)

KNOWN_CLASS = "threading-overlapping-steps-on-shared-cfw"  # the same string harness/corr/c06.py uses
JOIN_RIGHT_ONLY_CLASS = "join-consumer-right-only-feature-consumed-later"  # the class of F-C01-join-right-only-consumed-later / F-C02-cfw-…


def outcome_of(real: List[Dict[str, Any]], linked: bool) -> Dict[str, Any]:
    """what the run returns: the collected table of every requested step, or the fact that it raises"""
    res: Dict[str, Any] = {}
    for t in real:
        if t.get("err") or t["op"] is None:
            return {"error": True}
        if t["op"] == "collect":
            tab = t.get("result") or {}
            res[str(t["step"])] = sort_rows(tab) if linked else tab
    return {"tables": res}


def open_intervals(sched: List[Tuple[int, str]]) -> Dict[int, Tuple[int, int]]:
    first: Dict[int, int] = {}
    last: Dict[int, int] = {}
    for k, (i, w) in enumerate(sched):
        if w == "w":
            first.setdefault(i, k)
            last[i] = k
    return {i: (first[i], last[i]) for i in first}


def replacing_overlap(world: World, sched: List[Tuple[int, str]], styles: Dict[int, str]) -> bool:
    """refined input class of the lost-update finding: two feature-group steps on ONE object are open at the same time and at least one
    of them replaces the object's table (a new-table group, or the PyArrow array path) - `C06.steps_thread_lost_update_iff`,
    `C06.steps_array_and_mixed_groups_lose_witness`; in-place / pandas-Series steps alone never lose (`C06.steps_inplace_groups_do_not_lose`)"""
    iv = open_intervals(sched)
    ids = [i for i in iv if styles.get(i) is not None]
    for a in ids:
        for b in ids:
            if a < b and world.step_obj[a][0] == world.step_obj[b][0] and iv[a][0] < iv[b][1] and iv[b][0] < iv[a][1]:
                if styles[a] in ("fresh", "column-pyarrow") or styles[b] in ("fresh", "column-pyarrow"):
                    return True
    return False


def lost_update_explains(real: List[Dict[str, Any]], world: World, styles: Dict[int, Any]) -> bool:
    """the lost update as it shows in the observed trace: some step executes `self.data = …` and a column the object's table had just before
    is gone (a new-table group / the PyArrow array path installs its copy; or an in-place group re-installs the object it was handed after
    a new-table sibling had replaced it)"""
    prev: Dict[int, Set[str]] = {}
    for t in real:
        if t["op"] is None:
            continue
        a = world.step_obj.get(t["step"], (0, 0))[0]
        d = t["obj"]["data"]
        cols = set(d["table"]) if isinstance(d, dict) else set()
        if t["op"] == "write" and styles.get(t["step"]) is not None and (prev.get(a, set()) - cols):
            return True
        prev[a] = cols
    return False


def step_styles(req: Dict[str, Any]) -> Dict[int, Any]:
    out: Dict[int, Any] = {}
    for i, st in enumerate(req["steps"]):
        if st["kind"] == "fg":
            fw = req["objs"][st["obj"]]["fw"] if st["obj"] < len(req["objs"]) else "pyarrow"
            out[i] = "column-" + fw if st["style"] == "column" else st["style"]
        else:
            out[i] = None
    return out


def oracle(ctx: Ctx, suite: str, case: Any, linked: bool, sched: List[Tuple[int, str]], real: List[Dict[str, Any]], world: World, req: Dict[str, Any], ref: Optional[Dict[str, Any]]) -> None:
    if ref is None or "tables" not in ref:
        return  # the request does not work in SYNC either (other properties' findings)
    got = outcome_of(real, linked)
    if got == ref:
        return
    styles = step_styles(req)
    fclass = KNOWN_CLASS if replacing_overlap(world, sched, styles) else None
    explained = lost_update_explains(real, world, styles)
    spec = case.get("spec", {}) if isinstance(case, dict) else {}
    if fclass is None and not explained and spec.get("joindag") and S.jd_top_on_right_only(spec):
        # another ORDER of the steps (no overlap needed): a group on top of a right-source-only feature of the join consumer is handed the
        # joined left object, which is dropped as soon as its own children are reported (F-C01-join-right-only-consumed-later and siblings)
        ctx.tag("steps_violation_join_right_only", True)
        ctx.violation(suite, case, "another admissible order of the steps returns something else than the SYNC order (group on a right-only feature of a join consumer)", got, ref, finding_class=JOIN_RIGHT_ONLY_CLASS)
        return
    ctx.tag("steps_violation_explained", explained)
    if fclass is not None and not explained:
        ctx.note("steps: lost-update class without the read/write/write pattern in the trace: " + json.dumps(case["sched"] if isinstance(case, dict) and "sched" in case else case)[:3000])
    ctx.violation(suite, case, "a THREADING schedule the orchestrator allows returns something else than the SYNC schedule" + ("" if fclass else " although no overlapping step replaces the shared table object"),
                  got, ref, finding_class=fclass)  # fmt: skip


# ------------------------------------------------------------------------------------------------------------------
# suites


def sub_rng(ctx: Ctx, suite: str) -> Any:
    import random

    return random.Random(f"{ctx.prop}:{ctx.seed}:{suite}:{ctx.tier}:{ctx.scale_factor}")


def gen_micro_spec(rng: Any) -> Tuple[str, Dict[str, Any], bool]:
    """(kind, spec, linked)"""
    r = rng.random()
    if r < 0.55:
        fw = rng.choice(["pd", "pd", "pa", "py"])
        spec = S.gen_spec(rng, max_feats=rng.choice([3, 5, 7]), frameworks=(fw,), allow_options=False)
        for g in spec["groups"]:
            g["style"] = rng.choice({"pd": [False, True, "series", "series"], "pa": [False, "array", "array"], "py": [False, True]}[fw])
        if rng.random() < 0.5:
            have = {q["name"] for q in spec["request"]}
            spec["request"] += [{"name": c, "options": {}} for c in spec["roots"][0]["cols"] if c not in have and rng.random() < 0.7]
        return "single-fw", spec, False
    if r < 0.75:
        spec = S.gen_chain_spec(rng)
        for g in spec["groups"]:
            g["style"] = rng.choice([False, True, "series"])
        return "multi-fw", spec, False
    fw = rng.choice(["pa", "pd"])
    spec = S.gen_join_dag_spec(rng, frameworks=(fw,))
    spec["links"][0]["type"] = rng.choice(["inner", "left"])
    side = rng.choice([0, 1, None])
    if side is not None and len(spec["sources"][side]["cols"][spec["sources"][side]["key"]]) >= 2:
        # the key sets differ: a left join pads, an inner join drops (the two sides of the merge are not interchangeable)
        for c in spec["sources"][side]["cols"]:
            spec["sources"][side]["cols"][c] = spec["sources"][side]["cols"][c][:-1]
    return "join", spec, True


def prepare_any(spec: Dict[str, Any], linked: bool) -> Any:
    ARRAY_GROUPS.clear()
    for g in spec.get("groups", []):
        if g.get("style") == "array":
            ARRAY_GROUPS.add(g["name"])
    if linked:
        return S.prepare_link(spec, hooks=HOOKS)
    classes = {}
    for r in spec["roots"]:
        classes[r["name"]] = F.make_group(r["name"], root_data=r["cols"], frameworks={F.FW_SHORT[r["fw"]]}, hooks=HOOKS)
    for g in spec["groups"]:
        st = g.get("style", bool(spec.get("inplace")))
        classes[g["name"]] = F.make_group(g["name"], derived=g["features"], frameworks={F.FW_SHORT[g["fw"]]}, hooks=HOOKS, inplace=False if st == "array" else st)
    return S.prepare(spec, classes)


def micro_case(ctx: Ctx, suite: str, kind: str, spec: Dict[str, Any], linked: bool, choosers: List[Any], pending: List[Any]) -> None:
    try:
        sess = prepare_any(spec, linked)
    except Exception:
        ctx.tag("steps_rejected_at_prepare", kind)
        return
    ref: Optional[Dict[str, Any]] = None
    for rep, choose in enumerate(choosers):
        world = World(sess)
        col, uid = Names(), Names()
        try:
            sched, real = drive(world, choose)
        except Exception as e:
            world.close()
            ctx.note(f"steps: scheduler error {e!r} on {json.dumps(spec)[:300]}")
            continue
        world.close()
        req = model_request(world, spec, col, uid)
        req["sched"] = [i for i, _ in sched]
        req["op"] = f"{DRIVER}.run"
        if rep == 0:
            ref = outcome_of(real, linked)
        pending.append((suite, kind, spec, linked, sched, real, world, col, uid, req, rep, ref))


def flush(ctx: Ctx, pending: List[Any]) -> None:
    if not pending:
        return
    outs = ctx.driver(DRIVER).batch([p[9] for p in pending])
    for (suite, kind, spec, linked, sched, real, world, col, uid, req, rep, ref), out in zip(pending, outs):
        case = {"spec": spec, "sched": [[i, w] for i, w in sched]}
        conc = overlapping(sched)
        ctx.case(suite, case, conc or rep == 0 and len(world.steps) >= 2, steps_kind=kind, steps_interleaved=conc, steps_ops=len(sched) // 10 * 10)
        for r in real:
            ctx.tag("steps_op", r["op"])
            if r.get("err"):
                ctx.tag("steps_real_err", err_class(r["err"]))
        diff = compare_traces(real, out, world, col, uid, linked)
        if diff is not None:
            ctx.disagree(suite, case, {"diff": diff, "real_ops": [[r["step"], r["op"]] for r in real]}, {"model_ops": [[m.get("step"), m.get("op")] for m in out.get("trace", [])]})
        if rep != 0:
            oracle(ctx, suite, case, linked, sched, real, world, req, ref)
    pending.clear()


def overlapping(sched: List[Tuple[int, str]]) -> bool:
    """some step's worker micro-steps are interleaved with another's"""
    first: Dict[int, int] = {}
    last: Dict[int, int] = {}
    for k, (i, w) in enumerate(sched):
        if w != "w":
            continue
        first.setdefault(i, k)
        last[i] = k
    ids = list(first)
    for a in ids:
        for b in ids:
            if a != b and first[a] < first[b] < last[a]:
                return True
    return False


def micro_suite(ctx: Ctx) -> None:
    install_hooks()
    rng = sub_rng(ctx, "steps_micro")
    pending: List[Any] = []
    for _ in range(ctx.budget(24, 600)):
        kind, spec, linked = gen_micro_spec(rng)
        choosers = [chooser_sync] + [chooser_random(rng, rng.choice([0.2, 0.5, 0.8])) for _ in range(2 if ctx.quick else 4)]
        micro_case(ctx, "steps_micro", kind, spec, linked, choosers, pending)
        if len(pending) >= 120:
            flush(ctx, pending)
    flush(ctx, pending)
    KEEP.clear()


# ------------------------------------------------------------------------------------------------------------------
# suite steps_pairs: two sibling groups on one object, systematic placements of B's micro-steps relative to A's

PAIR_STYLES = {
    "pd": [False, True, "series"],
    "pa": [False, "array"],
    "py": [False, True],
}
PROG_LEN = {"fresh": 6, "inplace": 6, ("column", "pandas"): 9, ("column", "pyarrow"): 7}


def shuffles(a: List[int], b: List[int]) -> List[List[int]]:
    if not a:
        return [list(b)]
    if not b:
        return [list(a)]
    return [[a[0]] + r for r in shuffles(a[1:], b)] + [[b[0]] + r for r in shuffles(a, b[1:])]


def pair_spec(fw: str, sa: Any, sb: Any, rng: Any, consumer: bool) -> Dict[str, Any]:
    uid = F.uniq("")
    nrows = rng.randint(1, 3)
    rc = f"r{uid}"
    groups = [
        {"name": f"A{uid}", "fw": fw, "style": sa, "features": {f"a{uid}": {"parents": [rc], "expr": ["add", ["col", rc], ["const", 1]]}}},
        {"name": f"B{uid}", "fw": fw, "style": sb, "features": {f"b{uid}": {"parents": [rc], "expr": ["mul", ["col", rc], ["const", 2]]}}},
    ]
    req = [f"a{uid}", f"b{uid}"]
    if consumer:
        groups.append({"name": f"Z{uid}", "fw": fw, "style": False, "features": {f"z{uid}": {"parents": [f"a{uid}", f"b{uid}"], "expr": ["add", ["col", f"a{uid}"], ["col", f"b{uid}"]]}}})
        req = [f"z{uid}"] + [q for q in req if rng.random() < 0.5]
    return {"roots": [{"name": f"R{uid}", "cols": {rc: [rng.randint(-5, 9) for _ in range(nrows)]}, "fw": fw}], "groups": groups,
            "request": [{"name": q, "options": {}} for q in req]}  # fmt: skip


def lost_pattern(sched: List[Tuple[int, str]], a: int, b: int) -> bool:
    """A's read (its 2nd micro-step) before B's write (B's 4th), A's write (its 4th) after it - `C06.lostPattern`"""

    def pos(i: int, k: int) -> Optional[int]:
        n = 0
        for p_, (j, w) in enumerate(sched):
            if j == i and w == "w":
                n += 1
                if n == k:
                    return p_
        return None

    ra, wb, wa = pos(a, 2), pos(b, 4), pos(a, 4)
    return ra is not None and wb is not None and wa is not None and ra < wb < wa


def pairs_suite(ctx: Ctx) -> None:
    """Besides model = implementation on every schedule, the theorems' predictions are checked on the real objects:
    new-table siblings lose B's column iff `C06.lostPattern` (steps_thread_lost_update_iff, both directions);
    in-place siblings never lose a column (steps_inplace_groups_do_not_lose)."""
    install_hooks()
    rng = sub_rng(ctx, "steps_pairs")
    pending: List[Any] = []
    combos = [(fw, sa, sb) for fw in PAIR_STYLES for sa in PAIR_STYLES[fw] for sb in PAIR_STYLES[fw]]
    per = ctx.budget(6, 120)
    for fw, sa, sb in combos:
        fwf = {"pd": "pandas", "pa": "pyarrow", "py": "pydict"}[fw]
        ea, eb = effective_style(sa, fwf, 1, sa == "array"), effective_style(sb, fwf, 1, sb == "array")
        la = PROG_LEN.get(ea) or PROG_LEN[(ea, fwf)]
        lb = PROG_LEN.get(eb) or PROG_LEN[(eb, fwf)]
        allsh = shuffles([0] * la, [1] * lb) if la + lb <= 12 and not ctx.quick and ctx.scale_factor >= 1.0 and (ea, eb) == ("fresh", "fresh") and fw == "pd" else None
        if allsh is None:
            allsh = []
            for _ in range(per):
                x = [0] * la + [1] * lb
                rng.shuffle(x)
                allsh.append(x)
        spec = pair_spec(fw, sa, sb, rng, consumer=rng.random() < 0.5)
        try:
            sess = prepare_any(spec, False)
        except Exception:
            ctx.tag("steps_rejected_at_prepare", "pair")
            continue
        w0 = World(sess)
        try:
            _, real0 = drive(w0, chooser_sync)
        finally:
            w0.close()
        ref = outcome_of(real0, False)
        for sh in allsh:
            world = World(sess)
            # plan positions of the two sibling steps
            ia = next(i for i, st in enumerate(world.steps) if st.feature_group.__name__ == spec["groups"][0]["name"])
            ib = next(i for i, st in enumerate(world.steps) if st.feature_group.__name__ == spec["groups"][1]["name"])
            ir = next(i for i, st in enumerate(world.steps) if st.feature_group.__name__ == spec["roots"][0]["name"])
            script = [(ir, "w")] * 6 + [(ir, "collect"), (ir, "report")] + [((ia, ib)[k], "w") for k in sh]
            col, uid = Names(), Names()
            try:
                sched, real = drive(world, chooser_script(script, chooser_sync))
            except Exception as e:
                world.close()
                ctx.note(f"steps: scheduler error {e!r} on pair {fw} {sa} {sb}")
                continue
            world.close()
            req = model_request(world, spec, col, uid)
            req["sched"] = [i for i, _ in sched]
            req["op"] = f"{DRIVER}.run"
            pending.append(("steps_pairs", f"pair-{fw}-{ea}-{eb}", spec, False, sched, real, world, col, uid, req, 1, ref))
            # predictions of the theorems on the real final table of the shared object (before the drop)
            acol, bcol = list(spec["groups"][0]["features"])[0], list(spec["groups"][1]["features"])[0]
            last_w = [t for t in real if t["op"] in ("write", "setCols", "valOut", "trMut") and t["step"] in (ia, ib) and isinstance(t["obj"]["data"], dict)]
            both_done = sum(1 for t in real if t["step"] in (ia, ib) and t["op"] == "valOut") == 2
            if last_w and both_done:
                cols_end = set(last_w[-1]["obj"]["data"]["table"])
                case = {"spec": spec, "sched": [[i, w] for i, w in sched]}
                if (ea, eb) == ("fresh", "fresh"):
                    for (x, y, ycol) in ((ia, ib, bcol), (ib, ia, acol)):
                        pred = lost_pattern(sched, x, y)
                        if (ycol not in cols_end) != pred:
                            ctx.disagree("steps_pairs", case, {"lost": ycol not in cols_end, "cols": sorted(cols_end)}, {"theorem": "C06.steps_thread_lost_update_iff", "predicts_lost": pred})
                    ctx.tag("steps_pair_lost", (acol not in cols_end) or (bcol not in cols_end))
                if ea == "inplace" and eb == "inplace":
                    if acol not in cols_end or bcol not in cols_end:
                        ctx.disagree("steps_pairs", case, {"cols": sorted(cols_end)}, {"theorem": "C06.steps_inplace_groups_do_not_lose"})
                ctx.tag(f"steps_pair_{ea}_{eb}_{fw}", "lost" if (acol not in cols_end or bcol not in cols_end) else "kept")
            if len(pending) >= 150:
                flush(ctx, pending)
    flush(ctx, pending)
    KEEP.clear()


# ------------------------------------------------------------------------------------------------------------------
# suite steps_witness: the closed Lean witnesses replayed on the real classes


def witness_suite(ctx: Ctx) -> None:
    install_hooks()
    pending: List[Any] = []
    # C06.steps_thread_lost_update_witness: root a = 5, M: m = a + 1, N: n = a * 2, Z: z = m + n, new-table groups on pandas
    for fw in ("pd", "pa", "py"):
        uid_ = F.uniq("")
        a, m, n, z = f"a{uid_}", f"m{uid_}", f"n{uid_}", f"z{uid_}"
        spec = {"roots": [{"name": f"R{uid_}", "cols": {a: [5]}, "fw": fw}],
                "groups": [{"name": f"M{uid_}", "fw": fw, "style": False, "features": {m: {"parents": [a], "expr": ["add", ["col", a], ["const", 1]]}}},
                           {"name": f"N{uid_}", "fw": fw, "style": False, "features": {n: {"parents": [a], "expr": ["mul", ["col", a], ["const", 2]]}}},
                           {"name": f"Z{uid_}", "fw": fw, "style": False, "features": {z: {"parents": [m, n], "expr": ["add", ["col", m], ["col", n]]}}}],
                "request": [{"name": z, "options": {}}]}  # fmt: skip
        sess = prepare_any(spec, False)
        for which in ("lost", "sync"):
            world = World(sess)
            idx = {st.feature_group.__name__[0]: i for i, st in enumerate(world.steps)}
            r_, m_, n_, z_ = idx["R"], idx["M"], idx["N"], idx["Z"]
            if which == "lost":
                order = [r_] * 6 + ["rep_r"] + [m_] * 2 + [n_] * 6 + [m_] * 4 + ["rep_m", "rep_n"] + [z_] * 3
            else:
                order = [r_] * 6 + ["rep_r"] + [m_] * 6 + [n_] * 6 + ["rep_m", "rep_n"] + [z_] * 6
            script: List[Tuple[int, str]] = []
            for x in order:
                if x == "rep_r":
                    script.append((r_, "report"))
                elif x == "rep_m":
                    script.append((m_, "report"))
                elif x == "rep_n":
                    script.append((n_, "report"))
                else:
                    script.append((x, "w"))  # type: ignore[arg-type]
            col, uid = Names(), Names()
            sched, real = drive(world, chooser_script(script, chooser_sync))
            world.close()
            req = model_request(world, spec, col, uid)
            req["sched"] = [i for i, _ in sched]
            req["op"] = f"{DRIVER}.run"
            pending.append(("steps_witness", f"diamond-{which}-{fw}", spec, False, sched, real, world, col, uid, req, 0, None))
            zt = [t for t in real if t["step"] == z_]
            case = {"spec": spec, "which": which, "sched": [[i, w] for i, w in sched]}
            if which == "lost":
                ok = bool(zt) and zt[-1].get("err") and err_class(zt[-1]["err"]) == "calcRaised"
                mcols = [t for t in real if t["step"] == m_ and t["op"] == "write"]
                ok = ok and bool(mcols) and n not in mcols[-1]["obj"]["data"]["table"]
                if not ok:
                    ctx.disagree("steps_witness", case, {"z_trace": zt[-1:] if zt else None}, {"theorem": "C06.steps_thread_lost_update_witness: Z raises, column n lost"})
            else:
                coll = [t for t in real if t["step"] == z_ and t["op"] == "collect"]
                if not coll or coll[-1].get("result") != {z: [16]}:
                    ctx.disagree("steps_witness", case, {"collect": coll[-1:] if coll else None}, {"theorem": "serial run gives z = 16"})
    flush(ctx, pending)
    KEEP.clear()


# ------------------------------------------------------------------------------------------------------------------
# suite steps_upload: the count test of run_calculation on real objects; suite steps_mode: the executor of each step class


def upload_suite(ctx: Ctx) -> None:
    from uuid import UUID
    from mloda.core.abstract_plugins.components.feature import Feature
    from mloda.core.abstract_plugins.components.feature_set import FeatureSet
    from mloda.core.abstract_plugins.components.parallelization_modes import ParallelizationMode
    from mloda_plugins.compute_framework.base_implementations.pyarrow.table import PyArrowTable
    from harness.corr.c09_life import FakeFlight, LOC

    rng = sub_rng(ctx, "steps_upload")
    uniq = F.uniq("")
    root = F.make_group(f"U{uniq}", root_data={f"u{uniq}_{k}": [1, 2] for k in range(4)}, frameworks={PyArrowTable})

    def U(k: int) -> UUID:
        return UUID(int=k + 1)

    cases: List[Any] = [
        ([1, 2, 3], [8, 9], [1]),  # C06.steps_upload_decision_too_early_witness
        ([1, 2], [], [7, 8]),
        ([1, 2, 3], [1], [2]),
        ([1, 2, 3], [1, 3], [2]),
    ]
    for _ in range(ctx.budget(60, 1500)):
        n = rng.randint(1, 6)
        children = rng.sample(range(1, 10), n)
        tracker = rng.sample(range(1, 14), rng.randint(0, 5)) if rng.random() < 0.4 else rng.sample(children, rng.randint(0, len(children)))
        pool = [c for c in children if c not in tracker] if rng.random() < 0.7 else list(range(1, 14))
        feats = rng.sample(pool, min(len(pool), rng.randint(1, 3))) or [children[0]]
        cases.append((children, tracker, feats[:4]))
    reqs = []
    impls = []
    with FakeFlight() as ff:
        for children, tracker, feats in cases:
            cfw = PyArrowTable(ParallelizationMode.MULTIPROCESSING, frozenset(U(c) for c in children), U(100))
            cfw.already_calculated_children_tracker = {U(t) for t in tracker}
            fs = FeatureSet()
            for k, fid in enumerate(feats):
                f = Feature(f"u{uniq}_{k}")
                f.uuid = U(fid)
                f.compute_frameworks = {PyArrowTable}
                fs.add(f)
            ff.tables.clear()
            try:
                ret = cfw.run_calculation(root, fs, LOC, None)
                impl = {"keep": not isinstance(ret, str), "uploaded": str(U(100)) in ff.tables, "data_is_key": isinstance(cfw.__dict__.get("_data", getattr(cfw, "data", None)), str)}
            except Exception as e:  # noqa
                impl = {"error": repr(e)[:200]}
            hyp = len(set(tracker)) == len(tracker) and set(tracker) <= set(children) and set(feats) <= set(children) and not (set(tracker) & set(feats))
            case = {"children": children, "tracker": tracker, "feats": feats}
            ctx.case("steps_upload", case, True, steps_upload_hyp=hyp, steps_upload_keep=impl.get("keep"))
            reqs.append({"op": f"{DRIVER}.upload", **case})
            impls.append((case, impl, hyp))
    for (case, impl, hyp), out in zip(impls, ctx.driver(DRIVER).batch(reqs)):
        want = {"keep": out["keep"], "uploaded": not out["keep"], "data_is_key": not out["keep"]}
        if impl != want:
            ctx.disagree("steps_upload", case, impl, want)
        # oracle (drop protocol's subset test): under the hypotheses of C06.steps_upload_decision_agree the data is uploaded
        # exactly when every child of the object is calculated; never later than that in general
        all_calc = set(case["children"]) <= set(case["tracker"]) | set(case["feats"])
        if "keep" in impl:
            if hyp and impl["keep"] == all_calc:
                ctx.violation("steps_upload", case, "count-based upload test differs from the subset test although tracker and features are disjoint sets of children", impl, {"all_calculated": all_calc})
            if all_calc and impl["keep"]:
                ctx.violation("steps_upload", case, "every child is calculated but run_calculation does not upload (too late)", impl, {"all_calculated": True})
            if not hyp and not all_calc and not impl["keep"]:
                ctx.tag("steps_upload_too_early", True)


def mode_suite(ctx: Ctx) -> None:
    """`_get_execution_function` with the mode set the three real step classes offer (model op shared with C02_cfw's table)."""
    from mloda.core.abstract_plugins.components.parallelization_modes import ParallelizationMode as PM
    from mloda.core.core.cfw_manager import CfwManager
    from mloda.core.core.step.abstract_step import Step
    from mloda.core.runtime.compute_framework_executor import ComputeFrameworkExecutor
    from mloda.core.runtime.worker_manager import WorkerManager

    M = {"sync": PM.SYNC, "thread": PM.THREADING, "mp": PM.MULTIPROCESSING}
    inv = {v: k for k, v in M.items()}
    ex = ComputeFrameworkExecutor(CfwManager({PM.SYNC}), WorkerManager())
    step_modes = Step.get_parallelization_mode(None)  # type: ignore[arg-type]
    reqs, impls = [], []
    for a in range(8):
        ra = [n for i, n in enumerate(M) if a >> i & 1]
        fn = ex._get_execution_function({M[x] for x in ra}, step_modes)
        impl = {"multi_execute_step": "mp", "thread_execute_step": "thread", "sync_execute_step": "sync"}[fn.__name__]
        want = "mp" if "mp" in ra else "thread" if "thread" in ra else "sync"  # C06.steps_mode_dispatch
        case = {"reg": ra, "step": sorted(inv[m] for m in step_modes)}
        ctx.case("steps_mode", case, len(ra) >= 2)
        if impl != want:
            ctx.violation("steps_mode", case, "a step is not executed by the most parallel executor the run asked for", impl, want)
        reqs.append({"op": f"{DRIVER}.mode", **case})
        impls.append(impl)
    for rq, im, mo in zip(reqs, impls, ctx.driver(DRIVER).batch(reqs)):
        if im != mo:
            ctx.disagree("steps_mode", rq, im, mo)


# ------------------------------------------------------------------------------------------------------------------
# suite steps_e2e: whole runs in the three modes with the access recorder on


def shrinking_write(log: List[Any]) -> bool:
    """some `self.data = …` of run_calculation installed a table lacking a column the object's previous table had"""
    prev: Dict[str, Set[str]] = {}
    for e in log:
        if e[0] != "W" or e[5] is None:
            continue
        cols = set(e[5])
        if e[2] == "run_calculation" and (prev.get(e[1], set()) - cols):
            return True
        prev[e[1]] = cols
    return False


def e2e_suite(ctx: Ctx) -> None:
    global ACCESS_LOG
    install_hooks()
    rng = sub_rng(ctx, "steps_e2e")
    for _ in range(ctx.budget(10, 200)):
        if rng.random() < 0.6:
            fw = rng.choice(["pd", "pd", "pa", "py"])
            sa, sb = rng.choice(PAIR_STYLES[fw]), rng.choice(PAIR_STYLES[fw])
            spec = pair_spec(fw, sa, sb, rng, consumer=True)
            kind, linked = "pair", False
        else:
            kind, spec, linked = gen_micro_spec(rng)
            if kind == "join":
                continue  # whole-run behaviour of join plans is C05 / c06.py's subject (some accepted join-DAG plans spin, see C04); below: one fixed join shape in MULTIPROCESSING
        try:
            sess = prepare_any(spec, linked)
        except Exception:
            ctx.tag("steps_rejected_at_prepare", kind)
            continue
        exp = S.export_plan(sess)
        E2E_DELAYS.clear()
        base = S.run_session(sess, "sync")
        want = {"error": True} if base.error is not None else ({"timeout": True} if base.timed_out else {"tables": S.tables_canon(base.results, sort_rows=linked)})
        groups = [g["name"] for g in spec.get("groups", [])] + [g["name"] for g in (S.link_groups(spec) if linked else [])]
        mp_ok = kind in ("pair", "single-fw") or (kind == "multi-fw" and not S.mp_unuploaded_tfs_source(exp) and all(st["from"] == "PyArrowTable" for st in exp["steps"] if st["kind"] == "tfs"))
        runs = [("thread", k) for k in range(2 if ctx.quick else 3)] + ([("mp", 0)] if (mp_ok and rng.random() < (0.4 if ctx.quick else 0.6)) else [])
        for mode, rep in runs:
            E2E_DELAYS.clear()
            for g in groups:
                E2E_DELAYS[g] = rng.choice([0, 0.004, 0.012, 0.03])
            if kind == "pair" and rng.random() < 0.7:
                # the sibling that starts first computes slowly: the other one writes between its read and its write
                fg_order = [st["group"] for st in exp["steps"] if st["kind"] == "fg" and st["group"] in groups[:2]]
                if len(fg_order) == 2:
                    E2E_DELAYS[fg_order[0]], E2E_DELAYS[fg_order[1]] = 0.04, 0.0
            ACCESS_LOG = [] if mode == "thread" else None
            try:
                rr = S.run_session(sess, mode)
            finally:
                log, ACCESS_LOG = ACCESS_LOG, None
            got = {"error": True} if rr.error is not None else ({"timeout": True} if rr.timed_out else {"tables": S.tables_canon(rr.results, sort_rows=linked)})
            overlap = S.overlap_on_shared_fw(exp, rr.events)
            case = {"spec": spec, "mode": mode, "delays": dict(E2E_DELAYS)}
            ctx.case("steps_e2e", case, overlap or mode == "mp", steps_e2e_mode=mode, steps_e2e_overlap=overlap, steps_e2e_outcome=next(iter(got)))
            if got != want and "tables" in want:
                fclass = KNOWN_CLASS if (mode == "thread" and overlap) else None
                if mode == "thread":
                    explained = shrinking_write(log or [])
                    ctx.tag("steps_e2e_explained", explained)
                    if fclass and not explained:
                        ctx.note("steps_e2e: result differs from SYNC in the lost-update class but no write removed a column: " + json.dumps({"error": (rr.error or "")[:400], "log": [[e[0], e[1][:4], e[2], e[3] % 1000, e[5] if len(e) > 5 else None] for e in (log or []) if e[0] == "W" or e[2] in ("run_calculate_feature", "transform", "get_result_data")], "case": case})[:6000])
                ctx.violation("steps_e2e", case, f"result in mode {mode} differs from SYNC ({next(iter(got))} vs {next(iter(want))})", got, want, finding_class=fclass)
    E2E_DELAYS.clear()
    mp_keystring_e2e(ctx, rng)
    KEEP.clear()
    S.stop_flight_server()


MP_KEY_CLASS = "multiprocessing-count-upload-hands-key-string-to-next-step"


def keystring_spec(rng: Any, right_only: bool) -> Dict[str, Any]:
    """two PyArrow sources with coinciding unique keys, one inner / left link, a consumer group computing x over both sources and (with
    `right_only`) y over the right source only, one or two groups on top that use x (and y)"""
    uid = F.uniq("")
    n = rng.randint(1, 4)
    keys = rng.sample([1, 2, 3, 4, 5, 6], n)
    srcs = []
    for i in range(2):
        ks = list(keys)
        rng.shuffle(ks)
        srcs.append({"name": f"S{uid}_{i}", "fw": "pa", "key": f"k{uid}_{i}", "cols": {f"k{uid}_{i}": ks, f"v{uid}_{i}": [rng.randint(0, 9) for _ in ks]}})
    feats: Dict[str, Any] = {f"x{uid}": {"parents": [f"v{uid}_0", f"v{uid}_1"], "expr": ["add", ["col", f"v{uid}_0"], ["col", f"v{uid}_1"]]}}
    if right_only:
        feats[f"y{uid}"] = {"parents": [f"v{uid}_1"], "expr": ["add", ["col", f"v{uid}_1"], ["const", rng.randint(1, 4)]]}
    par = [f"x{uid}"] + ([f"y{uid}"] if right_only else [])
    expr: Any = ["col", par[0]]
    for q in par[1:]:
        expr = ["add", expr, ["col", q]]
    tops = [{"name": f"T{uid}_0", "fw": "pa", "features": {f"w{uid}_0": {"parents": par, "expr": expr}}}]
    if rng.random() < 0.5:
        tops.append({"name": f"T{uid}_1", "fw": "pa", "features": {f"w{uid}_1": {"parents": [f"w{uid}_0"], "expr": ["add", ["col", f"w{uid}_0"], ["const", 1]]}}})
    last = list(tops[-1]["features"])[0]
    return {"sources": srcs, "links": [{"type": rng.choice(["inner", "left"]), "left": 0, "right": 1}], "consumer": {"name": f"Z{uid}", "fw": "pa", "features": feats},
            "tops": tops, "request": [{"name": last, "options": {}}], "joindag": True}  # fmt: skip


def mp_hands_key_string(sess: Any) -> bool:
    """the refined input class, decided on the real worker functions without processes: executing the plan's worker commands in plan
    order (each drop command right after its step), some feature-group command is run while the worker's `data` variable is the key string
    that the count-based upload test of an EARLIER step left behind (`C06.steps_mp_key_string_witness`)"""
    import random as _r
    from harness.corr.c09_life import FakeFlight

    with FakeFlight() as ff:
        w = MPWorld(sess, ff)
        try:
            _, trace = mp_drive(w, _r.Random(0), 1.0)
        except Exception:
            return False
    prev_key: Dict[int, bool] = {}
    for t in trace:
        a = w.step_obj.get(t["cmd"][1], (None, None))[0]
        if t["cmd"][0] == "step" and prev_key.get(a) and t["err"]:
            return True
        prev_key[a] = t["slot"]["dataV"] == "key"
    return False


def mp_keystring_e2e(ctx: Ctx, rng: Any) -> None:
    for k in range(ctx.budget(2, 24)):
        right_only = k % 2 == 0
        spec = keystring_spec(rng, right_only)
        try:
            sess = prepare_any(spec, True)
        except Exception:
            ctx.tag("steps_rejected_at_prepare", "keystring")
            continue
        base = S.run_session(sess, "sync", timeout=25.0, attempts=1)
        if base.error is not None or base.timed_out:
            ctx.tag("steps_keystring_sync_fails", True)
            continue
        want = {"tables": S.tables_canon(base.results, sort_rows=True)}
        rr = S.run_session(sess, "mp", timeout=40.0, attempts=2)
        got = {"error": True} if rr.error is not None else ({"timeout": True} if rr.timed_out else {"tables": S.tables_canon(rr.results, sort_rows=True)})
        in_class = mp_hands_key_string(sess)
        case = {"spec": spec, "mode": "mp"}
        ctx.case("steps_e2e", case, True, steps_e2e_mode="mp-join", steps_keystring_class=in_class, steps_e2e_outcome=next(iter(got)))
        if got != want:
            ctx.violation("steps_e2e", case, f"result in mode mp differs from SYNC ({next(iter(got))} vs tables)" + (": " + (rr.error or "").strip().splitlines()[-1][:120] if rr.error else ""),
                          got, want, finding_class=MP_KEY_CLASS if in_class else None)  # fmt: skip


# ------------------------------------------------------------------------------------------------------------------
# suite steps_mp: the steps as worker commands (real `_execute_command`, `_handle_command_result`, `_handle_data_dropping`,
# `add_to_result_data_collection`), one private copy of the object per worker, flight store replaced by a dict


class MPWorld:
    def __init__(self, sess: Any, ff: Any) -> None:
        from mloda.core.abstract_plugins.components.parallelization_modes import ParallelizationMode
        from mloda.core.core.cfw_manager import CfwManager
        from mloda.core.runtime.compute_framework_executor import ComputeFrameworkExecutor
        from harness.corr.c09_life import LOC

        self.loc = LOC
        self.ff = ff
        self.mode = ParallelizationMode.MULTIPROCESSING
        self.runner = sess.engine.compute()
        self.runner.cfw_register = CfwManager({self.mode}, None)
        self.runner.cfw_register.set_location(LOC)
        self.runner.location = LOC
        self.runner.executor = ComputeFrameworkExecutor(self.runner.cfw_register, self.runner.worker_manager)
        self.steps = list(self.runner.execution_planner)
        self.objs: List[Any] = []  # uuids of the compute-framework objects in order of creation
        self.workers: Dict[Any, Dict[str, Any]] = {}
        self.step_obj: Dict[int, Tuple[int, int]] = {}

    def obj_index(self, u: Any) -> int:
        if u not in self.objs:
            self.objs.append(u)
        return self.objs.index(u)

    def observe(self, a: int) -> Dict[str, Any]:
        u = self.objs[a]
        w = self.workers.get(u)
        reg = self.runner.cfw_register
        fly = reg.get_uuid_flyway_datasets(u)
        out: Dict[str, Any] = {"stored": F.to_columns(self.ff.tables[str(u)]) if str(u) in self.ff.tables else None, "flyway": sorted(str(x) for x in (fly or []))}
        if w is None:
            out.update({"data": None, "dataV": None, "sameObj": True, "tracker": [], "stopped": False, "cols": [], "nobj": 0})
            return out
        cfw = w["cfw"]
        d = cfw.__dict__["_data"] if "_data" in cfw.__dict__ else cfw.__dict__.get("data")

        def val(x: Any) -> Any:
            return None if x is None else ("key" if isinstance(x, str) else {"table": F.to_columns(x)})

        out.update({"data": val(d), "dataV": val(w["data"]), "sameObj": (w["data"] is d) or (isinstance(w["data"], str) and w["data"] == d),
                    "tracker": sorted(str(x) for x in cfw.already_calculated_children_tracker), "stopped": w["stopped"],
                    "cols": sorted(str(c) for c in cfw.column_names), "nobj": len(cfw.object_ids)})  # fmt: skip
        return out

    def do(self, cmd: Tuple[str, int]) -> Dict[str, Any]:
        import copy
        import queue as pyqueue
        from mloda.core.runtime.worker import multiprocessing_worker as MW
        from mloda.core.core.step.transform_frame_work_step import TransformFrameworkStep

        what, i = cmd
        step = self.steps[i]
        ex = self.runner.executor
        reg = self.runner.cfw_register
        err = None
        res = None
        if what == "step":
            before = list(ex.cfw_collection)
            cfw_uuid = ex.prepare_execute_step(step, self.mode)
            for u in ex.cfw_collection:
                if u not in before:
                    self.obj_index(u)
            from_cfw = ex.prepare_tfs_right_cfw(step) if isinstance(step, TransformFrameworkStep) else None
            a = self.obj_index(cfw_uuid)
            if cfw_uuid not in self.workers:
                self.workers[cfw_uuid] = {"cfw": copy.deepcopy(ex.cfw_collection[cfw_uuid]), "data": None, "from_cfw": from_cfw, "stopped": False}
            w = self.workers[cfw_uuid]
            # which object does the command read?  (as `_execute_command` decides it; looked up BEFORE the join records its merge relation)
            b = a
            src_uuid = None
            if isinstance(step, TransformFrameworkStep):
                src_uuid = w["from_cfw"]
            elif type(step).__name__ == "JoinStep":
                src_uuid = reg.get_cfw_uuid(step.left_framework.get_class_name(), step.link.uuid) or reg.get_cfw_uuid(step.left_framework.get_class_name(), next(iter(step.right_framework_uuids)))
            if src_uuid is not None:
                b = self.obj_index(src_uuid)
            try:
                if not w["stopped"]:
                    fc = w["from_cfw"]
                    w["data"] = MW._execute_command(step, reg, w["cfw"], w["data"], fc)
                    MW._handle_command_result(step, w["cfw"], self.loc, w["data"], pyqueue.Queue())
            except BaseException as e:  # noqa
                err = "".join(str(x) for x in e.args)[:3000] if e.args else repr(e)
                w["stopped"] = True
            self.step_obj[i] = (a, b)
        elif what == "collect":
            a = self.step_obj[i][0]
            cfw = ex.cfw_collection[self.objs[a]]
            try:
                self.runner.add_to_result_data_collection(cfw, step.features, step.uuid)
                r = self.runner.data_lifecycle_manager.result_data_collection.get(step.uuid)
                res = F.to_columns(r) if r is not None else None
            except BaseException as e:  # noqa
                err = "".join(str(x) for x in e.args)[:2000] if e.args else repr(e)
        else:
            a = self.step_obj[i][0]
            w = self.workers[self.objs[a]]
            if not w["stopped"]:
                stop = MW._handle_data_dropping(pyqueue.Queue(), w["cfw"], {f.uuid for f in step.features.features}, self.loc, pyqueue.Queue())
                if stop:
                    w["stopped"] = True
        return {"cmd": [what, i], "err": err, "result": res, "slot": self.observe(self.step_obj[i][0])}


def mp_err_class(text: str) -> str:
    for k, v in [("not found", "notFound"), ("Try to get an empty", "notFound"), ("No columns found that match", "selectEmpty"), ("Data is not None, but api_input_data", "apiNotNone"),
                 ("failed with a KeyError", "calcRaised"), ("cannot add columns to", "calcRaised"), ("unknown table type", "calcRaised"),
                 ("Expected list, got", "noConversion"), ("has no attribute 'is_unique'", "noConversion"), ("No transformation path", "noConversion")]:
        if k in text:
            return v
    return "other:" + text[:100]


def mp_drive(world: MPWorld, rng: Any, eager_drop: float) -> Tuple[List[Tuple[str, int]], List[Dict[str, Any]]]:
    from mloda.core.core.step.feature_group_step import FeatureGroupStep

    prod: Dict[Any, int] = {}
    for i, st in enumerate(world.steps):
        for u in st.get_uuids():
            prod[u] = i
    req = {i: {prod[u] for u in st.required_uuids if u in prod} - {i} for i, st in enumerate(world.steps)}
    n = len(world.steps)
    tail: Dict[int, List[str]] = {}
    for i, st in enumerate(world.steps):
        tail[i] = ((["collect"] if st.features.get_initial_requested_features() else []) + ["drop"]) if isinstance(st, FeatureGroupStep) else []
    status = ["new"] * n
    fin: Set[int] = set()
    cmds: List[Tuple[str, int]] = []
    trace: List[Dict[str, Any]] = []
    while len(fin) < n and len(cmds) < 500:
        cands: List[Tuple[str, int]] = []
        for i in range(n):
            if status[i] == "new" and req[i] <= fin:
                cands.append(("step", i))
            elif status[i] == "ran" and tail[i]:
                cands.append((tail[i][0], i))
        if not cands:
            break
        pend = [c for c in cands if c[0] != "step"]
        c = rng.choice(pend) if (pend and rng.random() < eager_drop) else rng.choice(cands)
        t = world.do(c)
        cmds.append(c)
        trace.append(t)
        if t["err"]:
            break
        i = c[1]
        if c[0] == "step":
            status[i] = "ran"
        else:
            tail[i].pop(0)
        if status[i] == "ran" and not tail[i]:
            status[i] = "fin"
            fin.add(i)
    return cmds, trace


def mp_model_request(world: MPWorld, spec: Dict[str, Any], col: Names, uid: Names) -> Dict[str, Any]:
    # the in-process builder works on any object with .steps / .objs / .step_obj
    class _W:
        pass

    w = _W()
    w.steps = world.steps  # type: ignore[attr-defined]
    w.objs = [world.runner.executor.cfw_collection[u] for u in world.objs]  # type: ignore[attr-defined]
    w.step_obj = world.step_obj  # type: ignore[attr-defined]
    req = model_request(w, spec, col, uid)  # type: ignore[arg-type]
    from mloda.core.core.step.feature_group_step import FeatureGroupStep
    from mloda.core.core.step.transform_frame_work_step import TransformFrameworkStep

    for st, d in zip(world.steps, req["steps"]):
        if isinstance(st, FeatureGroupStep):
            d["needUpload"] = bool(st.need_to_upload)
            d["stepChildren"] = sorted(uid(u) for u in st.children_if_root)
        if isinstance(st, TransformFrameworkStep):
            d["noPathMp"] = fw_flag(st.from_framework) != "pyarrow"
    return req


def mp_suite(ctx: Ctx) -> None:
    from harness.corr.c09_life import FakeFlight

    rng = sub_rng(ctx, "steps_mp")
    pending: List[Any] = []
    with FakeFlight() as ff:
        for _ in range(ctx.budget(20, 500)):
            kind, spec, linked = gen_micro_spec(rng)
            if kind == "join" and spec["sources"][0]["fw"] != "pa":
                continue  # known MULTIPROCESSING join / transform classes of other findings are not this suite's subject
            try:
                sess = prepare_any(spec, linked)
            except Exception:
                ctx.tag("steps_rejected_at_prepare", kind)
                continue
            for rep in range(2):
                ff.tables.clear()
                world = MPWorld(sess, ff)
                col, uid = Names(), Names()
                try:
                    cmds, trace = mp_drive(world, rng, rng.choice([0.0, 0.5, 1.0]))
                except Exception as e:
                    ctx.note(f"steps_mp: driver error {e!r} on {json.dumps(spec)[:300]}")
                    continue
                req = mp_model_request(world, spec, col, uid)
                req["cmds"] = [[w_, i] for w_, i in cmds]
                req["op"] = f"{DRIVER}.mp"
                pending.append((kind, spec, linked, cmds, trace, col, uid, req))
    outs = ctx.driver(DRIVER).batch([p[7] for p in pending])
    for (kind, spec, linked, cmds, trace, col, uid, req), out in zip(pending, outs):
        case = {"spec": spec, "cmds": [[w_, i] for w_, i in cmds]}
        ctx.case("steps_mp", case, len(cmds) >= 4, steps_mp_kind=kind)
        mt = out.get("trace", [])
        diff = None
        for k, (r, m) in enumerate(zip(trace, mt)):
            rs = r["slot"]
            ms = m.get("slot") or {}

            def cv(x: Any) -> Any:
                if isinstance(x, dict):
                    t = {str(col(c)): v for c, v in x["table"].items()}
                    return {"table": sort_rows(t) if linked else t}
                return x

            def mv(x: Any) -> Any:
                if isinstance(x, dict):
                    t = {str(c): v for c, v in x.get("table", [])}
                    return {"table": sort_rows(t) if linked else t}
                return x

            ctx.tag("steps_mp_cmd", r["cmd"][0])
            realv = {"data": cv(rs["data"]), "dataV": cv(rs["dataV"]), "stored": cv({"table": rs["stored"]}) if rs["stored"] is not None else None,
                     "tracker": sorted(uid(u) for u in rs["tracker"]), "flyway": sorted(uid(u) for u in rs["flyway"]), "stopped": rs["stopped"], "nobj": rs["nobj"],
                     "err": mp_err_class(r["err"]) if r["err"] and r["cmd"][0] == "step" else None}  # fmt: skip
            modelv = {"data": mv(ms.get("data")), "dataV": mv(ms.get("dataV")), "stored": mv({"table": ms["stored"]}) if ms.get("stored") is not None else None,
                      "tracker": sorted(ms.get("tracker", [])), "flyway": sorted(ms.get("flyway", [])), "stopped": ms.get("stopped"), "nobj": ms.get("nobj"), "err": ms.get("err")}  # fmt: skip
            if r["err"]:
                ctx.tag("steps_mp_err", mp_err_class(r["err"]))
            if realv != modelv:
                diff = {"at": k, "cmd": r["cmd"], "real": realv, "model": modelv, "real_err": (r["err"] or "")[:300]}
                break
            if r["cmd"][0] == "collect":
                mr = m.get("result") or {}
                if r["err"]:
                    if mr.get("err") != mp_err_class(r["err"]):
                        diff = {"at": k, "cmd": r["cmd"], "real": r["err"][:300], "model": mr}
                        break
                else:
                    rt = {str(col(c)): v for c, v in (r["result"] or {}).items()}
                    mtab = {str(c): v for c, v in mr.get("table", [])}
                    if (sort_rows(rt) if linked else rt) != (sort_rows(mtab) if linked else mtab):
                        diff = {"at": k, "cmd": r["cmd"], "real": rt, "model": mr}
                        break
        if diff is None and len(mt) != len(trace):
            diff = {"what": "length", "real": len(trace), "model": len(mt)}
        if diff is not None:
            ctx.disagree("steps_mp", case, diff, None)


def run(ctx: Ctx) -> None:
    micro_suite(ctx)
    pairs_suite(ctx)
    witness_suite(ctx)
    upload_suite(ctx)
    mode_suite(ctx)
    mp_suite(ctx)
    e2e_suite(ctx)


def search(ctx: Ctx, broken: List[str]) -> None:
    run(ctx)


def replay(ctx: Ctx, body: Dict[str, Any]) -> None:
    run(ctx)
