"""C12 - every framework's merge engine implements the same relational operators.

Real code under test: PandasMergeEngine / PyArrowMergeEngine / PythonDictMergeEngine `.merge(...)` (through the final
`BaseMergeEngine.merge` dispatch).  Lean side (driver ops of lean/MlodaVerif/Drv/C12.lean): `pydict` = the statement-by-
statement model of the pure-Python engine, `pandas` / `arrow` = the engines over the named library semantics, `spec` = the
relational operators.  The oracle below is a nested-loop join written from the property text; it does not look at the
models.
"""
from __future__ import annotations

import itertools
from collections import Counter
from typing import Any, Dict, List, Optional, Tuple

from harness.core import Ctx

ASSUMPTIONS = [
    "pandas.merge / pandas.concat / DataFrame.drop_duplicates and pyarrow.Table.join / concat_tables behave as the named models "
    "PandasSem / ArrowSem (lean/MlodaVerif/Model/LibMergeSem.lean) say; differential-tested here on every run (pandas 3.0.6, pyarrow 25), not proved",
    "cells are small integers or null; a missing dict entry, None, NaN and pd.NA are the same null ('up to null representation')",
    "for the list-of-dicts framework the schema of a table is the union of the keys of its rows (an empty table has no columns), so no column-presence "
    "check is made there; for pandas / pyarrow the result schema must be the expected one",
    "column names of generated tables: key columns never share a name with a non-key column; 'mloda_right_index' is not used as a column name",
    "an overlapping non-key column must survive twice (pandas: c_x / c_y, pyarrow: two columns named c, left one first)",
    "append / union of tables with different column sets may be rejected (relational UNION needs union-compatible schemas) or null-padded",
]

JOINS4 = ("INNER", "LEFT", "RIGHT", "OUTER")
ALL6 = JOINS4 + ("APPEND", "UNION")
ENGINES = ("pd", "pa", "py")

KEYCFGS = {
    "1same": (["k"], ["k"]),
    "1diff": (["lk"], ["rk"]),
    "2same": (["k", "k2"], ["k", "k2"]),
    "2diff": (["lk", "lk2"], ["rk", "rk2"]),
    "2part": (["k", "lk2"], ["k", "rk2"]),
    # differently named two-column keys whose alphabetical order is NOT the same on both sides (p~s, q~r)
    "2rev": (["p", "q"], ["s", "r"]),
    # the same two names on both sides, paired crosswise (left k = right k2, left k2 = right k)
    "2swap": (["k", "k2"], ["k2", "k"]),
    # three columns, names in a different relative order on each side, one pair equally named
    "3mix": (["u", "k", "w"], ["z", "k", "v"]),
}

# ----------------------------------------------------------------------------------------------------------------
# case = {"t", "lk", "rk", "ls", "rs", "L": [[cell,...] aligned with ls], "R": ..., "pdmode": "float"|"Int64"}


def rows_of(cols: List[str], data: List[List[Any]]) -> List[Dict[str, Any]]:
    return [dict(zip(cols, r)) for r in data]


def key_of(row: Dict[str, Any], ks: List[str]) -> Tuple[Any, ...]:
    return tuple(row.get(k) for k in ks)


def coalesced(lk: List[str], rk: List[str]) -> List[str]:
    return [a for a, b in zip(lk, rk) if a == b]


# ----------------------------------------------------------------------------------------------------------------
# the independent oracle: relational operators as nested loops, from the property text


def oracle(t: str, lk: List[str], rk: List[str], ls: List[str], rs: List[str], L: List[Dict[str, Any]], R: List[Dict[str, Any]]) -> Dict[str, Any]:
    """Expected result: {"schema": set of tagged columns, "rows": Counter of canonical rows, "reject_ok": bool}.
    A tagged column is (name, side) with side 'L'/'R' only for a non-key column name present in both inputs."""
    if t in ("APPEND", "UNION"):
        rows = [{(c, ""): r.get(c) for c in r} for r in L + R]
        if t == "UNION":  # duplicate-free: one row per distinct row
            seen, out = set(), []
            for r in rows:
                k = canon_row(r)
                if k not in seen:
                    seen.add(k)
                    out.append(r)
            rows = out
        return {"schema": {(c, "") for c in ls + rs}, "rows": Counter(canon_row(r) for r in rows), "reject_ok": set(ls) != set(rs)}
    co = coalesced(lk, rk)
    ov = [c for c in ls if c in rs and c not in co]

    def tag(c: str, side: str) -> Tuple[str, str]:
        return (c, side if c in ov else "")

    def matches(l: Dict[str, Any], r: Dict[str, Any]) -> bool:
        kl = key_of(l, lk)
        return None not in kl and kl == key_of(r, rk)  # null keys never match

    def out_row(l: Optional[Dict[str, Any]], r: Optional[Dict[str, Any]]) -> Dict[Tuple[str, str], Any]:
        o: Dict[Tuple[str, str], Any] = {}
        for c in ls:
            o[tag(c, "L")] = l.get(c) if l is not None else None  # null padding of the left part
        for c in rs:
            if c in co:  # same-named key pair: one column
                if l is None and r is not None:
                    o[tag(c, "L")] = r.get(c)
                continue
            o[tag(c, "R")] = r.get(c) if r is not None else None  # null padding of the right part
        return o

    rows: List[Dict[Tuple[str, str], Any]] = []
    matched_r = set()
    for l in L:
        hit = False
        for j, r in enumerate(R):
            if matches(l, r):  # ALL matching pairs
                hit = True
                matched_r.add(j)
                rows.append(out_row(l, r))
        if not hit and t in ("LEFT", "OUTER"):
            rows.append(out_row(l, None))
    if t in ("RIGHT", "OUTER"):
        for j, r in enumerate(R):
            if j not in matched_r:
                rows.append(out_row(None, r))
    schema = {tag(c, "L") for c in ls} | {tag(c, "R") for c in rs if c not in co}
    return {"schema": schema, "rows": Counter(canon_row(r) for r in rows), "reject_ok": False}


def canon_row(r: Dict[Tuple[str, str], Any]) -> Tuple[Any, ...]:
    """row up to column order and null representation: the sorted non-null entries"""
    return tuple(sorted((c, s, v) for (c, s), v in r.items() if v is not None))


# ----------------------------------------------------------------------------------------------------------------
# running the real engines


def _norm(v: Any) -> Any:
    import math

    import pandas as pd

    if v is None or v is pd.NA or v is pd.NaT:
        return None
    if isinstance(v, float) and math.isnan(v):
        return None
    if hasattr(v, "item") and not isinstance(v, (str, bytes)):
        v = v.item()
    if isinstance(v, float):
        if math.isnan(v):
            return None
        if v == int(v):
            return int(v)
    return v


def build(engine: str, cols: List[str], data: List[List[Any]], pdmode: str) -> Any:
    if engine == "py":
        return [dict(zip(cols, r)) for r in data]
    columns = {c: [r[i] for r in data] for i, c in enumerate(cols)}
    if engine == "pa":
        import pyarrow as pa

        return pa.table([pa.array(columns[c], type=pa.int64()) for c in cols], names=cols) if cols else pa.table({})
    import pandas as pd

    if pdmode == "Int64":
        return pd.DataFrame({c: pd.array(columns[c], dtype="Int64") for c in cols}, columns=cols)
    return pd.DataFrame({c: pd.Series(columns[c], dtype="float64" if any(v is None for v in columns[c]) else "int64") for c in cols}, columns=cols)


_ENG: Dict[str, Any] = {}


def engine_obj(engine: str) -> Any:
    if engine not in _ENG:
        from mloda_plugins.compute_framework.base_implementations.pandas.pandas_merge_engine import PandasMergeEngine
        from mloda_plugins.compute_framework.base_implementations.pyarrow.pyarrow_merge_engine import PyArrowMergeEngine
        from mloda_plugins.compute_framework.base_implementations.python_dict.python_dict_merge_engine import PythonDictMergeEngine

        _ENG.update({"pd": PandasMergeEngine, "pa": PyArrowMergeEngine, "py": PythonDictMergeEngine})
    return _ENG[engine]()


def run_engine(engine: str, case: Dict[str, Any]) -> Dict[str, Any]:
    """-> {"cols": [names, duplicates kept, in order], "rows": [[(col, val)...] per row, entries in column order]} or {"err": kind}"""
    from mloda.core.abstract_plugins.components.index.index import Index
    from mloda.core.abstract_plugins.components.link import JoinType

    L = build(engine, case["ls"], case["L"], case.get("pdmode", "float"))
    R = build(engine, case["rs"], case["R"], case.get("pdmode", "float"))
    try:
        out = engine_obj(engine).merge(L, R, JoinType[case["t"]], Index(tuple(case["lk"])), Index(tuple(case["rk"])))
    except Exception as e:  # noqa: BLE001
        msg = str(e)
        if "union are not yet implemented" in msg:
            kind = "union-unimplemented"
        elif "Schemas of the tables do not match" in msg:
            kind = "append-schema"
        elif "mloda_right_index already exists" in msg:
            kind = "right-index-exists"
        elif isinstance(e, KeyError) or "No match or multiple matches for key field" in msg:
            kind = "missing-key-column"
        else:
            kind = f"error:{type(e).__name__}:{msg[:160]}"
        return {"err": kind}
    return normalize_table(out)


def normalize_table(out: Any) -> Dict[str, Any]:
    """any framework's table -> {"cols": [names in order, duplicates kept], "rows": [[(col, val), ...] per row]}; a list of
    dicts keeps exactly the entries each dict has"""
    import pyarrow as pa

    if isinstance(out, list):
        cols: List[str] = []
        for r in out:
            for k in r:
                if k not in cols:
                    cols.append(k)
        return {"cols": cols, "rows": [[(str(k), _norm(v)) for k, v in r.items()] for r in out]}
    if isinstance(out, pa.Table):
        names = list(out.column_names)
        colvals = [out.column(i).to_pylist() for i in range(out.num_columns)]
        return {"cols": names, "rows": [[(names[i], _norm(colvals[i][j])) for i in range(len(names))] for j in range(out.num_rows)]}
    names = [str(c) for c in out.columns]
    colvals = [out.iloc[:, i].tolist() for i in range(len(names))]
    return {"cols": names, "rows": [[(names[i], _norm(colvals[i][j])) for i in range(len(names))] for j in range(len(out))]}


def observable_schema(engine: str, cols: List[str], data: List[List[Any]]) -> List[str]:
    """what the engine can know about the columns of an input: a list of dicts without rows has none"""
    if engine == "py" and not data:
        return []
    return list(cols)


def tag_rows(engine: str, ov: List[str], cols: List[str], rows: List[List[Tuple[str, Any]]]) -> Tuple[set, Counter]:
    """engine output -> (set of tagged columns, Counter of canonical rows).  The two copies of an overlapping non-key
    column are recognised by the engine's own naming: pandas c_x / c_y, pyarrow two columns c (left one first)."""

    def tag_list(names: List[str]) -> List[Tuple[str, str]]:
        out, seen = [], Counter()
        for n in names:
            if engine == "pd" and n.endswith("_x") and n[:-2] in ov:
                out.append((n[:-2], "L"))
            elif engine == "pd" and n.endswith("_y") and n[:-2] in ov:
                out.append((n[:-2], "R"))
            elif engine in ("pa", "spec") and n in ov:
                out.append((n, "L" if seen[n] == 0 else ("R" if seen[n] == 1 else f"dup{seen[n]}")))
                seen[n] += 1
            else:
                out.append((n, ""))
        return out

    schema = set(tag_list(cols))
    bag: Counter = Counter()
    for r in rows:
        tl = tag_list([c for c, _ in r])
        bag[tuple(sorted((c, s, v) for (c, s), (_, v) in zip(tl, r) if v is not None))] += 1
    return schema, bag


def exact_bag(rows: List[List[Tuple[str, Any]]]) -> List[List[List[Any]]]:
    """rows exactly as produced (present entries incl. nulls, duplicate names kept), up to row and column order"""
    return sorted([sorted([[c, v] for c, v in r], key=lambda e: (e[0], e[1] is None, e[1] or 0)) for r in rows], key=repr)


def lean_rows(j: Any) -> List[List[Tuple[str, Any]]]:
    return [[(e[0], e[1]) for e in r] for r in j]


# ----------------------------------------------------------------------------------------------------------------
# narrow input classes of the known findings (predicates on the case; engine specific)


def _null_key_pair(case: Dict[str, Any]) -> bool:
    L, R = rows_of(case["ls"], case["L"]), rows_of(case["rs"], case["R"])
    for l in L:
        kl = key_of(l, case["lk"])
        if None in kl and any(kl == key_of(r, case["rk"]) for r in R):
            return True
    return False


def _dups(rows: List[Dict[str, Any]], ks: List[str]) -> bool:
    keys = [key_of(r, ks) for r in rows]
    return len(set(keys)) < len(keys)


def finding_classes(engine: str, case: Dict[str, Any]) -> List[str]:
    t, lk, rk = case["t"], case["lk"], case["rk"]
    L, R = rows_of(case["ls"], case["L"]), rows_of(case["rs"], case["R"])
    out: List[str] = []
    if engine == "py":
        if t in JOINS4:
            dl, dr = _dups(L, lk), _dups(R, rk)
            if (t in ("INNER", "LEFT") and dr) or (t == "RIGHT" and dl) or (t == "OUTER" and (dl or dr)):
                out.append("pydict-duplicate-key-on-indexed-side")
            if _null_key_pair(case):
                out.append("pydict-null-key-match")
            ls_o, rs_o = observable_schema("py", case["ls"], case["L"]), observable_schema("py", case["rs"], case["R"])
            if [c for c in ls_o if c in rs_o and c not in coalesced(lk, rk)]:
                out.append("pydict-overlapping-nonkey-column")
        if t == "UNION":
            rows = [(key_of(r, lk), r) for r in L] + [(key_of(r, rk), r) for r in R]
            nn = lambda r: {c: v for c, v in r.items() if v is not None}  # noqa: E731
            if any((a[0] == b[0]) != (nn(a[1]) == nn(b[1])) for a, b in itertools.combinations(rows, 2)):
                out.append("pydict-union-key-only-dedup")
    elif engine == "pd":
        if t in JOINS4 and _null_key_pair(case):
            out.append("pandas-null-key-match")
    elif engine == "pa":
        if t == "UNION":
            out.append("pyarrow-union-unimplemented")
        if t == "APPEND" and case["ls"] != case["rs"] and sorted(case["ls"]) == sorted(case["rs"]):
            out.append("pyarrow-append-same-columns-other-order")  # findings.d/C12_history.json
        if t in JOINS4 and lk != rk:
            if len(lk) > 1:
                out.append("pyarrow-multi-key-different-names")
            elif t in ("RIGHT", "OUTER"):
                out.append("pyarrow-single-key-different-names-right-outer")
    return out


# ----------------------------------------------------------------------------------------------------------------
# one case through one engine: oracle + model


def model_request(engine: str, case: Dict[str, Any]) -> Dict[str, Any]:
    op = {"py": "C12.pydict", "pd": "C12.pandas", "pa": "C12.arrow"}[engine]
    return {
        "op": op, "t": case["t"], "lk": case["lk"], "rk": case["rk"], "ls": case["ls"], "rs": case["rs"],
        "L": [[[c, v] for c, v in zip(case["ls"], r)] for r in case["L"]],
        "R": [[[c, v] for c, v in zip(case["rs"], r)] for r in case["R"]],
    }  # fmt: skip


def features(case: Dict[str, Any]) -> Dict[str, Any]:
    L, R = rows_of(case["ls"], case["L"]), rows_of(case["rs"], case["R"])
    lk, rk = case["lk"], case["rk"]
    co = coalesced(lk, rk)
    return {
        "dup": _dups(L, lk) or _dups(R, rk),
        "nullkey": any(None in key_of(r, lk) for r in L) or any(None in key_of(r, rk) for r in R),
        "overlap": bool([c for c in case["ls"] if c in case["rs"] and c not in co]),
        "matchpairs": sum(1 for l in L for r in R if None not in key_of(l, lk) and key_of(l, lk) == key_of(r, rk)),
    }


def check_cases(ctx: Ctx, suite: str, cases: List[Dict[str, Any]], engines: Tuple[str, ...] = ENGINES) -> None:
    """Run every case on every engine, compare with the Lean model of that engine (one driver batch) and evaluate the
    oracle on the real output.  An oracle violation counts as a known finding only if the case lies in the finding's narrow
    input class AND the real output is exactly what the as-is Lean model predicts; anything else is a new violation."""
    reqs: List[Dict[str, Any]] = []
    pend: List[Tuple[str, Dict[str, Any], Dict[str, Any]]] = []
    spec_reqs: List[Dict[str, Any]] = []
    for case in cases:
        f = features(case)
        nontriv = (len(case["L"]) > 0 and len(case["R"]) > 0) and (f["matchpairs"] > 0 or case["t"] in ("APPEND", "UNION"))
        for eng in engines:
            got = run_engine(eng, case)
            ctx.case(suite, {**case, "engine": eng}, nontriv, engine=eng, jointype=case["t"], keycfg=case.get("keycfg", "?"),
                     rows=f"{len(case['L'])}x{len(case['R'])}", dup=f["dup"], nullkey=f["nullkey"], overlap=f["overlap"])  # fmt: skip
            pend.append((eng, case, got))
            reqs.append(model_request(eng, case))
        r = model_request("py", case)
        r["op"] = "C12.spec"
        spec_reqs.append(r)
    outs = ctx.lean.batch(reqs + spec_reqs)
    for (eng, case, got), o in zip(pend, outs[: len(reqs)]):
        # ---- model of the engine vs the engine: exact rows (present entries incl. nulls, names), up to row / column order
        if eng in ("pa", "pd"):
            model = {"err": _arrow_err_kind(o["err"])} if "err" in o else {"rows": exact_bag(lean_rows(o["ok"]))}
        else:
            model = {"rows": exact_bag(lean_rows(o))} if isinstance(o, list) else {"driver": o}
        impl = {"err": got["err"]} if "err" in got else {"rows": exact_bag(got["rows"])}
        agrees = impl == model
        if not agrees:
            ctx.disagree(suite + "/model-" + eng, {**case, "engine": eng}, impl, model)
        # ---- oracle on the real output
        ls_o = observable_schema(eng, case["ls"], case["L"])
        rs_o = observable_schema(eng, case["rs"], case["R"])
        exp = oracle(case["t"], case["lk"], case["rk"], ls_o, rs_o, rows_of(case["ls"], case["L"]), rows_of(case["rs"], case["R"]))
        ov = [c for c in ls_o if c in rs_o and c not in coalesced(case["lk"], case["rk"])] if case["t"] in JOINS4 else []
        what = None
        shown: Any = got
        if "err" in got:
            if not (exp["reject_ok"] and got["err"] == "append-schema"):
                what = f"{eng}: merge raised {got['err']}"
        else:
            schema, bag = tag_rows(eng, ov, got["cols"], got["rows"])
            shown = {"cols": got["cols"], "rows": exact_bag(got["rows"])}
            if bag != exp["rows"]:
                missing = list((exp["rows"] - bag).elements())[:3]
                extra = list((bag - exp["rows"]).elements())[:3]
                what = f"{eng}: rows differ from the relational {case['t']} of the inputs: missing {missing} unexpected {extra}"
            elif eng in ("pd", "pa") and schema != exp["schema"]:
                what = f"{eng}: result columns {sorted(schema)} expected {sorted(exp['schema'])}"
        if what is not None:
            cls = _pick_class(ctx, finding_classes(eng, case)) if agrees else None
            ctx.violation(suite, {**case, "engine": eng}, what, shown, {"rows": sorted(exp["rows"].elements()), "schema": sorted(exp["schema"])}, finding_class=cls)
    # the Lean spec and the Python oracle are two independent writings of the same operators: they must agree
    for case, o in zip(cases, outs[len(reqs) :]):
        exp = oracle(case["t"], case["lk"], case["rk"], case["ls"], case["rs"], rows_of(case["ls"], case["L"]), rows_of(case["rs"], case["R"]))
        ov = [c for c in case["ls"] if c in case["rs"] and c not in coalesced(case["lk"], case["rk"])] if case["t"] in JOINS4 else []
        rows = lean_rows(o) if isinstance(o, list) else []
        _, bag = tag_rows("spec", ov, [], rows)
        if bag != exp["rows"]:
            ctx.disagree(suite + "/spec-vs-oracle", case, sorted(exp["rows"].elements()), sorted(bag.elements()))


def _arrow_err_kind(msg: str) -> str:
    if "union are not yet implemented" in msg:
        return "union-unimplemented"
    if "Schemas of the tables do not match" in msg:
        return "append-schema"
    if "mloda_right_index already exists" in msg:
        return "right-index-exists"
    if "KeyError" in msg or "No match or multiple matches for key field" in msg:
        return "missing-key-column"
    return "error:" + msg


def _pick_class(ctx: Ctx, classes: List[str]) -> Optional[str]:
    known = {f.get("input_class") for f in ctx.findings if f.get("status", "open") == "open"}
    for c in classes:
        if c in known:
            return c
    return classes[0] if classes else None


# ----------------------------------------------------------------------------------------------------------------
# generators


def gen_case(rng: Any, t: Optional[str] = None, max_rows: int = 4) -> Dict[str, Any]:
    t = t or rng.choice(ALL6)
    cfg = rng.choice(list(KEYCFGS))
    lk, rk = KEYCFGS[cfg]
    if t in ("APPEND", "UNION"):
        # mostly the same schema on both sides (so whole-row duplicates exist); sometimes different column sets
        if rng.random() < 0.8:
            lk = rk = KEYCFGS[rng.choice(["1same", "2same"])][0]
            cfg = "1same" if len(lk) == 1 else "2same"
            nk = rng.choice([[], ["a"], ["a", "c"]])
            ls = rs = list(lk) + nk
        else:
            ls = list(lk) + rng.choice([[], ["a"], ["a", "c"]])
            rs = list(rk) + rng.choice([[], ["b"], ["b", "c"], ["c"]])
        kvals, nvals = [1, 2, None], [7, 8, None]
        nkw = [4, 4, 1]
    else:
        ls = list(lk) + rng.choice([[], ["a"], ["a", "c"], ["c"]])
        rs = list(rk) + rng.choice([[], ["b"], ["b", "c"], ["c"]])
        if rng.random() < 0.3:
            rng.shuffle(ls)
            rng.shuffle(rs)
        kvals, nvals = [1, 2, 3, None], [5, 6, 7, 8, 9, None]
        nkw = [3, 3, 3, 3, 3, 2]
    kw = rng.choice([[4, 4, 2, 1], [3, 3, 3, 0], [5, 2, 1, 2]])[: len(kvals)]

    def table(cols: List[str], ks: List[str]) -> List[List[Any]]:
        n = rng.choice([0, 1, 2, 2, 3, 3, 4][: max_rows + 3])
        n = min(n, max_rows)
        return [[rng.choices(kvals, kw)[0] if c in ks else rng.choices(nvals, nkw)[0] for c in cols] for _ in range(n)]

    return {"t": t, "keycfg": cfg, "lk": list(lk), "rk": list(rk), "ls": ls, "rs": rs, "L": table(ls, list(lk)), "R": table(rs, list(rk)), "pdmode": rng.choice(["float", "Int64"])}


def witness_cases() -> List[Dict[str, Any]]:
    """the minimal inputs of the recorded findings (also the closed witnesses proved in Props/C12.lean)"""
    w = []
    for t in JOINS4:
        # duplicate keys on both sides, unique elsewhere
        w.append({"t": t, "keycfg": "1same", "lk": ["k"], "rk": ["k"], "ls": ["k", "a"], "rs": ["k", "b"], "L": [[1, 10], [1, 11]], "R": [[1, 20], [1, 21]]})
        # null key on both sides
        w.append({"t": t, "keycfg": "1same", "lk": ["k"], "rk": ["k"], "ls": ["k", "a"], "rs": ["k", "b"], "L": [[None, 10], [1, 11]], "R": [[None, 20], [2, 21]]})
        # overlapping non-key column
        w.append({"t": t, "keycfg": "1same", "lk": ["k"], "rk": ["k"], "ls": ["k", "c"], "rs": ["k", "c"], "L": [[1, 10], [2, 11]], "R": [[1, 20], [3, 21]]})
        # differently named keys, single and two-column
        w.append({"t": t, "keycfg": "1diff", "lk": ["lk"], "rk": ["rk"], "ls": ["lk", "a"], "rs": ["rk", "b"], "L": [[1, 10], [2, 11]], "R": [[2, 20], [3, 21]]})
        w.append({"t": t, "keycfg": "2part", "lk": ["k", "lk2"], "rk": ["k", "rk2"], "ls": ["k", "lk2", "a"], "rs": ["k", "rk2", "b"], "L": [[1, 1, 10], [2, 1, 11]], "R": [[2, 1, 20], [3, 1, 21]]})  # fmt: skip
    for t in JOINS4:
        # two-column keys whose names come in a different relative order on each side: pairing is positional, rows (1,2)/(2,1) tell a wrong pairing
        w.append({"t": t, "keycfg": "2rev", "lk": ["p", "q"], "rk": ["s", "r"], "ls": ["p", "q", "a"], "rs": ["s", "r", "b"],
                  "L": [[1, 2, 10], [2, 1, 11], [2, 2, 12]], "R": [[1, 2, 20], [2, 1, 21], [3, 3, 22]]})  # fmt: skip
        w.append({"t": t, "keycfg": "2swap", "lk": ["k", "k2"], "rk": ["k2", "k"], "ls": ["k", "k2", "a"], "rs": ["k2", "k", "b"],
                  "L": [[1, 2, 10], [2, 1, 11], [2, 2, 12]], "R": [[1, 2, 20], [2, 1, 21], [3, 3, 22]]})  # fmt: skip
    w.append({"t": "UNION", "keycfg": "1same", "lk": ["k"], "rk": ["k"], "ls": ["k", "a"], "rs": ["k", "a"], "L": [[1, 7], [1, 8]], "R": [[1, 7], [2, 7]]})
    w.append({"t": "APPEND", "keycfg": "1same", "lk": ["k"], "rk": ["k"], "ls": ["k", "a"], "rs": ["k", "a"], "L": [[1, 7], [1, 7]], "R": [[1, 7], [None, 7]]})
    for c in w:
        c["pdmode"] = "float"
    return w


def exhaustive_cases(two_col: bool) -> List[Dict[str, Any]]:
    """all pairs of tables with 0..2 rows, keys over {1,2,null} (second key column over {1,null}), one distinct and one
    overlapping non-key column with position-determined values, four joins x key namings; and for append/union all pairs of
    0..2-row tables over rows (k in {1,2,null}) x (a in {7,8})"""
    out: List[Dict[str, Any]] = []
    cfgs = ["2same", "2diff", "2part", "2rev", "2swap"] if two_col else ["1same", "1diff"]
    keyvals: List[Tuple[Any, ...]] = [(a, b) for a in (1, 2, None) for b in (1, None)] if two_col else [(a,) for a in (1, 2, None)]
    tables = [()] + [(a,) for a in keyvals] + [(a, b) for a in keyvals for b in keyvals]
    for cfg in cfgs:
        lk, rk = KEYCFGS[cfg]
        ls, rs = list(lk) + ["a", "c"], list(rk) + ["b", "c"]
        for tl in tables:
            for tr in tables:
                L = [list(k) + [10 + i, 20 + i] for i, k in enumerate(tl)]
                R = [list(k) + [30 + i, 40 + i] for i, k in enumerate(tr)]
                for t in JOINS4:
                    out.append({"t": t, "keycfg": cfg, "lk": list(lk), "rk": list(rk), "ls": ls, "rs": rs, "L": L, "R": R, "pdmode": "float"})
    if not two_col:
        rowvals = [(k, a) for k in (1, 2, None) for a in (7, 8)]
        tabs = [()] + [(a,) for a in rowvals] + [(a, b) for a in rowvals for b in rowvals]
        for tl in tabs:
            for tr in tabs:
                for t in ("APPEND", "UNION"):
                    out.append({"t": t, "keycfg": "1same", "lk": ["k"], "rk": ["k"], "ls": ["k", "a"], "rs": ["k", "a"], "L": [list(r) for r in tl], "R": [list(r) for r in tr], "pdmode": "float"})  # fmt: skip
    return out


# ----------------------------------------------------------------------------------------------------------------


def check_dispatch(ctx: Ctx) -> None:
    """BaseMergeEngine.merge on a recording subclass, every JoinType member: the intended operator, arguments in order."""
    from harness.extractors.c12 import probe_dispatch
    from mloda.core.abstract_plugins.components.link import JoinType

    intended = {"INNER": "merge_inner", "LEFT": "merge_left", "RIGHT": "merge_right", "OUTER": "merge_full_outer", "APPEND": "merge_append", "UNION": "merge_union"}
    rows, other = probe_dispatch()
    outs = ctx.lean.batch([{"op": "C12.dispatch", "t": n} for n, _, _, _ in rows] + [{"op": "C12.dispatch", "t": "nope"}])
    members = [m.name for m in JoinType]
    for (name, value, method, in_order), o in zip(rows, outs):
        ctx.case("dispatch", [name], True, jointype=name)
        if o.get("method") != method or o.get("inOrder") != in_order:
            ctx.disagree("dispatch", name, [method, in_order], o)
        if intended.get(name) != method or not in_order:
            ctx.violation("dispatch", {"jointype": name}, f"BaseMergeEngine.merge sends JoinType.{name} to {method} (arguments in order: {in_order}); intended {intended.get(name)}",
                          [method, in_order], [intended.get(name), True])  # fmt: skip
    if sorted(members) != sorted(intended):
        ctx.violation("dispatch", {"members": members}, f"JoinType members {members} are not the six documented operators")
    ctx.case("dispatch", ["<non-member>"], False)
    if not other.startswith("raise:") or outs[-1].get("method") != other:
        ctx.violation("dispatch", {"jointype": "<non-member>"}, f"a join type that is not a member is not rejected: {other}")


def run(ctx: Ctx) -> None:
    ctx.extra["rule"] = (
        "case = (join type, key columns, two tables) x engine; real PandasMergeEngine/PyArrowMergeEngine/PythonDictMergeEngine.merge output normalised "
        "to a bag of rows, compared with (a) the nested-loop oracle, (b) the Lean model of that engine (exact rows incl. nulls and names); Lean spec vs oracle on every case; "
        "non-trivial = both tables non-empty and at least one matching key pair (joins) / both non-empty (append, union)"
    )
    check_dispatch(ctx)
    check_cases(ctx, "witness", witness_cases())
    n = ctx.budget(2500, 12000)
    cases = [gen_case(ctx.rng) for _ in range(n)]
    # small scope stream: at most 2 rows, aimed at the null / duplicate corner cases
    cases += [gen_case(ctx.rng, max_rows=2) for _ in range(ctx.budget(800, 3000))]
    for i in range(0, len(cases), 2000):
        check_cases(ctx, "generated", cases[i : i + 2000])
    if not ctx.quick:
        ex = exhaustive_cases(False) + exhaustive_cases(True)
        for i in range(0, len(ex), 4000):
            check_cases(ctx, "exhaustive", ex[i : i + 4000])
        ctx.exhaustive = True
        ctx.note(f"exhaustive small scope: {len(ex)} (join type, keys, table pair) cases x 3 engines")
    else:
        ex = exhaustive_cases(False)
        joins = [c for c in ex if c["t"] in JOINS4]
        au = [c for c in ex if c["t"] not in JOINS4]
        check_cases(ctx, "exhaustive-sample", ctx.rng.sample(joins, min(len(joins), 500)) + ctx.rng.sample(au, min(len(au), 200)))


def search(ctx: Ctx, broken: List[str]) -> None:
    check_dispatch(ctx)
    check_cases(ctx, "witness", witness_cases())
    ex = exhaustive_cases(False)
    for i in range(0, len(ex), 4000):
        check_cases(ctx, "exhaustive", ex[i : i + 4000])
    cases = [gen_case(ctx.rng) for _ in range(ctx.budget(4000, 4000))]
    check_cases(ctx, "generated", cases)


def replay(ctx: Ctx, body: Dict[str, Any]) -> None:
    case = dict(body.get("case") or {})
    if "t" not in case:
        run(ctx)
        return
    eng = case.pop("engine", None)
    check_cases(ctx, body.get("suite", "replay"), [case], (eng,) if eng else ENGINES)
