"""C15 - group options split computations, context never does; identities are consistent.

Suites (every one runs the real mloda code, most also the Lean model through the driver):
  pyeq      Python `==`, `!=`, truthiness, hashability of generated option values            vs  PyVal.pyEq/truthy/hashable
  mh        hashable_dict._make_hashable                                                      vs  PyVal.mh
  ops       seeded operation histories on real Options objects (state + raised/not per call)  vs  Options.step   + oracle
  ident     ==/hash of Feature, Options, HashableDict, Index, JoinSpec, Link, FilterParameterImpl, SingleFilter
                                                                                              vs  *.eq / *.hashVal + oracle
  grouping  ExecutionPlan.group_features_by_compute_framework_and_options on generated sets   vs  OptGroup.groupBy + oracle
  levels    ExecutionPlan._split_features_by_dependency_levels                                vs  OptGroup.splitLevels + oracle
  e2e       mloda.run_all on generated groups: composition of the calculate calls, propagated options      oracle only
The oracles are written from the property text / the docstrings, not from the model.
"""
from __future__ import annotations

import copy
import json
import os
import signal
from enum import Enum
from typing import Any, Dict, List, Optional, Set, Tuple

from harness.core import Ctx, cjson
from harness import fgfactory as F

ASSUMPTIONS = [
    "CPython: hash respects == on None/bool/int/float/str, hash of a tuple is a function of its elements' hashes, hash of a frozenset a symmetric function of them (the abstract H of the theorems)",
    "option dictionaries have str keys (DefaultOptionKeys members are str-mixin enums: same keys); dicts with unorderable keys make Options.__hash__ raise TypeError (exercised on the code, outside the model)",
    "floats are finite dyadic rationals (no NaN/inf); ints unbounded",
    "distinct Options objects do not share their group/context dict objects (Feature('a', d) and Feature('b', d) alias d: not modelled)",
    "Options.group / Options.context are mutated only through the class' methods (direct item assignment can break the invariant and is outside the op alphabet)",
    "next(iter(group)) in the grouping function is modelled as the first inserted member; theorems hold for any choice function",
    "CPython dict keyed by similarity_key(): lookup finds the stored key that is == (equal keys hash equal: C15.similarity_key_eq_hash_coherent); modelled as 'first stored key that is =='",
]

FINDING_FEATHASH = "feature-hash-rewrites-child-in_features-with-Feature-objects"

# --------------------------------------------------------------------------------------------------
# encoding of Python values <-> PyVal JSON


class Unmodellable(Exception):
    pass


class Reg:
    """identity registry for opaque objects (classes, enum members) and for Feature objects used as option values"""

    def __init__(self) -> None:
        self.objs: List[Any] = []
        self.feats: List[Any] = []  # representative Feature per (name, rest) class
        self.feat_cls: List[Any] = []

    def obj(self, o: Any) -> int:
        for i, x in enumerate(self.objs):
            if x is o:
                return i
        self.objs.append(o)
        return len(self.objs) - 1

    def feat_rest(self, f: Any) -> int:
        # equivalence class of "everything but the name": decided with the real Feature.__eq__ on a renamed copy
        from mloda.core.abstract_plugins.components.feature_name import FeatureName

        g = copy.copy(f)
        g.name = FeatureName("_")
        for i, x in enumerate(self.feat_cls):
            if x == g:
                return i
        self.feat_cls.append(g)
        return len(self.feat_cls) - 1


def kstr(k: Any) -> str:
    if isinstance(k, Enum) and isinstance(k, str):
        return str(k.value)
    if isinstance(k, str):
        return k
    raise Unmodellable(f"non-str dict key {k!r}")


def enc(v: Any, reg: Reg) -> Dict[str, Any]:
    from mloda.core.abstract_plugins.components.feature import Feature

    if v is None:
        return {"t": "none"}
    if isinstance(v, bool):
        return {"t": "bool", "v": v}
    if isinstance(v, int) and not isinstance(v, Enum):
        return {"t": "int", "v": str(v)}
    if isinstance(v, float):
        if v != v or v in (float("inf"), float("-inf")):
            raise Unmodellable("nan/inf")
        n, d = v.as_integer_ratio()
        return {"t": "float", "m": str(n), "e": d.bit_length() - 1}
    if isinstance(v, str):
        return {"t": "str", "v": kstr(v)}
    if isinstance(v, Feature):
        return {"t": "feat", "name": v.name.name, "rest": reg.feat_rest(v)}
    if isinstance(v, tuple):
        return {"t": "tuple", "v": [enc(x, reg) for x in v]}
    if isinstance(v, list):
        return {"t": "list", "v": [enc(x, reg) for x in v]}
    if isinstance(v, frozenset):
        return {"t": "frozenset", "v": [enc(x, reg) for x in v]}
    if isinstance(v, set):
        return {"t": "set", "v": [enc(x, reg) for x in v]}
    if isinstance(v, dict):
        return {"t": "dict", "v": [[kstr(k), enc(x, reg)] for k, x in v.items()]}
    return {"t": "obj", "v": reg.obj(v)}


def enc_dict(d: Dict[Any, Any], reg: Reg) -> List[Any]:
    return [[kstr(k), enc(x, reg)] for k, x in d.items()]


def dec(j: Dict[str, Any], reg: Reg) -> Any:
    t = j["t"]
    if t == "none":
        return None
    if t == "bool":
        return bool(j["v"])
    if t == "int":
        return int(j["v"])
    if t == "float":
        return int(j["m"]) / (2 ** int(j["e"]))
    if t == "str":
        return j["v"]
    if t == "obj":
        return reg.objs[j["v"]]
    if t == "feat":
        raise Unmodellable("feat in decoded value")
    if t == "tuple":
        return tuple(dec(x, reg) for x in j["v"])
    if t == "list":
        return [dec(x, reg) for x in j["v"]]
    if t == "set":
        return set(dec(x, reg) for x in j["v"])
    if t == "frozenset":
        return frozenset(dec(x, reg) for x in j["v"])
    if t == "dict":
        return {k: dec(x, reg) for k, x in j["v"]}
    raise ValueError(t)


def canon(j: Any) -> Any:
    """order-normalise what came out of a set"""
    if isinstance(j, dict) and "t" in j:
        if j["t"] in ("set", "frozenset"):
            return {"t": j["t"], "v": sorted((canon(x) for x in j["v"]), key=cjson)}
        if j["t"] in ("tuple", "list"):
            return {"t": j["t"], "v": [canon(x) for x in j["v"]]}
        if j["t"] == "dict":
            return {"t": "dict", "v": [[k, canon(x)] for k, x in j["v"]]}
    return j


def canon_items(items: List[Any]) -> List[Any]:
    return [[k, canon(x)] for k, x in items]


# --------------------------------------------------------------------------------------------------
# generators


def K() -> Any:
    from mloda_plugins.feature_group.experimental.default_options_key import DefaultOptionKeys

    return DefaultOptionKeys


KEY_POOL = ["a", "b", "c", "k1", "x", "s"]


def gen_key(rng: Any, special: float = 0.2) -> Any:
    if rng.random() < special:
        k = rng.choice([K().in_features, "in_features", K().feature_chainer_parser_key, K().reference_time, "group"])
        return k
    return rng.choice(KEY_POOL)


def gen_leaf(rng: Any) -> Any:
    r = rng.random()
    if r < 0.08:
        return None
    if r < 0.18:
        return rng.choice([True, False])
    if r < 0.55:
        return rng.choice([-3, -2, -1, 0, 1, 2, 3, 7, 2**61 - 1, 2**61, -(2**63), 10**20])
    if r < 0.72:
        return rng.choice([0.0, 1.0, -1.0, 2.0, 0.5, 1.5, -2.0, 0.25, 3.0])
    return rng.choice(["", "a", "b", "ab", "é", "in_features", "k1", "a,b"])


def gen_hashable(rng: Any, depth: int) -> Any:
    r = rng.random()
    if depth <= 0 or r < 0.6:
        return gen_leaf(rng)
    if r < 0.85:
        return tuple(gen_hashable(rng, depth - 1) for _ in range(rng.randint(0, 3)))
    return frozenset(gen_hashable(rng, depth - 1) for _ in range(rng.randint(0, 3)))


def gen_val(rng: Any, depth: int = 2) -> Any:
    r = rng.random()
    if depth <= 0 or r < 0.45:
        return gen_leaf(rng)
    if r < 0.57:
        return [gen_val(rng, depth - 1) for _ in range(rng.randint(0, 3))]
    if r < 0.67:
        return tuple(gen_val(rng, depth - 1) for _ in range(rng.randint(0, 3)))
    if r < 0.76:
        return set(gen_hashable(rng, depth - 1) for _ in range(rng.randint(0, 3)))
    if r < 0.84:
        return frozenset(gen_hashable(rng, depth - 1) for _ in range(rng.randint(0, 3)))
    return gen_dict(rng, depth - 1, rng.randint(0, 3), special=0.05)


def gen_dict(rng: Any, depth: int, n: int, special: float = 0.2) -> Dict[Any, Any]:
    d: Dict[Any, Any] = {}
    for _ in range(n):
        d[gen_key(rng, special)] = gen_val(rng, depth)
    return d


def morph(rng: Any, v: Any, h: bool = False) -> Any:
    """a value that Python considers == to v but built differently (h: must stay hashable)"""
    if isinstance(v, bool):
        return rng.choice([v, int(v), float(v)])
    if isinstance(v, int):
        if v in (0, 1) and rng.random() < 0.4:
            return bool(v)
        if abs(v) < 2**50 and rng.random() < 0.4:
            return float(v)
        return v
    if isinstance(v, float):
        if v == int(v) and rng.random() < 0.5:
            return int(v)
        return v
    if isinstance(v, tuple):
        return tuple(morph(rng, x, h) for x in v)
    if isinstance(v, list):
        return [morph(rng, x) for x in v]
    if isinstance(v, (set, frozenset)):
        items = [morph(rng, x, True) for x in v]
        rng.shuffle(items)
        return (frozenset if (h or rng.random() < 0.5) else set)(items)
    if isinstance(v, dict):
        items2 = [(k, morph(rng, x)) for k, x in v.items()]
        rng.shuffle(items2)
        out = {}
        for k, x in items2:
            if isinstance(k, Enum) and rng.random() < 0.5:
                k = k.value
            elif k == "in_features" and rng.random() < 0.5:
                k = K().in_features
            out[k] = x
        return out
    return v


def perturb(rng: Any, v: Any) -> Any:
    """a near miss of v (usually != v)"""
    if isinstance(v, list) and rng.random() < 0.5:
        return tuple(v)
    if isinstance(v, tuple) and rng.random() < 0.5:
        return list(v)
    if isinstance(v, (list, tuple)) and v:
        i = rng.randrange(len(v))
        w = list(v)
        w[i] = perturb(rng, w[i])
        return type(v)(w)
    if isinstance(v, dict) and v:
        w2 = dict(v)
        k = rng.choice(list(w2.keys()))
        if rng.random() < 0.3:
            del w2[k]
        else:
            w2[k] = perturb(rng, w2[k])
        return w2
    if isinstance(v, (set, frozenset)):
        return type(v)(list(v) + [gen_leaf(rng)])
    if isinstance(v, bool):
        return not v
    if isinstance(v, int):
        return rng.choice([v + 1, -v - 1, v + (2**61 - 1), -2 if v == -1 else -1])
    if isinstance(v, float):
        return v + 0.5
    if isinstance(v, str):
        return v + "x"
    return gen_leaf(rng)


def err_tag(e: BaseException) -> str:
    s = str(e)
    if isinstance(e, ValueError):
        for sub, tag in [
            ("Keys cannot exist in both", "dupKeys"),
            ("not found in context", "propMissing"),
            ("already exists in group options with a different value", "groupDiff"),
            ("already exists in context options. Cannot add to group", "inContext"),
            ("already exists in context options with a different value", "ctxDiff"),
            ("already exists in group options. Cannot add to context", "inGroup"),
            ("Cannot update group: keys already exist in context", "groupCtxConflict"),
            ("Cannot propagate context: keys already exist in group", "ctxGroupConflict"),
            ("Duplicate key", "mergeConflict"),
        ]:
            if sub in s:
                return tag
        if "Context key" in s and "conflict" in s:
            return "ctxConflict"
    if isinstance(e, TypeError):
        if "not iterable" in s:
            return "notIterable"
        if "unhashable" in s:
            return "unhashable"
    return f"other:{type(e).__name__}:{s[:80]}"


def state_of(o: Any, reg: Reg) -> Dict[str, Any]:
    return {"group": enc_dict(o.group, reg), "context": enc_dict(o.context, reg), "propagate": sorted(kstr(k) for k in o.propagate_context_keys)}


def canon_state(s: Dict[str, Any]) -> Dict[str, Any]:
    return {"group": canon_items(s["group"]), "context": canon_items(s["context"]), "propagate": sorted(s["propagate"])}


def gen_options(rng: Any, reg: Reg, want_valid: bool = True, propagate_p: float = 0.4) -> Tuple[Any, Dict[str, Any]]:
    """a real Options object and its JSON (built through the real constructor)"""
    from mloda.core.abstract_plugins.components.options import Options

    for _ in range(50):
        g = gen_dict(rng, 1, rng.randint(0, 3))
        c = gen_dict(rng, 1, rng.randint(0, 3))
        if rng.random() < 0.15:
            g[K().feature_chainer_parser_key] = gen_chainer_value(rng)
        if want_valid:
            for k in list(c.keys()):
                if k in g:
                    del c[k]
        p = frozenset(k for k in c.keys() if rng.random() < propagate_p) if rng.random() < 0.6 else frozenset()
        try:
            o = Options(group=g, context=c, propagate_context_keys=p)
            return o, state_of(o, reg)
        except ValueError:
            continue
    o = Options()
    return o, state_of(o, reg)


def gen_chainer_value(rng: Any) -> Any:
    r = rng.random()
    if r < 0.5:
        return rng.choice([list, tuple, frozenset, set])(rng.sample(KEY_POOL, rng.randint(0, 3)))
    if r < 0.65:
        return rng.choice(["a", "ab", "k1", ""])
    if r < 0.75:
        return {rng.choice(KEY_POOL): 1}
    if r < 0.85:
        return rng.choice([0, None, False, [], ()])
    if r < 0.93:
        return rng.choice([1, 2.5, True])
    return [["a"], "b"]


# --------------------------------------------------------------------------------------------------
# suites 1+2: pyEq / make_hashable


def suite_values(ctx: Ctx) -> None:
    from mloda.core.abstract_plugins.components.hashable_dict import _make_hashable

    rng = ctx.rng
    n = ctx.budget(3000, 60000)
    reg = Reg()
    reqs, impls, cases = [], [], []
    for i in range(n):
        v = gen_val(rng, 3)
        r = rng.random()
        if r < 0.45:
            w = morph(rng, copy.deepcopy(v))
            kind = "morph"
        elif r < 0.8:
            w = perturb(rng, copy.deepcopy(v))
            kind = "perturb"
        else:
            w = gen_val(rng, 3)
            kind = "random"
        try:
            ja, jb = enc(v, reg), enc(w, reg)
        except Unmodellable:
            continue
        eq = v == w
        ne = v != w
        try:
            hash(v)
            hv = True
        except TypeError:
            hv = False
        impl = {"eq": bool(eq), "ne": bool(ne), "truthyA": bool(v), "hashableA": hv}
        reqs.append({"op": "C15.pyEq", "a": ja, "b": jb})
        impls.append(impl)
        cases.append((v, w, kind))
        ctx.case("pyeq", [canon(ja), canon(jb)], bool(eq), pair_kind=kind, eq=bool(eq))
        if (w == v) != eq:
            ctx.violation("pyeq", [ja, jb], "== is not symmetric on option values", [eq, w == v], "symmetric")
    outs = ctx.lean.batch(reqs)
    for r_, i_, o in zip(reqs, impls, outs):
        m = {k: o.get(k) for k in ("eq", "ne", "truthyA", "hashableA")}
        if m != i_:
            ctx.disagree("pyeq", r_, i_, m)
        if not (o.get("wfA") and o.get("wfB")):
            ctx.disagree("pyeq", r_, "value built by Python", "model says not well-formed")

    # make_hashable
    reqs, impls = [], []
    pairs = []
    for (v, w, kind) in cases[: ctx.budget(2500, 50000)]:
        try:
            mv = _make_hashable(v)
            jm = enc(mv, reg)
            hashed: Any = hash(mv)
        except TypeError as e:
            jm, hashed = None, "raise:" + err_tag(e)
        reqs.append({"op": "C15.mh", "v": enc(v, reg)})
        impls.append((jm, hashed))
        pairs.append((v, w, kind))
        nontriv = isinstance(v, (dict, list, set, tuple))
        ctx.case("mh", canon(enc(v, reg)), nontriv, mh_top=type(v).__name__)
        # oracle: equal values have equal hashes after make_hashable (the Options/HashableDict coherence at value level)
        if v == w:
            try:
                h1, h2 = hash(_make_hashable(v)), hash(_make_hashable(w))
                if h1 != h2:
                    ctx.violation("mh", [enc(v, reg), enc(w, reg)], "v == w but hash(_make_hashable(v)) != hash(_make_hashable(w))", [h1, h2], "equal")
            except TypeError:
                pass
    outs = ctx.lean.batch(reqs)
    for r_, (jm, hashed), o in zip(reqs, impls, outs):
        if jm is None:
            ctx.disagree("mh", r_, hashed, o)
            continue
        if canon(jm) != canon(o["mh"]):
            ctx.disagree("mh", r_, canon(jm), canon(o["mh"]))
        if not o.get("hashable"):
            ctx.disagree("mh", r_, "hash(_make_hashable(v)) succeeded", "model: not hashable")

    # the guard: unorderable dict keys make the hash raise (outside the model, exercised on the code)
    from mloda.core.abstract_plugins.components.options import Options

    for bad in [{"a": {1: 2, "x": 3}}, {1: 1, "x": 2}, {"a": [{1: 0, "b": 0}]}]:
        try:
            hash(Options(copy.deepcopy(bad)))  # type: ignore[arg-type]
            got = "ok"
        except TypeError:
            got = "TypeError"
        ctx.case("mh_guard", repr(bad), True)
        if got != "TypeError":
            ctx.note(f"guard: hash(Options({bad!r})) no longer raises TypeError ({got})")


# --------------------------------------------------------------------------------------------------
# suite 3: operation histories on Options


def doc_protected(parent_get: Any) -> Optional[Set[str]]:
    """documented protected keys: in_features + the keys listed under feature_chainer_parser_key (a collection of str);
    None when the listing is not such a collection (undocumented territory)"""
    v = parent_get
    prot = {"in_features"}
    if v is None or (isinstance(v, (list, tuple, set, frozenset)) and len(v) == 0) or v is False or v == 0 and not isinstance(v, (list, tuple, set, frozenset, dict, str)):
        return prot
    if isinstance(v, (list, tuple, set, frozenset)) and all(isinstance(x, str) for x in v):
        return prot | {kstr(x) for x in v}
    return None


def sdict(d: Dict[Any, Any]) -> Dict[str, Any]:
    return {kstr(k): v for k, v in d.items()}


def oracle_update(ctx: Ctx, case: Any, kind: str, p0g: Dict[str, Any], p0c: Dict[str, Any], cg: Dict[str, Any], cc: Dict[str, Any], cprop: Set[str],
                  prot: Set[str], p1g: Dict[str, Any], p1c: Dict[str, Any], err: Optional[str]) -> None:  # fmt: skip
    def viol(what: str) -> None:
        ctx.violation("ops", case, f"{kind}: {what}", {"group": repr(p1g), "context": repr(p1c), "err": err}, "documented protected-key / conflict rules")

    # R1 protected keys of the parent are never overwritten, never added from the child
    for k in prot:
        if (k in p0g) != (k in p1g) or (k in p0g and not (p0g[k] == p1g[k])):
            viol(f"protected key {k!r} changed in group")
        if (k in p0c) != (k in p1c) or (k in p0c and not (p0c[k] == p1c[k])):
            viol(f"protected key {k!r} changed in context")
    # R5 nothing the parent had is lost
    for k in p0g:
        if k not in p1g:
            viol(f"parent group key {k!r} lost")
    for k in p0c:
        if k not in p1c or not (p0c[k] == p1c[k]):
            viol(f"parent context key {k!r} lost or changed")
    prop_keys = {k for k in cc if k in cprop and k not in prot}
    if err is None:
        # R3 non-protected group options of the dependent feature flow to the input
        for k, v in cg.items():
            if k not in prot and (k not in p1g or not (p1g[k] == v)):
                viol(f"non-protected group key {k!r} of the child not merged")
        # R4 context stays local except propagate_context_keys
        for k in p1c:
            if k not in p0c and k not in prop_keys:
                viol(f"context key {k!r} appeared without being propagated")
        for k in prop_keys:
            if k not in p1c or not (p1c[k] == cc[k]):
                viol(f"propagate_context_keys entry {k!r} not propagated")
        for k in p1g:
            if k not in p0g and not (k in cg and k not in prot):
                viol(f"group key {k!r} appeared from nowhere")
    # documented raising conditions
    must = False
    if kind == "merge":
        for k, v in list(cg.items()) + list(cc.items()):
            if k in prot:
                continue
            if k in p0g and not (p0g[k] == v):
                must = True
            if k in p0c and not (p0c[k] == v):
                must = True
    cross = any(k not in prot and k in p0c for k in cg) or any(k in p0g or (k in cg and k not in prot) for k in prop_keys)
    ctxconf = any(k in p0c and not (p0c[k] == cc[k]) for k in prop_keys)
    if (must or cross or ctxconf) and err is None:
        viol("a conflicting non-protected key did not raise")
    if not (must or cross or ctxconf) and err is not None:
        viol(f"raised {err} although no non-protected key conflicts")


def suite_ops(ctx: Ctx) -> None:
    from mloda.core.abstract_plugins.components.options import Options
    from mloda.core.abstract_plugins.components.feature_collection import Features

    rng = ctx.rng
    n = ctx.budget(2000, 40000)
    reqs: List[Dict[str, Any]] = []
    impls: List[Dict[str, Any]] = []
    for _ in range(n):
        reg = Reg()
        g = gen_dict(rng, 1, rng.randint(0, 3))
        c = gen_dict(rng, 1, rng.randint(0, 3))
        if rng.random() < 0.7:
            for k in list(c.keys()):
                if k in g:
                    del c[k]
        if rng.random() < 0.2:
            g[K().feature_chainer_parser_key] = gen_chainer_value(rng)
        p = [kstr(k) for k in c.keys() if rng.random() < 0.4]
        if rng.random() < 0.1:
            p.append(rng.choice(KEY_POOL))
        p = sorted(set(p))
        try:
            req: Dict[str, Any] = {"op": "C15.optRun", "group": enc_dict(g, reg), "context": enc_dict(c, reg), "propagate": p, "ops": []}
        except Unmodellable:
            continue
        try:
            o = Options(group=copy.deepcopy(g), context=copy.deepcopy(c), propagate_context_keys=frozenset(p))
            impl: Dict[str, Any] = {"init": None, "state": state_of(o, reg), "steps": []}
        except ValueError as e:
            impl = {"init": err_tag(e)}
            o = None
        rejected = impl["init"] is not None
        if o is not None:
            if set(map(kstr, o.group)) & set(map(kstr, o.context)):
                ctx.violation("ops", req, "constructor accepted a key in both group and context", state_of(o, reg), "ValueError")
            for _i in range(rng.randint(1, 8)):
                r = rng.random()
                opj: Dict[str, Any]
                err: Optional[str] = None
                before_g, before_c = sdict(copy.deepcopy(o.group)), sdict(copy.deepcopy(o.context))
                if r < 0.5:
                    kind = rng.choice(["add", "addToGroup", "addToContext", "set", "addToGroup", "addToContext"])
                    k = gen_key(rng) if rng.random() < 0.4 or not (o.group or o.context) else rng.choice(list(o.group.keys()) + list(o.context.keys()))
                    if k == K().feature_chainer_parser_key or k == "feature_chainer_parser_key":
                        v = gen_chainer_value(rng)
                    elif rng.random() < 0.35 and o.get(k) is not None:
                        v = morph(rng, copy.deepcopy(o.get(k)))
                    else:
                        v = gen_val(rng, 1)
                    opj = {"op": kind, "k": kstr(k), "v": enc(v, reg)}
                    try:
                        {"add": o.add, "addToGroup": o.add_to_group, "addToContext": o.add_to_context, "set": o.set}[kind](k, copy.deepcopy(v))
                    except (ValueError, TypeError) as e:
                        err = err_tag(e)
                    # oracle: documented behaviour of the adders
                    if kind != "set":
                        to_group = kind in ("add", "addToGroup")
                        mine, other_ = (before_g, before_c) if to_group else (before_c, before_g)
                        ks = kstr(k)
                        should = (ks in other_) or (ks in mine and not (mine[ks] == v))
                        if should != (err is not None):
                            ctx.violation("ops", {**req, "ops": req["ops"] + [opj]}, f"{kind}({ks!r}) raised={err} but documented checks say raise={should}", err, should)
                elif r < 0.62:
                    k = gen_key(rng) if rng.random() < 0.5 or not (o.group or o.context) else rng.choice(list(o.group.keys()) + list(o.context.keys()))
                    q = rng.choice(["get", "contains", "keys", "items"])
                    opj = {"op": q, "k": kstr(k)}
                    if q == "get":
                        ans: Any = enc(o.get(k), reg)
                    elif q == "contains":
                        ans = k in o
                    elif q == "keys":
                        ans = [kstr(x) for x in o.keys()]
                    else:
                        ans = [[kstr(a), enc(b, reg)] for a, b in o.items()]
                    req["ops"].append(opj)
                    impl["steps"].append({"ans": ans})
                    continue
                else:
                    other, oj = gen_options(rng, reg)
                    if rng.random() < 0.5 and (o.group or o.context):
                        # aim at the conflict / protected branches: reuse some of self's keys in other
                        for k in rng.sample(list(o.group.keys()) + list(o.context.keys()), rng.randint(1, min(2, len(o.group) + len(o.context)))):
                            val = copy.deepcopy(o.get(k)) if rng.random() < 0.5 else gen_val(rng, 1)
                            tgt = rng.choice(["group", "context"])
                            try:
                                if tgt == "group":
                                    other.add_to_group(k, val)
                                else:
                                    other.add_to_context(k, val)
                                    if rng.random() < 0.6:
                                        other.propagate_context_keys = frozenset(set(other.propagate_context_keys) | {k})
                            except ValueError:
                                pass
                        oj = state_of(other, reg)
                    if r < 0.8:
                        kind = "merge"
                        opj = {"op": "merge", "other": oj}
                        prot_doc = doc_protected(o.get(K().feature_chainer_parser_key))
                        try:
                            Features.merge_options(None, o, other)  # type: ignore[arg-type]
                        except (ValueError, TypeError) as e:
                            err = err_tag(e)
                    else:
                        kind = "update"
                        explicit = None if rng.random() < 0.5 else sorted(set(rng.sample(KEY_POOL + ["in_features"], rng.randint(0, 3))))
                        opj = {"op": "update", "other": oj, "protected": explicit}
                        prot_doc = set(explicit) if explicit is not None else doc_protected(o.get(K().feature_chainer_parser_key))
                        try:
                            o.update_with_protected_keys(other, set(explicit) if explicit is not None else None)
                        except (ValueError, TypeError) as e:
                            err = err_tag(e)
                    if prot_doc is not None and (err is None or not err.startswith("other")) and err not in ("notIterable", "unhashable"):
                        oracle_update(ctx, {**req, "ops": req["ops"] + [opj]}, kind, before_g, before_c, sdict(other.group), sdict(other.context),
                                      {kstr(x) for x in other.propagate_context_keys}, prot_doc, sdict(o.group), sdict(o.context), err)  # fmt: skip
                req["ops"].append(opj)
                impl["steps"].append({"err": err, "state": state_of(o, reg)})
                rejected = rejected or err is not None
                # oracle (property text): a key is never present in both group and context - after every call, raised or not
                both = set(map(kstr, o.group)) & set(map(kstr, o.context))
                if both:
                    ctx.violation("ops", req, f"key(s) {sorted(both)} present in both group and context after {opj['op']}", state_of(o, reg), "disjoint")
        reqs.append(req)
        impls.append(impl)
        ctx.case("ops", req, rejected, ops_len=len(req["ops"]), init=impl["init"] or "ok")
        for st in impl.get("steps", []):
            if "err" in st:
                ctx.tag("op_outcome", st["err"] or "ok")
    outs = ctx.lean.batch(reqs)
    for r_, i_, o_ in zip(reqs, impls, outs):
        if i_["init"] is not None:
            if o_.get("init") != i_["init"]:
                ctx.disagree("ops", r_, i_, o_)
            continue
        ok = o_.get("init") is None and canon_state(o_["state"]) == canon_state(i_["state"]) and len(o_["steps"]) == len(i_["steps"])
        if ok:
            for a, b in zip(i_["steps"], o_["steps"]):
                if "ans" in a:
                    ja, jb = a["ans"], b.get("ans")
                    if isinstance(ja, dict):
                        ok = ok and canon(ja) == canon(jb)
                    elif isinstance(ja, list) and ja and isinstance(ja[0], list):
                        ok = ok and canon_items(ja) == canon_items(jb)
                    else:
                        ok = ok and ja == jb
                else:
                    ok = ok and a["err"] == b.get("err") and canon_state(a["state"]) == canon_state(b["state"])
        if not ok:
            ctx.disagree("ops", r_, i_, o_)


# --------------------------------------------------------------------------------------------------
# suite 4: identities


class IdGen:
    """builds pairs of real objects + their model JSON"""

    def __init__(self, ctx: Ctx) -> None:
        from mloda.core.abstract_plugins.components.data_types import DataType
        from mloda.core.abstract_plugins.components.link import JoinType

        self.ctx = ctx
        self.rng = ctx.rng
        self.reg = Reg()
        self.dtypes = [DataType.INT32, DataType.INT64, DataType.STRING, DataType.DOUBLE]
        self.jointypes = list(JoinType)
        self.fws = [F.PyArrowTable, F.PandasDataFrame, F.PythonDictFramework]
        self.classes = [F.make_group(F.uniq("C15cls_"), root_data={"q": [1]}) for _ in range(3)]
        # a second class object with the *same* __name__ as classes[0] (Link compares class names)
        twin = type(self.classes[0].__name__, (self.classes[0].__bases__[0],), {"__module__": "verif_dyn_twin"})
        self.classes.append(twin)
        self.value_feats: List[Any] = []

    # ---- option dictionaries with Feature-valued in_features now and then
    def vfeat(self) -> Any:
        from mloda.core.abstract_plugins.components.feature import Feature

        name = self.rng.choice(["x", "y", "f1", "f3", "p", "q"])
        opts = self.rng.choice([{}, {}, {"v": 1}])
        return Feature(name, dict(opts))

    def in_features_value(self) -> Any:
        r = self.rng.random()
        if r < 0.3:
            return self.vfeat()
        if r < 0.75:
            return frozenset(self.vfeat() for _ in range(self.rng.randint(1, 3)))
        if r < 0.85:
            return self.rng.choice(["x", "x,y", frozenset(["x", "y"])])
        return self.rng.choice([None, "", frozenset()])

    def options(self, feature_values: float = 0.0) -> Any:
        from mloda.core.abstract_plugins.components.options import Options

        rng = self.rng
        g = gen_dict(rng, 2, rng.randint(0, 3), special=0.05)
        c = {k: v for k, v in gen_dict(rng, 1, rng.randint(0, 2), special=0.05).items() if k not in g}
        if rng.random() < feature_values:
            tgt = g if rng.random() < 0.5 else c
            for d in (g, c):
                d.pop("in_features", None)
                d.pop(K().in_features, None)
            tgt[K().in_features] = self.in_features_value()
        for d in (g, c):
            for k in ("domain", "compute_framework"):
                d.pop(k, None)
        return Options(group=g, context=c)

    def options_variant(self, o: Any, same_group: bool) -> Any:
        """another Options object: == group (morphed) with a different context, or a perturbed group"""
        from mloda.core.abstract_plugins.components.options import Options

        rng = self.rng
        g = morph(rng, copy.deepcopy(o.group)) if same_group else perturb(rng, copy.deepcopy(o.group))
        if not isinstance(g, dict):
            g = {}
        r = rng.random()
        if r < 0.4:
            c = copy.deepcopy(o.context)
        elif r < 0.7:
            c = morph(rng, copy.deepcopy(o.context))
        else:
            c = gen_dict(rng, 1, rng.randint(0, 2), special=0.0)
            if K().in_features in o.context or "in_features" in o.context:
                c[K().in_features] = self.in_features_value()
        c = {k: v for k, v in c.items() if k not in g}
        try:
            return Options(group=g, context=c)
        except ValueError:
            return Options(group=g)

    def j_options(self, o: Optional[Any]) -> Any:
        if o is None:
            return None
        return state_of(o, self.reg)

    def feature(self) -> Tuple[Any, Dict[str, Any]]:
        from mloda.core.abstract_plugins.components.feature import Feature

        rng = self.rng
        f = Feature(
            rng.choice(["a", "b", "a__x"]),
            options=self.options(0.1),
            domain=rng.choice([None, None, "d1", "d2"]),
            data_type=rng.choice([None, None] + self.dtypes),
        )
        if rng.random() < 0.5:
            f.compute_frameworks = set(rng.sample(self.fws, rng.randint(1, 2)))
        if rng.random() < 0.5:
            f.child_options = self.options(0.6)
        return f, {}

    def j_feature(self, f: Any) -> Dict[str, Any]:
        return {
            "name": f.name.name,
            "options": self.j_options(f.options),
            "domain": f.domain.name if f.domain is not None else None,
            "cfw": None if f.compute_frameworks is None else [self.reg.obj(c) for c in f.compute_frameworks],
            "dtype": None if f.data_type is None else self.reg.obj(f.data_type),
            "child": self.j_options(copy.deepcopy(f.child_options)),
        }

    def feature_variant(self, f: Any) -> Any:
        """a second Feature: a copy in which fields that __eq__ ignores are changed, or exactly one relevant field"""
        from mloda.core.abstract_plugins.components.feature import Feature
        from mloda.core.abstract_plugins.components.index.index import Index
        from mloda.core.abstract_plugins.components.domain import Domain
        from mloda.core.abstract_plugins.components.feature_name import FeatureName

        rng = self.rng
        g = Feature(f.name.name, options=self.options_variant(f.options, True) if rng.random() < 0.3 else copy.deepcopy(f.options),
                    data_type=f.data_type, initial_requested_data=rng.random() < 0.5, index=Index(("i",)) if rng.random() < 0.3 else None)  # fmt: skip
        g.domain = copy.deepcopy(f.domain)
        g.compute_frameworks = None if f.compute_frameworks is None else set(list(f.compute_frameworks)[::-1])
        if f.child_options is None:
            g.child_options = None
        else:
            g.child_options = self.options_variant(f.child_options, True)
        r = rng.random()
        if r < 0.45:
            return g
        which = rng.choice(["name", "group", "context", "domain", "cfw", "dtype", "child"])
        if which == "name":
            g.name = FeatureName(f.name.name + "z")
        elif which == "group":
            g.options = self.options_variant(f.options, False)
        elif which == "context":
            g.options.context = perturb(rng, copy.deepcopy(g.options.context)) if g.options.context else {"zz": 1}
            if not isinstance(g.options.context, dict):
                g.options.context = {"zz": 1}
            for k in list(g.options.context.keys()):
                if k in g.options.group:
                    del g.options.context[k]
        elif which == "domain":
            g.domain = rng.choice([None, Domain("d1"), Domain("d3")])
        elif which == "cfw":
            g.compute_frameworks = rng.choice([None, {self.fws[0]}, {self.fws[1], self.fws[2]}])
        elif which == "dtype":
            g.data_type = rng.choice([None] + self.dtypes)
        else:
            g.child_options = rng.choice([None, self.options(0.5), self.options_variant(f.child_options, False) if f.child_options is not None else self.options(0.5)])
        return g

    def index(self) -> Any:
        from mloda.core.abstract_plugins.components.index.index import Index

        return Index(tuple(self.rng.choice(["id", "k", "date", "a"]) for _ in range(self.rng.randint(1, 3))))

    def link(self) -> Any:
        from mloda.core.abstract_plugins.components.link import Link, JoinSpec

        rng = self.rng
        return Link(rng.choice(self.jointypes), JoinSpec(rng.choice(self.classes), self.index()), JoinSpec(rng.choice(self.classes), self.index()),
                    self_left_alias=rng.choice([None, {"side": "l"}]), self_right_alias=rng.choice([None, {"side": "r"}]))  # fmt: skip

    def j_link(self, l: Any) -> Dict[str, Any]:
        return {"jointype": self.reg.obj(l.jointype), "left": l.left_feature_group.get_class_name(), "right": l.right_feature_group.get_class_name(),
                "leftIndex": enc(l.left_index.index, self.reg), "rightIndex": enc(l.right_index.index, self.reg)}  # fmt: skip

    def link_variant(self, l: Any) -> Any:
        from mloda.core.abstract_plugins.components.link import Link, JoinSpec
        from mloda.core.abstract_plugins.components.index.index import Index

        rng = self.rng
        lfg, rfg = l.left_feature_group, l.right_feature_group
        if rng.random() < 0.3:  # the twin class has the same name
            lfg = self.classes[3] if lfg is self.classes[0] else lfg
        jt, li, ri = l.jointype, Index(tuple(l.left_index.index)), Index(tuple(l.right_index.index))
        r = rng.random()
        if r < 0.5:
            pass
        elif r < 0.65:
            jt = rng.choice(self.jointypes)
        elif r < 0.8:
            li = self.index()
        elif r < 0.9:
            rfg = rng.choice(self.classes)
        else:
            ri = self.index()
        return Link(jt, JoinSpec(lfg, li), JoinSpec(rfg, ri), self_left_alias=rng.choice([None, {"side": "x"}]))

    def param(self) -> Dict[str, Any]:
        rng = self.rng
        r = rng.random()
        if r < 0.3:
            return {"value": gen_leaf(rng)}
        if r < 0.55:
            return {"min": rng.choice([0, 1, 1.0, True]), "max": rng.choice([5, 5.0, 6]), "max_exclusive": rng.choice([True, False, 1])}
        if r < 0.8:
            return {"values": rng.choice([(1, 2), [1, 2], (1.0, 2), ("a",), frozenset([1, 2]), {1, 2}])}
        return gen_dict(rng, 1, rng.randint(1, 3), special=0.0)


def h_or_raise(x: Any) -> Any:
    try:
        return hash(x)
    except TypeError as e:
        return "raise:" + ("unhashable" if "unhashable" in str(e) else str(e)[:60])


def eq_or_raise(a: Any, b: Any) -> Any:
    try:
        return bool(a == b)
    except Exception as e:
        return "raise"


def feathash_class(a: Any, b: Any) -> Optional[str]:
    """narrow class of the known Feature.__hash__ defect: the two features are ==, and the in_features entry that
    Feature.__hash__ reads from child_options holds Feature objects (it rewrites a copy of child_options.group from them)"""
    from mloda.core.abstract_plugins.components.feature import Feature

    def carries(f: Any) -> bool:
        co = getattr(f, "child_options", None)
        if co is None:
            return False
        v = co.get(K().in_features)
        return isinstance(v, Feature) or (isinstance(v, frozenset) and any(isinstance(x, Feature) for x in v))

    fa = a.filter_feature if hasattr(a, "filter_feature") else a
    fb = b.filter_feature if hasattr(b, "filter_feature") else b
    if isinstance(fa, Feature) and isinstance(fb, Feature) and (carries(fa) or carries(fb)):
        return FINDING_FEATHASH
    return None


def suite_ident(ctx: Ctx) -> None:
    from mloda.core.abstract_plugins.components.hashable_dict import HashableDict
    from mloda.core.abstract_plugins.components.index.index import Index
    from mloda.core.abstract_plugins.components.link import JoinSpec
    from mloda.core.filter.filter_parameter import FilterParameterImpl
    from mloda.core.filter.single_filter import SingleFilter
    from mloda.core.abstract_plugins.components.options import Options

    G = IdGen(ctx)
    rng = ctx.rng
    n = ctx.budget(5000, 100000)
    kinds = ["feature", "feature", "feature", "options", "options", "hdict", "index", "joinspec", "link", "link", "param", "filter"]
    reqs, impls, objs = [], [], []
    for _ in range(n):
        kind = rng.choice(kinds)
        built_equal = False  # the pair was built as copies that differ only in what the class' docs say is ignored
        try:
            if kind == "feature":
                a, _ = G.feature()
                b = G.feature_variant(a)
                ja, jb = G.j_feature(a), G.j_feature(b)
            elif kind == "options":
                a = G.options(0.2)
                same = rng.random() < 0.6
                b = G.options_variant(a, same)
                ja, jb = G.j_options(a), G.j_options(b)
            elif kind == "hdict":
                d = gen_dict(rng, 2, rng.randint(0, 3), special=0.0)
                e = morph(rng, copy.deepcopy(d)) if rng.random() < 0.6 else perturb(rng, copy.deepcopy(d))
                if not isinstance(e, dict):
                    e = {}
                a, b = HashableDict(d), HashableDict(e)
                ja, jb = enc_dict(d, G.reg), enc_dict(e, G.reg)
            elif kind == "index":
                a = G.index()
                b = Index(tuple(a.index)) if rng.random() < 0.5 else G.index()
                built_equal = tuple(a.index) == tuple(b.index)
                ja, jb = enc(a.index, G.reg), enc(b.index, G.reg)
            elif kind == "joinspec":
                ia = G.index()
                ca = rng.choice(G.classes)
                a = JoinSpec(ca, ia)
                r = rng.random()
                if r < 0.5:
                    b = JoinSpec(ca, Index(tuple(ia.index)))
                    built_equal = True
                elif r < 0.75:
                    b = JoinSpec(rng.choice(G.classes), Index(tuple(ia.index)))
                else:
                    b = JoinSpec(ca, G.index())
                ja = {"fg": G.reg.obj(a.feature_group), "index": enc(a.index.index, G.reg)}
                jb = {"fg": G.reg.obj(b.feature_group), "index": enc(b.index.index, G.reg)}
            elif kind == "link":
                a = G.link()
                b = G.link_variant(a)
                ja, jb = G.j_link(a), G.j_link(b)
            elif kind == "param":
                d = G.param()
                e = morph(rng, copy.deepcopy(d)) if rng.random() < 0.6 else G.param()
                a, b = FilterParameterImpl.from_dict(d), FilterParameterImpl.from_dict(e)
                ja, jb = enc_dict(d, G.reg), enc_dict(e, G.reg)
            else:
                fa, _ = G.feature()
                fb = G.feature_variant(fa) if rng.random() < 0.8 else fa
                d = G.param()
                e = morph(rng, copy.deepcopy(d)) if rng.random() < 0.7 else G.param()
                ta = rng.choice(["min", "equal", "range"])
                tb = ta if rng.random() < 0.8 else "regex"
                a, b = SingleFilter(fa, ta, d), SingleFilter(fb, tb, e)
                ja = {"feature": G.j_feature(fa), "ftype": ta, "param": enc_dict(d, G.reg)}
                jb = {"feature": G.j_feature(fb), "ftype": tb, "param": enc_dict(e, G.reg)}
        except Unmodellable:
            continue
        eq = eq_or_raise(a, b)
        eq_rev = eq_or_raise(b, a)
        ha, hb = h_or_raise(a), h_or_raise(b)
        case = {"kind": kind, "a": ja, "b": jb}
        reqs.append({"op": "C15.ident", **case})
        impls.append({"eq": eq, "ha": ha, "hb": hb})
        objs.append((a, b))
        ctx.case("ident", case, eq is True, ident_kind=kind, ident_eq=str(eq))
        # ---- oracle (property text): equal objects hash equal; equality is symmetric, reflexive; copies are equal
        if eq != eq_rev:
            ctx.violation("ident", case, f"{kind}: a == b is {eq} but b == a is {eq_rev}", [eq, eq_rev], "symmetric")
        if eq_or_raise(a, a) is not True:
            ctx.violation("ident", case, f"{kind}: a == a is not True", eq_or_raise(a, a), True)
        if built_equal and eq is not True:
            ctx.violation("ident", case, f"{kind}: structurally identical copies compare unequal", eq, True)
    outs = ctx.lean.batch(reqs)
    for r_, i_, o_, (a, b) in zip(reqs, impls, outs, objs):
        if "err" in o_:
            ctx.disagree("ident", r_, i_, o_)
            continue
        # ---- oracle (property text): equal objects hash equal.  A violation counts as the known Feature.__hash__ defect only
        # inside its narrow input class AND when the as-is model predicts it (its hashed values differ)
        if i_["eq"] is True and isinstance(i_["ha"], int) and isinstance(i_["hb"], int) and i_["ha"] != i_["hb"]:
            cls = feathash_class(a, b) if o_.get("hvEq") is False else None
            ctx.violation("ident", {k: r_[k] for k in ("kind", "a", "b")}, f"{r_['kind']}: a == b but hash(a) != hash(b)", i_, "equal hashes", finding_class=cls)
        why = []
        if o_["eq"] != i_["eq"]:
            why.append("eq")
        # the model's hashed value, decoded to a Python value, must hash exactly like the real object
        for side, hreal in (("a", i_["ha"]), ("b", i_["hb"])):
            hm_ok = o_["hashableA" if side == "a" else "hashableB"]
            if isinstance(hreal, int) != bool(hm_ok):
                why.append("hashable-" + side)
            elif isinstance(hreal, int):
                try:
                    if hash(dec(o_["h" + side], G.reg)) != hreal:
                        why.append("hashval-" + side)
                except Unmodellable:
                    pass
        bad = bool(why)
        if bad:
            ctx.disagree("ident", r_, i_, {"why": why, **{k: o_[k] for k in ("eq", "hashableA", "hashableB", "hvEq")}})




# --------------------------------------------------------------------------------------------------
# suite 5: the grouping function, suite 6: dependency levels


def collide(rng: Any, d: Dict[Any, Any]) -> Dict[Any, Any]:
    """a dict that is != d but whose _make_hashable image / hash coincides (CPython: hash(-1) == hash(-2);
    _make_hashable maps list and tuple, dict and its sorted item tuple to the same value)"""
    out = copy.deepcopy(d)
    for k, v in list(out.items()):
        if isinstance(v, bool):
            continue
        if isinstance(v, int) and v in (-1, -2):
            out[k] = -3 - v
            return out
        if isinstance(v, list):
            out[k] = tuple(v)
            return out
        if isinstance(v, tuple):
            out[k] = list(v)
            return out
        if isinstance(v, dict):
            out[k] = tuple(sorted(v.items()))
            return out
    # nothing collidable inside: give both dicts (d in place) a colliding entry
    a, b = rng.choice([(-1, -2), ([1], (1,)), ({"q": 1}, (("q", 1),))])
    d["x"] = a
    out["x"] = b
    return out


def options_collide(a: Any, b: Any) -> bool:
    """group options differ but Options hash identically (the excluded point of grouping_iff_partial)"""
    try:
        return (not (a.options.group == b.options.group)) and hash(a.options) == hash(b.options)
    except TypeError:
        return False


def grouping_oracle(ctx: Ctx, suite: str, case: Any, feats: List[Any], groups: List[List[int]], depends: Any = None, same_level: Any = None) -> None:
    """property text: two features of one feature group share a computation exactly when group options, framework and declared
    type agree (an undeclared type agrees with any); context never separates.  `feats[i]` has .options .compute_frameworks
    .data_type; `groups` = the partition found on the real code as lists of indexes."""
    where = {}
    for gi, g in enumerate(groups):
        for i in g:
            where[i] = gi

    def base_agree(i: int, j: int) -> bool:
        a, b = feats[i], feats[j]
        return bool(a.options.group == b.options.group and a.compute_frameworks == b.compute_frameworks)

    def agree(i: int, j: int) -> bool:
        # "must be computed together" side: agreeing and (for the end-to-end runs) on the same dependency level
        return base_agree(i, j) and (same_level is None or same_level(i, j))

    def cls(i: int, j: int, apart: bool) -> Optional[str]:
        # no known finding covers the grouping any more: since dc1e740 the dictionary is keyed by the key value, so option
        # sets that merely hash equal ({'x': -1}/{'x': -2}, [1]/(1,), dict/sorted item tuple) must be separated
        return None

    n = len(feats)
    for i in range(n):
        for j in range(i + 1, n):
            a, b = feats[i], feats[j]
            tog = where[i] == where[j]
            ag = agree(i, j)
            same_t = a.data_type == b.data_type
            compat = same_t or a.data_type is None or b.data_type is None
            if tog and depends is not None and depends(i, j):
                ctx.violation(suite, case, f"features {i} and {j} share one computation although one depends on the other", {"groups": groups}, "separate")
            if tog and not (base_agree(i, j) and compat):
                ctx.violation(suite, case, f"features {i} and {j} share one computation although group options / framework / declared type differ",
                              {"groups": groups}, "separate", finding_class=cls(i, j, False))  # fmt: skip
            if ag and same_t and not tog:
                ctx.violation(suite, case, f"features {i} and {j} agree in group options, framework and declared type (only context may differ) but are computed separately",
                              {"groups": groups}, "together", finding_class=cls(i, j, True))  # fmt: skip
    for u in range(n):
        if feats[u].data_type is not None:
            continue
        # "an undeclared type agrees with any" is satisfiable only when the agreeing typed features carry ONE declared type
        # (INT32 and INT64 features may not share a computation, so an undeclared one cannot be with both): then it must be
        # computed with all of them (on its dependency level); with several declared types nothing is demanded here
        kinds = {feats[t].data_type for t in range(n) if feats[t].data_type is not None and base_agree(u, t)}
        typed = [t for t in range(n) if feats[t].data_type is not None and agree(u, t)]
        if not typed or len(kinds) != 1:
            continue
        together = [t for t in typed if where[t] == where[u]]
        if len(together) != len(typed):
            ctx.violation(suite, case, f"undeclared-type feature {u} is not computed with the agreeing typed features {typed}",
                          {"groups": groups}, "together (an undeclared type agrees with any)", finding_class=cls(u, typed[0], True))  # fmt: skip


# regression corpus (runs first): option sets that are != but hash equal.  Fixed by dc1e740 ("group features by their
# similarity key, not by its hash value"); before it these pairs were planned into ONE calculation.
COLLISION_PAIRS = [
    ({"x": -1}, {"x": -2}),
    ({"x": [1]}, {"x": (1,)}),
    ({"x": {"q": 1}}, {"x": (("q", 1),)}),
    ({"k": "v", "x": -1}, {"x": -2, "k": "v"}),
    ({"x": (-1, [2])}, {"x": [-2, (2,)]}),
]


def j_gfeature(f: Any, reg: Reg) -> Dict[str, Any]:
    return {"name": f.name.name, "options": state_of(f.options, reg), "domain": None,
            "cfw": None if f.compute_frameworks is None else [reg.obj(c) for c in f.compute_frameworks],
            "dtype": None if f.data_type is None else reg.obj(f.data_type), "child": None}  # fmt: skip


def grouping_cases(ctx: Ctx, suite: str, sets: List[List[Any]]) -> None:
    """run the real grouping function on each feature set; oracle; model partition; key-equality and hash ties"""
    from mloda.core.prepare.execution_plan import ExecutionPlan

    ep = ExecutionPlan()
    reg = Reg()
    reqs, impls, key_reqs, key_real, sim_reqs, sim_real = [], [], [], [], [], []
    for feats in sets:
        S = set(feats)
        order = list(S)
        try:
            case = {"features": [{"name": f.name.name, "group": enc_dict(f.options.group, reg), "context": enc_dict(f.options.context, reg),
                                  "cfw": None if f.compute_frameworks is None else sorted(c.__name__ for c in f.compute_frameworks),
                                  "dtype": None if f.data_type is None else f.data_type.name} for f in order]}  # fmt: skip
            jfs = [j_gfeature(f, reg) for f in order]
        except Unmodellable:
            continue
        real = ep.group_features_by_compute_framework_and_options(S)
        idx = {id(f): i for i, f in enumerate(order)}
        groups = sorted(sorted(idx[id(f)] for f in g) for g in real.values())
        mixes = len({cjson(x["group"]) for x in case["features"]}) > 1 and any(x["context"] for x in case["features"])
        collides = any(options_collide(a, b) for a in order for b in order)
        ctx.case(suite, case, mixes or collides, grouping_n=len(order), grouping_groups=len(groups), hash_collision_present=collides)
        grouping_oracle(ctx, suite, case, order, groups)
        reqs.append({"op": "C15.group", "features": jfs})
        impls.append((case, groups))
        # ties of the key formula: (a) the model's key tuples are == exactly when the real keys are; (b) the model's hashed
        # tuples, re-hashed by CPython, are has_similarity_properties() / base_similarity_properties()
        for a, b in [(0, 1), (0, len(order) - 1)]:
            if a != b and b < len(order) and hasattr(order[a], "similarity_key"):
                fa, fb = order[a], order[b]
                key_reqs.append({"op": "C15.keyEq", "a": jfs[a], "b": jfs[b]})
                key_real.append({"simEq": bool(fa.similarity_key() == fb.similarity_key()), "baseEq": bool(fa.base_similarity_key() == fb.base_similarity_key())})
        for k, f in enumerate(order[:2]):
            sim_reqs.append({"op": "C15.sim", "f": jfs[k]})
            sim_real.append((f.has_similarity_properties(), f.base_similarity_properties()))
    outs = ctx.lean.batch(reqs)
    for (case, groups), o_ in zip(impls, outs):
        mg = sorted(sorted(g) for g in o_.get("groups", []))
        if mg != groups:
            ctx.disagree(suite, case, groups, mg)
    outs = ctx.lean.batch(key_reqs)
    for r_, real_, o_ in zip(key_reqs, key_real, outs):
        if real_ != {"simEq": o_.get("simEq"), "baseEq": o_.get("baseEq")}:
            ctx.disagree(suite, r_, real_, o_)
    outs = ctx.lean.batch(sim_reqs)
    for r_, (hs, hb), o_ in zip(sim_reqs, sim_real, outs):
        try:
            ms, mb = hash(dec(o_["sim"], reg)), hash(dec(o_["base"], reg))
        except Unmodellable:
            continue
        if (ms, mb) != (hs, hb):
            ctx.disagree(suite, r_, [hs, hb], [ms, mb])


def corpus_feature_sets() -> List[List[Any]]:
    from mloda.core.abstract_plugins.components.feature import Feature
    from mloda.core.abstract_plugins.components.options import Options
    from mloda.core.abstract_plugins.components.data_types import DataType

    sets = []
    for ga, gb in COLLISION_PAIRS:
        for ta, tb in [(None, None), (DataType.INT64, DataType.INT64), (DataType.INT64, None), (None, DataType.INT32)]:
            a = Feature("a", Options(group=copy.deepcopy(ga), context={"c": 1}), data_type=ta)
            b = Feature("b", Options(group=copy.deepcopy(gb)), data_type=tb)
            c = Feature("c", Options(group=copy.deepcopy(ga), context={"c": 2}), data_type=ta)
            for f in (a, b, c):
                f.compute_frameworks = {F.PyArrowTable}
            sets.append([a, b, c])
    return sets


def suite_grouping(ctx: Ctx) -> None:
    from mloda.core.abstract_plugins.components.feature import Feature
    from mloda.core.abstract_plugins.components.options import Options
    from mloda.core.abstract_plugins.components.data_types import DataType

    rng = ctx.rng
    n = ctx.budget(1500, 30000)
    fws = [F.PyArrowTable, F.PandasDataFrame, F.PythonDictFramework]
    dts = [DataType.INT32, DataType.INT64, DataType.STRING]
    sets = []
    for _ in range(n):
        base = gen_dict(rng, 1, rng.randint(0, 2), special=0.05)
        for k in ("domain", "compute_framework"):
            base.pop(k, None)
        variants = [base]
        for _v in range(rng.randint(0, 3)):
            r = rng.random()
            src = rng.choice(variants)
            if r < 0.35:
                variants.append(morph(rng, copy.deepcopy(src)))
            elif r < 0.6:
                variants.append(collide(rng, src))
            else:
                pv = perturb(rng, copy.deepcopy(src))
                variants.append(pv if isinstance(pv, dict) else {})
        variants = [v for v in variants if isinstance(v, dict)]
        feats = []
        for i in range(rng.randint(2, 7)):
            g = copy.deepcopy(rng.choice(variants))
            c = {k: v for k, v in gen_dict(rng, 1, rng.randint(0, 2), special=0.0).items() if k not in g}
            try:
                f = Feature(f"f{i}", Options(group=g, context=c), data_type=rng.choice([None, None, None] + dts + [dts[0]]))
            except Exception:
                continue
            r = rng.random()
            f.compute_frameworks = {fws[0]} if r < 0.6 else ({fws[1]} if r < 0.8 else (None if r < 0.9 else {fws[0], fws[2]}))
            feats.append(f)
        sets.append(feats)
    grouping_cases(ctx, "grouping", sets)


def suite_levels(ctx: Ctx) -> None:
    from uuid import uuid4
    from mloda.core.prepare.execution_plan import ExecutionPlan
    from mloda.core.abstract_plugins.components.feature import Feature

    rng = ctx.rng
    ep = ExecutionPlan()
    n = ctx.budget(800, 15000)
    reqs, impls = [], []
    for _ in range(n):
        k = rng.randint(1, 7)
        feats = [Feature(f"f{i}") for i in range(k)]
        outside = [uuid4() for _ in range(2)]
        num = {f.uuid: i for i, f in enumerate(feats)}
        for j, u in enumerate(outside):
            num[u] = 100 + j
        cyclic = rng.random() < 0.12
        mapping: Dict[Any, Set[Any]] = {}
        direct: Dict[int, Set[int]] = {i: set() for i in range(k)}
        if rng.random() < 0.85:
            for i in range(k):
                for j in range(i):
                    if rng.random() < 0.3:
                        direct[i].add(j)
            if cyclic and k >= 2:
                a, b = rng.sample(range(k), 2)
                direct[a].add(b)
                direct[b].add(a)
        # the engine's mapping holds all ancestors (transitive)
        clos = {i: set(direct[i]) for i in range(k)}
        changed = True
        while changed:
            changed = False
            for i in range(k):
                for j in list(clos[i]):
                    new = clos[j] - clos[i]
                    if new:
                        clos[i] |= new
                        changed = True
        for i, f in enumerate(feats):
            deps = {feats[j].uuid for j in clos[i]}
            if rng.random() < 0.3:
                deps.add(rng.choice(outside))
            if deps or rng.random() < 0.5:
                mapping[f.uuid] = deps
        S = set(feats)
        order = [num[f.uuid] for f in S]
        real = ep._split_features_by_dependency_levels(S, mapping)
        levels = [sorted(num[f.uuid] for f in lv) for lv in real]
        case = {"ids": order, "deps": [[num[u], sorted(num[d] for d in ds)] for u, ds in mapping.items()]}
        is_cyc = any(i in clos[i] for i in range(k))
        ctx.case("levels", case, any(clos[i] for i in range(k)), levels_n=len(levels), cyclic=is_cyc)
        reqs.append({"op": "C15.levels", **case})
        impls.append((case, levels))
        # oracle: a partition; a feature is placed after everything it depends on, and as early as that allows
        flat = sorted(x for lv in levels for x in lv)
        if flat != list(range(k)):
            ctx.violation("levels", case, "dependency levels are not a partition of the features", levels, "partition")
        if not is_cyc:
            depth: Dict[int, int] = {}

            def dp(i: int) -> int:
                if i not in depth:
                    depth[i] = 1 + max([dp(j) for j in clos[i]], default=-1)
                return depth[i]

            exp = {}
            for i in range(k):
                exp.setdefault(dp(i), []).append(i)
            exp_levels = [sorted(exp[d]) for d in sorted(exp)]
            if levels != exp_levels:
                ctx.violation("levels", case, "features are not split exactly by dependency (together iff neither depends on the other, level by level)", levels, exp_levels)
    outs = ctx.lean.batch(reqs)
    for (case, levels), o_ in zip(impls, outs):
        ml = [sorted(l) for l in o_.get("levels", [])]
        if ml != levels:
            ctx.disagree("levels", case, levels, ml)


# --------------------------------------------------------------------------------------------------
# suite 7: end to end through mloda.run_all


E2E_TIMEOUT_S = 10


class _RunTimeout(BaseException):
    pass


def _on_alarm(signum: Any, frame: Any) -> None:
    raise _RunTimeout()


class Obs:
    """one feature as a calculate_feature call saw it"""

    def __init__(self, f: Any, cls_name: str, call: int) -> None:
        from mloda.core.abstract_plugins.components.options import Options

        self.name = f.name.name
        self.options = Options(group=copy.deepcopy(dict(f.options.group)), context={k: copy.deepcopy(v) for k, v in f.options.context.items() if k != "ApiInputData"})
        self.compute_frameworks = set(f.compute_frameworks) if f.compute_frameworks is not None else None
        self.data_type = f.data_type
        self.cls_name = cls_name
        self.call = call

    def j(self) -> Dict[str, Any]:
        return {"name": self.name, "group": repr(self.options.group), "context": repr(self.options.context), "dtype": None if self.data_type is None else self.data_type.name,
                "fw": None if self.compute_frameworks is None else sorted(c.__name__ for c in self.compute_frameworks), "call": self.call}  # fmt: skip


class ExpectedConflict(Exception):
    pass


def listed_protected(own: Dict[Any, Any]) -> Set[str]:
    v = own.get("feature_chainer_parser_key")
    return {"in_features"} | ({kstr(x) for x in v} if v else set())


def suite_e2e(ctx: Ctx, corpus_only: bool = False) -> None:
    from mloda.user import mloda, Feature, Options
    from mloda.core.abstract_plugins.components.data_types import DataType
    import mloda_plugins.compute_framework.base_implementations.pandas.pandaspyarrowtransformer  # noqa: F401
    import mloda_plugins.compute_framework.base_implementations.python_dict.python_dict_pyarrow_transformer  # noqa: F401

    rng = ctx.rng
    n = ctx.budget(1000, 20000)
    PA, PD = F.PyArrowTable, F.PandasDataFrame
    timeouts = 0
    # regression corpus first: the colliding option sets, requested on derived features and directly on the roots
    corpus: List[Optional[Dict[str, Any]]] = []
    for ga, gb in COLLISION_PAIRS:
        for names, dt in [(("d0", "d1"), None), (("r0", "r1"), None), (("d0", "d1"), "INT64"), (("d0", "d0"), None)]:
            corpus.append({"derived": {"d0": {"parents": ["r0"], "expr": ["col", "r0"]}, "d1": {"parents": ["r1"], "expr": ["col", "r1"]}},
                           "request": [{"name": names[0], "group": copy.deepcopy(ga), "context": {"c": 1}, "prop": [], "dtype": dt, "fw": "PyArrowTable"},
                                       {"name": names[1], "group": copy.deepcopy(gb), "context": {}, "prop": [], "dtype": dt, "fw": "PyArrowTable"},
                                       {"name": "d1" if names[0] != "r0" else "r2", "group": copy.deepcopy(ga), "context": {"c": 2}, "prop": [], "dtype": None, "fw": "PyArrowTable"}]})  # fmt: skip
    for fixed in (corpus if corpus_only else [None] * n):
        calls: List[List[Obs]] = []

        def hook(cls: Any, data: Any, features: Any) -> None:
            idx = len(calls)
            calls.append([Obs(f, cls.__name__, idx) for f in features.features])

        mode = rng.choice(["deep", "deep", "flat", "own"]) if fixed is None else "corpus"
        roots = ["r0", "r1", "r2"]
        derived: Dict[str, Dict[str, Any]] = {}
        if fixed is not None:
            derived = copy.deepcopy(fixed["derived"])
        elif mode == "own":
            chain = ["r0"] + [f"d{i}" for i in range(rng.randint(1, 3))]
            for a, b in zip(chain[1:], chain[:-1]):
                derived[a] = {"parents": [b], "expr": ["add", ["col", b], ["const", 1]]}
            top = chain[-1]
            edge_child = rng.choice(chain[1:])
            own = copy.deepcopy(rng.choice([{"p": 3}, {"g": 1}, {"g": 9}, {"feature_chainer_parser_key": frozenset({"g"}), "g": 9}, {"in_features": "own"}, {"c": 1}, {"c": 2}, {"s": 7}, {"s": 8},
                                            {"feature_chainer_parser_key": ("s", "c"), "s": 8}]))  # fmt: skip
            derived[edge_child]["parent_opts"] = {derived[edge_child]["parents"][0]: own}
        else:
            k = rng.randint(2, 6)
            for i in range(k):
                pool = roots + ([f"d{j}" for j in range(i)] if mode == "deep" else [])
                ps = rng.sample(pool, min(len(pool), rng.choice([1, 1, 2])))
                if mode == "deep" and i > 0 and rng.random() < 0.5 and not any(p.startswith("d") for p in ps):
                    ps[0] = f"d{rng.randrange(i)}"
                expr: Any = ["col", ps[0]]
                for p_ in ps[1:]:
                    expr = ["add", expr, ["col", p_]]
                derived[f"d{i}"] = {"parents": ps, "expr": expr}
        R = F.make_group(F.uniq("R15e_"), root_data={r: [1, 2] for r in roots}, hooks={"before_calc": hook}, frameworks={PA})
        G = F.make_group(F.uniq("G15e_"), derived=derived, hooks={"before_calc": hook})
        # ---- request
        gpal = [{}, {"g": 1}, {"g": 2}, {"g": 1.0}]
        r = rng.random()
        if r < 0.25:
            gpal += [{"g": -1}, {"g": -2}]
        elif r < 0.4:
            gpal += [{"g": [1]}, {"g": (1,)}]
        gpal = rng.sample(gpal, rng.randint(1, min(3, len(gpal))))
        cpal = [({}, frozenset()), ({"c": 1}, frozenset()), ({"c": 2}, frozenset()), ({"c": 1, "s": 7}, frozenset({"s"}))]
        req_specs = []
        if fixed is not None:
            req_specs = copy.deepcopy(fixed["request"])
        elif mode == "own":
            g = rng.choice([{"g": 1}, {"g": 1, "in_features": "zz"}, {}])
            c, pr = rng.choice(cpal)
            req_specs.append({"name": top, "group": g, "context": c, "prop": sorted(pr), "dtype": None, "fw": None})
        else:
            names = list(derived.keys()) + (["r1"] if rng.random() < 0.2 else [])
            for _i in range(rng.randint(2, 5)):
                nm = rng.choice(names)
                c, pr = rng.choice(cpal)
                dt = rng.choice([None, None, None, "INT64", "INT64", "INT32"])
                fw = None
                gsel = rng.choice(gpal)
                if mode == "flat":
                    # every requested feature names its framework; the roots live on PyArrow only; Pandas is used for one
                    # group-option variant only (a second Pandas dataset in one run fails in the transform step - not this property)
                    fw = "PandasDataFrame" if (dt is None and gsel is gpal[0] and nm in derived and rng.random() < 0.45) else "PyArrowTable"
                req_specs.append({"name": nm, "group": copy.deepcopy(gsel), "context": dict(c), "prop": sorted(pr), "dtype": dt, "fw": fw})
        feats = []
        seen = []
        for rs in req_specs:
            f = Feature(rs["name"], options=Options(group=copy.deepcopy(rs["group"]), context=copy.deepcopy(rs["context"]), propagate_context_keys=frozenset(rs["prop"])),
                        data_type=DataType[rs["dtype"]] if rs["dtype"] else None, compute_framework=rs["fw"])  # fmt: skip
            if any(f == g_ for g_ in seen):
                continue  # an exact duplicate request is rejected by Features (not this property)
            seen.append(f)
            feats.append(f)
        req_specs = [rs for rs, _ in zip(req_specs, range(10**6))]
        fwset = {PA, PD} if mode in ("flat", "corpus") else {PA}
        case = {"mode": mode, "derived": {k: {"parents": v["parents"], "parent_opts": {p: repr(o) for p, o in (v.get("parent_opts") or {}).items()}} for k, v in derived.items()},
                "request": [{**rs, "group": repr(rs["group"]), "context": repr(rs["context"])} for rs in req_specs]}  # fmt: skip

        # ---- expected instances from the documented propagation rules
        def parents_of(nm: str) -> List[str]:
            return derived[nm]["parents"] if nm in derived else []

        expected: List[Dict[str, Any]] = []

        def walk(nm: str, group: Dict[str, Any], ctx_: Optional[Dict[str, Any]], prop: Set[str]) -> List[Tuple[str, Dict[str, Any]]]:
            anc: List[Tuple[str, Dict[str, Any]]] = []
            for p_ in parents_of(nm):
                own_ = copy.deepcopy((derived[nm].get("parent_opts") or {}).get(p_) or {})
                prot = listed_protected(own_)
                items = list(group.items()) + (list(ctx_.items()) if ctx_ is not None else [])
                for k_, v_ in items:
                    if k_ in own_ and k_ not in prot and not (own_[k_] == v_):
                        raise ExpectedConflict(k_)
                pg = dict(own_)
                for k_, v_ in group.items():
                    if k_ not in prot:
                        pg[k_] = v_
                pctx: Optional[Dict[str, Any]] = None
                if ctx_ is not None:
                    pctx = {k_: ctx_[k_] for k_ in prop if k_ not in prot}
                    for k_ in pctx:
                        if k_ in pg:
                            raise ExpectedConflict(k_)
                sub = walk(p_, pg, None if pctx is None else pctx, set())
                anc += [(p_, pg)] + sub
            expected.append({"name": nm, "group": group, "ctx": ctx_, "anc": anc})
            return anc

        exp_conflict = False
        try:
            for rs in req_specs:
                if any(True for f in feats if f.name.name == rs["name"]):
                    walk(rs["name"], rs["group"], rs["context"], set(rs["prop"]))
        except ExpectedConflict:
            exp_conflict = True

        # ---- run
        outcome = "ok"
        old_handler = signal.signal(signal.SIGALRM, _on_alarm)
        signal.alarm(E2E_TIMEOUT_S)
        try:
            mloda.run_all(feats, compute_frameworks=fwset, plugin_collector=F.collector({R, G}))
        except _RunTimeout:
            outcome = "timeout"
        except Exception as e:
            msg = repr(e) + str(e)
            if "Duplicate key" in msg or "Cannot propagate context" in msg or "Cannot update group" in msg or "conflict" in msg and "Context key" in msg:
                outcome = "conflict"
            else:
                outcome = "error:" + type(e).__name__ + ":" + msg[-160:]
        finally:
            signal.alarm(0)
            signal.signal(signal.SIGALRM, old_handler)
        mixes = len({repr(rs["group"]) for rs in req_specs}) > 1 and len({repr(rs["context"]) for rs in req_specs}) > 1
        ctx.case("e2e", case, mixes or mode in ("own", "corpus"), e2e_mode=mode, e2e_outcome=outcome.split(":")[0], e2e_calls=len(calls))
        if outcome == "timeout":
            timeouts += 1
            ctx.violation("e2e", {**case, "calls": [[o.j() for o in c_] for c_ in calls]}, f"run_all did not terminate within {E2E_TIMEOUT_S} s", "timeout", "terminates")
            if timeouts >= 3:
                ctx.note("e2e suite stopped after 3 runs that did not terminate")
                break
            continue
        if exp_conflict != (outcome == "conflict"):
            if outcome.startswith("error"):
                ctx.tag("e2e_skipped", outcome[-110:])
            else:
                ctx.violation("e2e", case, f"documented conflict rules say conflict={exp_conflict}, run outcome {outcome}", outcome, "conflict" if exp_conflict else "ok")
            continue
        if outcome != "ok":
            if outcome.startswith("error"):
                ctx.tag("e2e_skipped", outcome[-110:])
                if os.environ.get("C15_DEBUG"):
                    print("SKIPPED", json.dumps(case), [[o.j() for o in c_] for c_ in calls])
            continue
        obs = [o for c_ in calls for o in c_]
        ocase = {**case, "calls": [[o.j() for o in c_] for c_ in calls]}

        # ---- oracle A: every expected instance was computed with the documented propagated options, nothing else was
        def matches(o: Obs, e: Dict[str, Any]) -> bool:
            return o.name == e["name"] and o.options.group == e["group"] and (e["ctx"] is None or o.options.context == e["ctx"])

        for e in expected:
            if not any(matches(o, e) for o in obs):
                ctx.violation("e2e", ocase, f"no computed feature {e['name']} with the propagated options group={e['group']!r} context={e['ctx']!r}", [o.j() for o in obs if o.name == e["name"]], "documented propagation")
        for o in obs:
            if not any(matches(o, e) for e in expected):
                ctx.violation("e2e", ocase, f"feature {o.name} computed with options nobody asked for: group={o.options.group!r} context={o.options.context!r}", o.j(), "documented propagation")

        # ---- oracle B: composition of the calls, per feature group class
        for cls_name in {o.cls_name for o in obs}:
            es = [o for o in obs if o.cls_name == cls_name]
            anc_of: List[List[Tuple[str, Dict[str, Any]]]] = []
            for o in es:
                a_: List[Tuple[str, Dict[str, Any]]] = []
                for e in expected:
                    if o.name == e["name"] and o.options.group == e["group"]:
                        a_ += e["anc"]
                anc_of.append(a_)

            def is_anc(i: int, j: int) -> bool:  # es[j] is an input (transitively) of es[i]
                # input features are created untyped by the engine (a typed request of the same name is another feature object)
                return es[j].data_type is None and any(es[j].name == nm and es[j].options.group == g_ for nm, g_ in anc_of[i])

            def base_agree(i: int, j: int) -> bool:
                return bool(es[i].options.group == es[j].options.group and es[i].compute_frameworks == es[j].compute_frameworks)

            memo: Dict[int, int] = {}

            def depth(i: int, stack: Tuple[int, ...] = ()) -> int:
                if i in memo:
                    return memo[i]
                d = 0
                for j in range(len(es)):
                    if j != i and j not in stack and base_agree(i, j) and is_anc(i, j):
                        d = max(d, 1 + depth(j, stack + (i,)))
                memo[i] = d
                return d

            groups_: Dict[int, List[int]] = {}
            for i, o in enumerate(es):
                groups_.setdefault(o.call, []).append(i)
            grouping_oracle(ctx, "e2e", {**ocase, "class": cls_name[:4], "entries": [o.j() for o in es]}, es, sorted(groups_.values()),
                            depends=lambda i, j: is_anc(i, j) or is_anc(j, i), same_level=lambda i, j: depth(i) == depth(j))  # fmt: skip


# --------------------------------------------------------------------------------------------------


def run(ctx: Ctx) -> None:
    ctx.extra["rule"] = (
        "ops: a history on one Options object is non-trivial when the constructor or some call was rejected; "
        "ident/pyeq: the pair is ==; mh: the value is a container; grouping: the set mixes group variations and carries context; "
        "levels: some intra-group dependency; e2e: the request mixes >=2 group and >=2 context variations (or tests input-feature own options)"
    )
    # regression corpus first (hash-colliding option sets: fixed by dc1e740, see COLLISION_PAIRS)
    grouping_cases(ctx, "corpus_grouping", corpus_feature_sets())
    suite_e2e(ctx, corpus_only=True)
    suite_values(ctx)
    suite_ops(ctx)
    suite_ident(ctx)
    suite_grouping(ctx)
    suite_levels(ctx)
    suite_e2e(ctx)


def search(ctx: Ctx, broken: List[str]) -> None:
    # failing-input search after a broken obligation: the same oracles on a fresh seed with ~3x the quick budget
    # (the search context is created with the thorough tier; scale it down so a failing run still ends in minutes)
    old = os.environ.get("VERIF_SCALE")
    os.environ["VERIF_SCALE"] = str(0.15 * float(old or 1))
    try:
        run(ctx)
    finally:
        if old is None:
            os.environ.pop("VERIF_SCALE", None)
        else:
            os.environ["VERIF_SCALE"] = old


def replay(ctx: Ctx, body: Dict[str, Any]) -> None:
    run(ctx)
