"""C12 extension `history`: HISTORIES of merges inside one process on table OBJECTS that are reused between the calls.

Property C12 is a statement per merge call: the result is the relational operator applied to the two tables handed in -
to their CURRENT contents - whatever the process merged before.  The main module c12.py builds two fresh tables for
every single merge, so nothing a merge leaves behind (in the engine instance, in the engine class, keyed by the identity
of a table) can ever be seen.  Here a small universe of tables lives through a history of merges:

  slots     2-5 named tables per history (key columns of one key configuration + own payload columns, optionally a twin
            with the same schema for append / union), held once per engine as REAL objects: a Python list of row dicts
            (PythonDict), a pandas DataFrame (mutated in place), a pyarrow Table (immutable: rebuilt on every change -
            the control)
  steps     2-5 merge calls (hist_stream: 4-18) inner / left / right / outer / append / union on one or several key
            columns; a later step prefers a table that was merged before, in the same role or on the other side
  between   the reused objects are changed IN PLACE: same number of rows (rows re-keyed: shifted / rotated / resampled,
            buffer refilled `buf[:] = rows`, payload overwritten, single rows replaced `buf[i] = row`) or another number
            of rows (append / pop / refill), or dropped and replaced by a new object, or left alone.  PythonDict: edit
            the row dicts / slice assignment / item assignment / clear+extend / append+pop; pandas: column assignment,
            .iat cells, .loc columns, .iloc rows, drop(inplace) + enlargement
  engines   one engine instance for the whole history, a fresh instance per merge, a mix, or one instance for the run
  chains    the result object of a join may itself be kept as a table of the history and joined again later

Suites (REAL PandasMergeEngine / PyArrowMergeEngine / PythonDictMergeEngine `.merge`; oracle = c12.oracle, the nested
loop join written from the property text, evaluated on the contents the two input objects have AT THE CALL; model = the
single-merge ops of the C12 driver, which know nothing about histories - exactly what the property demands):

  hist_merge   random histories as above
  hist_stream  a long-lived process joining a stream of batches: one fixed table, one batch table that is refilled /
               re-keyed / overwritten in place or re-created between the rounds; every round runs 1-4 join types on the
               same two objects

Also judged per merge: the two input objects still read as they did before the call (a relational operator has no side
effect on its operands - otherwise the next merge of the history sees other inputs).
Known single-merge differences of the engines (findings.d/C12.json) keep their finding class through c12.finding_classes;
histories are generated mostly (85 %) with unique non-null keys, where single merges are correct.
"""
from __future__ import annotations

import copy
from typing import Any, Dict, List, Optional, Tuple

from harness.core import Ctx
from harness.corr import c12 as M

SUITES = {"hist_merge", "hist_stream"}

ASSUMPTIONS = [
    "history: a caller may hand the same table object to several merge calls and change it in place in between (list of dicts: edit rows, slice / item assignment, "
    "append / pop; DataFrame: column / cell / row assignment, drop(inplace)); nothing in the merge engine contract asks for fresh or frozen tables",
    "history: what a merge must see is the contents of the two objects at the call; the harness reads them from the real objects (self-checked against the generated "
    "contents after every in-place change) and hands exactly these contents to the oracle and to the single-merge Lean model",
    "history: pyarrow tables are immutable, a changed table is a new object there (control group for the two mutable frameworks)",
]

ENGINES = M.ENGINES
KEYCFG_W = [("1same", 45), ("2same", 20), ("1diff", 15), ("2diff", 8), ("2part", 12)]
JOIN_W = [("INNER", 21), ("LEFT", 21), ("RIGHT", 21), ("OUTER", 21), ("APPEND", 8), ("UNION", 8)]
MUT_W = [("rekey", 22), ("refill", 18), ("overwrite", 12), ("replace_rows", 12), ("resize", 16), ("fresh", 12)]
SAMELEN = ("rekey", "refill", "overwrite", "replace_rows")
PY_SAME = ("edit", "slice", "item")
PY_RESIZE = ("slice", "appendpop", "clearextend")
PD_SAME = ("col", "cell", "loc", "ilocrow")
PD_RESIZE = ("dropappend", "droprefill")
INSTS = ("shared", "fresh", "mixed", "global")


def _wchoice(rng: Any, table: List[Tuple[str, int]]) -> str:
    return rng.choices([a for a, _ in table], [w for _, w in table])[0]


# ----------------------------------------------------------------------------------------------------------------
# contents generators (pure data; everything random comes from the rng handed in)


def fix_func(cols: List[str], keys: List[str], rows: List[List[Any]], func: List[str]) -> List[List[Any]]:
    """payload columns in `func` are a function of the first key column (so equal keys mean equal rows in twin tables)"""
    if func:
        ki = cols.index(keys[0])
        for row in rows:
            if row[ki] is not None:
                for c in func:
                    row[cols.index(c)] = 10 * row[ki] + 1
    return rows


def draw_key0(rng: Any, n: int, clean: bool, kmax: int, avoid: Tuple[Any, ...] = ()) -> List[Any]:
    if clean:
        pool = [v for v in range(1, kmax + 1) if v not in avoid]
        if len(pool) < n:
            pool = list(range(1, kmax + n + 1))
            pool = [v for v in pool if v not in avoid]
        return rng.sample(pool, n)
    return [rng.choices([1, 2, 3, None], [4, 4, 2, 1])[0] for _ in range(n)]


def draw_cell(rng: Any, c: str, keys: List[str], clean: bool) -> Any:
    if c in keys:  # a further key column: tiny domain so that whole key tuples still meet
        return rng.choice([1, 2]) if clean or rng.random() < 0.85 else None
    return None if rng.random() < 0.06 else rng.randint(10, 99)


def gen_rows(rng: Any, sl: Dict[str, Any], n: int, clean: bool, kmax: int, avoid: Tuple[Any, ...] = ()) -> List[List[Any]]:
    cols, keys = sl["cols"], sl["keys"]
    first = draw_key0(rng, n, clean, kmax, avoid)
    rows = [[first[i] if c == keys[0] else draw_cell(rng, c, keys, clean) for c in cols] for i in range(n)]
    return fix_func(cols, keys, rows, sl.get("func", []))


def mutate_rows(rng: Any, sl: Dict[str, Any], old: List[List[Any]], kind: str, clean: bool, kmax: int) -> Tuple[List[List[Any]], str]:
    """new contents of a table for one mutation kind -> (rows, variant)"""
    cols, keys, func = sl["cols"], sl["keys"], sl.get("func", [])
    n = len(old)
    ki = cols.index(keys[0])
    kidx = [cols.index(k) for k in keys]
    pay = [i for i, c in enumerate(cols) if c not in keys and c not in func]
    new = [list(r) for r in old]
    variant = kind
    if kind in SAMELEN and n == 0:
        kind = "resize"
    if kind == "overwrite" and not pay:
        kind = "rekey"
    if kind == "rekey":
        variant = rng.choice(["shift", "rotate", "resample"])
        if variant == "rotate" and n < 2:
            variant = "shift"
        if variant == "shift":
            d = rng.choice([1, 1, 2, -1])
            for r in new:
                if r[ki] is not None:
                    r[ki] += d
            low = min([r[ki] for r in new if r[ki] is not None] or [1])
            if low < 1:
                for r in new:
                    if r[ki] is not None:
                        r[ki] += 1 - low
        elif variant == "rotate":
            ks = [[r[i] for i in kidx] for r in old]
            s = rng.randrange(1, n)
            for j, r in enumerate(new):
                for i, v in zip(kidx, ks[(j + s) % n]):
                    r[i] = v
        else:
            first = draw_key0(rng, n, clean, kmax)
            for r, v in zip(new, first):
                r[ki] = v
        if pay and rng.random() < 0.5:
            for r in new:
                for i in pay:
                    r[i] = draw_cell(rng, cols[i], keys, clean)
        variant = "rekey-" + variant
    elif kind == "refill":
        new = gen_rows(rng, sl, n, clean, kmax)
    elif kind == "overwrite":
        for r in new:
            for i in pay:
                r[i] = draw_cell(rng, cols[i], keys, clean)
    elif kind == "replace_rows":
        idx = rng.sample(range(n), rng.randint(1, n))
        keep = tuple(r[ki] for j, r in enumerate(old) if j not in idx)
        first = draw_key0(rng, len(idx), clean, kmax, keep)
        for j, v in zip(idx, first):
            new[j] = [v if c == keys[0] else draw_cell(rng, c, keys, clean) for c in cols]
    elif kind in ("resize", "fresh"):
        if kind == "fresh" and n > 0 and rng.random() < 0.5:
            n2 = n
        else:
            n2 = rng.choice([m for m in (0, 1, 2, 2, 3, 3, 4, 5) if m != n])
        if kind == "resize" and rng.random() < 0.55:
            variant = "resize-tail"
            if n2 < n:
                new = new[:n2]
            else:
                new = new + gen_rows(rng, sl, n2 - n, clean, kmax, tuple(r[ki] for r in old))
        else:
            variant = kind + ("-refill" if kind == "resize" else ("-samelen" if n2 == n else "-len"))
            new = gen_rows(rng, sl, n2, clean, kmax)
    new = fix_func(cols, keys, new, func)
    if kind in SAMELEN and new == old and n > 0:  # nothing changed by chance: shift the keys
        for r in new:
            if r[ki] is not None:
                r[ki] += 1
        new = fix_func(cols, keys, new, func)
    return new, variant


# ----------------------------------------------------------------------------------------------------------------
# history specifications (pure data -> replayable)


def _slot(cols: List[str], keys: List[str], pay: List[str], side: str, func: Optional[List[str]] = None) -> Dict[str, Any]:
    return {"cols": cols, "keys": keys, "pay": pay, "side": side, "func": func or [], "base": True}


def gen_universe(rng: Any, cfg: str, clean: bool, kmax: int, nrows: Tuple[int, ...]) -> Dict[str, Dict[str, Any]]:
    lk, rk = [list(x) for x in M.KEYCFGS[cfg]]
    same = lk == rk
    slots: Dict[str, Dict[str, Any]] = {}
    letters = ["a", "b", "c", "d"]

    def add(name: str, keys: List[str], side: str, letter: str) -> None:
        pay = [letter] + ([letter + "2"] if rng.random() < 0.3 else [])
        cols = list(keys) + pay
        if rng.random() < 0.3:
            rng.shuffle(cols)
        slots[name] = _slot(cols, list(keys), pay, side)

    if same:
        for i in range(rng.choice([2, 3, 3])):
            add(f"t{i}", lk, "LR", letters[i])
    else:
        add("l0", lk, "L", "a")
        add("r0", rk, "R", "b")
        if rng.random() < 0.6:
            add("l1", lk, "L", "c")
        if rng.random() < 0.6:
            add("r1", rk, "R", "d")
    if rng.random() < 0.5:  # a twin of the first table: same schema (append / union between union-compatible tables)
        first = next(iter(slots))
        func = list(slots[first]["pay"]) if rng.random() < 0.6 else []
        slots[first]["func"] = func
        slots["tw"] = {**copy.deepcopy(slots[first]), "twin_of": first}
        if rng.random() < 0.12:  # the same columns in another order ("up to column order")
            slots["tw"]["cols"] = list(reversed(slots["tw"]["cols"]))
    for sl in slots.values():
        sl["data"] = gen_rows(rng, sl, rng.choice(nrows), clean, kmax)
    return slots


def _pairs(slots: Dict[str, Dict[str, Any]], t: str, nk: int, lk: List[str], rk: List[str]) -> List[Tuple[str, str]]:
    out = []
    for a, sa in slots.items():
        for b, sb in slots.items():
            if a == b or "L" not in sa["side"] or "R" not in sb["side"]:
                continue
            if t in M.JOINS4:
                # joins: the two tables share nothing but (same-named, used) key columns
                shared = [c for c in sa["cols"] if c in sb["cols"]]
                if any(c not in M.coalesced(lk[:nk], rk[:nk]) for c in shared):
                    continue
                if not (set(lk[:nk]) <= set(sa["cols"]) and set(rk[:nk]) <= set(sb["cols"])):
                    continue
            out.append((a, b))
    return out


def gen_history(rng: Any, hid: str) -> Dict[str, Any]:
    cfg = _wchoice(rng, KEYCFG_W)
    lk, rk = [list(x) for x in M.KEYCFGS[cfg]]
    clean = rng.random() < 0.85
    kmax = 7
    slots = gen_universe(rng, cfg, clean, kmax, (0, 1, 2, 2, 3, 3, 4, 5))
    cur = {n: s["data"] for n, s in slots.items()}
    spec_slots = {n: {k: copy.deepcopy(v) for k, v in s.items()} for n, s in slots.items()}
    steps: List[Dict[str, Any]] = []
    used: List[str] = []
    prev: Optional[Tuple[str, str]] = None
    nres = 0
    for si in range(rng.randint(2, 5)):
        t = _wchoice(rng, JOIN_W)
        nk = 1 if (len(lk) > 1 and rng.random() < 0.2) else len(lk)
        if t not in M.JOINS4:
            nk = len(lk)
        pairs = _pairs(slots, t, nk, lk, rk)
        if t not in M.JOINS4:
            compat = [(a, b) for a, b in pairs if sorted(slots[a]["cols"]) == sorted(slots[b]["cols"]) and slots[a]["base"] and slots[b]["base"]]
            if compat and rng.random() < 0.8:
                pairs = compat
        if not pairs:
            t, nk = "INNER", len(lk)
            pairs = _pairs(slots, t, nk, lk, rk)
        pick = None
        if prev is not None and rng.random() < 0.8:
            r = rng.random()
            if r < 0.45:
                cand = [p for p in pairs if p[1] == prev[1]]  # same right table again
            elif r < 0.8:
                cand = [p for p in pairs if p[0] == prev[0]]  # same left table again
            elif r < 0.9:
                cand = [p for p in pairs if p == (prev[1], prev[0])]  # the same two tables, sides swapped
            else:
                cand = [p for p in pairs if p == prev]
            if cand:
                pick = rng.choice(cand)
        fresh_res = [n for n in slots if not slots[n]["base"] and n not in used]
        if fresh_res and rng.random() < 0.6:  # a kept join result is joined again (chain)
            cand = [p for p in pairs if fresh_res[0] in p]
            if cand:
                pick = rng.choice(cand)
        if pick is None:
            pick = rng.choice(pairs)
        l, r_ = pick
        # in-place changes before this merge: mostly to a table of this merge that was merged before
        muts: List[Dict[str, Any]] = []
        targets: List[str] = []
        cand_t = [s for s in (l, r_) if s in used and slots[s]["base"]]
        if cand_t and rng.random() < 0.8:
            targets.append(rng.choice(cand_t))
            if len(cand_t) > 1 and rng.random() < 0.25:
                targets.append([s for s in cand_t if s != targets[0]][0])
        if rng.random() < 0.15:
            others = [s for s in slots if slots[s]["base"] and s not in targets]
            if others:
                targets.append(rng.choice(others))
        for s in targets:
            kind = _wchoice(rng, MUT_W)
            new, variant = mutate_rows(rng, slots[s], cur[s], kind, clean, kmax)
            same_len = len(new) == len(cur[s])
            fresh = variant.startswith("fresh")
            muts.append({"slot": s, "kind": variant, "data": new, "fresh": fresh,
                         "py": "new" if fresh else rng.choice(PY_SAME if same_len else PY_RESIZE),
                         "pd": "new" if fresh else rng.choice(PD_SAME if same_len else PD_RESIZE)})  # fmt: skip
            cur[s] = new
        keep = None
        if t in M.JOINS4 and lk == rk and nk == len(lk) and nres < 2 and rng.random() < 0.22:
            keep = f"res{nres}"
            nres += 1
            sa, sb = slots[l], slots[r_]
            cols = list(sa["cols"]) + [c for c in sb["cols"] if c not in lk]
            slots[keep] = {"cols": cols, "keys": list(lk), "pay": sa["pay"] + sb["pay"], "side": "LR", "func": [], "base": False}
        steps.append({"mut": muts, "t": t, "l": l, "r": r_, "nk": nk, "keep": keep, "fresh_inst": rng.random() < 0.5})
        for s in (l, r_):
            if s not in used:
                used.append(s)
        prev = (l, r_)
    return {"hid": hid, "shape": "random", "keycfg": cfg, "lk": lk, "rk": rk, "clean": clean, "pdmode": rng.choice(["float", "Int64"]),
            "inst": rng.choice(INSTS), "slots": {n: {"cols": s["cols"], "data": s["data"]} for n, s in spec_slots.items()}, "steps": steps}  # fmt: skip


def gen_stream(rng: Any, hid: str) -> Dict[str, Any]:
    """one fixed table, one batch table; rounds of 1-4 join types on the same two objects; the batch table is changed
    between the rounds in one manner per history"""
    cfg = _wchoice(rng, KEYCFG_W)
    lk, rk = [list(x) for x in M.KEYCFGS[cfg]]
    clean = rng.random() < 0.9
    kmax = 9
    batch_right = rng.random() < 0.5
    fx = _slot(list(lk if batch_right else rk) + ["f"], list(lk if batch_right else rk), ["f"], "L" if batch_right else "R")
    bt = _slot(list(rk if batch_right else lk) + ["v"] + (["w"] if rng.random() < 0.3 else []), list(rk if batch_right else lk), ["v"], "R" if batch_right else "L")
    if "w" in bt["cols"]:
        bt["pay"] = ["v", "w"]
    fx["data"] = gen_rows(rng, fx, rng.randint(3, 6), clean, kmax)
    bt["data"] = gen_rows(rng, bt, rng.randint(1, 4), clean, kmax)
    manner = rng.choice(["refill", "rekey", "overwrite", "replace_rows", "newlist", "varlen", "mixed"])
    joins_per_round = rng.choice([1, 2, 4])
    nk = 1 if (len(lk) > 1 and rng.random() < 0.2) else len(lk)
    l, r_ = ("fixed", "batch") if batch_right else ("batch", "fixed")
    steps: List[Dict[str, Any]] = []
    cur = bt["data"]
    for rnd in range(rng.randint(3, 6)):
        muts: List[Dict[str, Any]] = []
        if rnd > 0:
            kind = {"newlist": "fresh", "varlen": "resize", "mixed": _wchoice(rng, MUT_W)}.get(manner, manner)
            new, variant = mutate_rows(rng, bt, cur, kind, clean, kmax)
            same_len = len(new) == len(cur)
            fresh = variant.startswith("fresh")
            muts.append({"slot": "batch", "kind": variant, "data": new, "fresh": fresh,
                         "py": "new" if fresh else rng.choice(PY_SAME if same_len else PY_RESIZE),
                         "pd": "new" if fresh else rng.choice(PD_SAME if same_len else PD_RESIZE)})  # fmt: skip
            cur = new
        ts = rng.sample(list(M.JOINS4), joins_per_round) if joins_per_round < 4 else list(M.JOINS4)
        for j, t in enumerate(ts):
            steps.append({"mut": muts if j == 0 else [], "t": t, "l": l, "r": r_, "nk": nk, "keep": None, "fresh_inst": rng.random() < 0.5})
    return {"hid": hid, "shape": "stream-" + manner, "keycfg": cfg, "lk": lk, "rk": rk, "clean": clean, "pdmode": rng.choice(["float", "Int64"]), "inst": rng.choice(INSTS),
            "slots": {"fixed": {"cols": fx["cols"], "data": fx["data"]}, "batch": {"cols": bt["cols"], "data": bt["data"]}}, "steps": steps}  # fmt: skip


# ----------------------------------------------------------------------------------------------------------------
# the real table objects and their in-place changes


def rows_py(cols: List[str], data: List[List[Any]]) -> List[Dict[str, Any]]:
    return [dict(zip(cols, r)) for r in data]


def snap(eng: str, obj: Any) -> Tuple[List[str], List[List[Any]]]:
    """current contents of a real table object -> (columns, rows aligned with the columns; a missing dict entry = null)"""
    if eng == "pd":  # same reading as c12.normalize_table, one array conversion instead of one .iloc per column
        return [str(c) for c in obj.columns], [[M._norm(v) for v in r] for r in obj.to_numpy(dtype=object).tolist()]
    nt = M.normalize_table(obj)
    cols = list(nt["cols"])
    if eng == "py":
        return cols, [[dict(r).get(c) for c in cols] for r in nt["rows"]]
    return cols, [[v for _, v in r] for r in nt["rows"]]


def _np_col(vals: List[Any], pdmode: str) -> Any:
    import numpy as np
    import pandas as pd

    if pdmode == "Int64":
        return pd.array(vals, dtype="Int64")
    if any(v is None for v in vals):
        return np.array([np.nan if v is None else float(v) for v in vals], dtype="float64")
    return np.array(vals, dtype="int64")


def _pd_numeric(df: Any) -> bool:
    return all(getattr(dt, "kind", "O") in "iuf" for dt in df.dtypes)


def change_py(T: List[Dict[str, Any]], cols: List[str], data: List[List[Any]], how: str) -> None:
    """make the list object T read as `data`, in place, in the manner `how`"""
    new = rows_py(cols, data)
    if how == "slice":
        T[:] = new
        return
    if how == "clearextend":
        T.clear()
        T.extend(new)
        return
    while len(T) > len(new):  # appendpop / (edit, item with another length)
        T.pop()
    while len(T) < len(new):
        T.append(new[len(T)])
    for i, row in enumerate(new):
        if T[i] == row and list(T[i]) == list(row):
            continue
        if how == "item":
            T[i] = row
        else:  # edit the row dict itself
            for c, v in row.items():
                if c not in T[i] or T[i][c] != v:
                    T[i][c] = v
            for c in [c for c in T[i] if c not in row]:
                del T[i][c]


def change_pd(df: Any, cols: List[str], data: List[List[Any]], how: str, pdmode: str) -> str:
    """make the DataFrame object df read as `data`, in place, in the manner `how` (falls back to coarser in-place
    manners where pandas would change a dtype to object); -> the manner actually used"""
    import pandas as pd

    n = len(data)
    null = pd.NA if pdmode == "Int64" else None
    colvals = {c: [r[j] for r in data] for j, c in enumerate(cols)}

    def refill() -> str:
        df.drop(df.index, inplace=True)
        for c in cols:
            df[c] = _np_col(colvals[c], pdmode)
        return "droprefill"

    def by_cols() -> None:
        cur = snap("pd", df)[1]
        for j, c in enumerate(cols):
            if [r[j] for r in cur] != colvals[c]:
                df[c] = _np_col(colvals[c], pdmode)

    def by_cells() -> None:
        cur = snap("pd", df)[1]
        for i in range(n):
            for j in range(len(cols)):
                if cur[i][j] != data[i][j]:
                    df.iat[i, j] = null if data[i][j] is None else data[i][j]

    if len(df) != n:
        if how != "dropappend" or len(df) == 0 or pdmode == "Int64":
            return refill()
        if len(df) > n:
            df.drop(index=df.index[n:], inplace=True)
        else:
            for i in range(len(df), n):
                if any(v is None for v in data[i]):
                    return refill()
                df.loc[len(df)] = list(data[i])
        by_cells()
        used = "dropappend"
    elif how == "col":
        by_cols()
        used = "col"
    elif how == "cell":
        by_cells()
        used = "cell"
    elif how == "loc":
        cur = snap("pd", df)[1]
        for j, c in enumerate(cols):
            if [r[j] for r in cur] != colvals[c]:
                if any(v is None for v in colvals[c]):
                    df[c] = _np_col(colvals[c], pdmode)
                else:
                    df.loc[:, c] = colvals[c]
        used = "loc"
    else:  # ilocrow
        cur = snap("pd", df)[1]
        for i in range(n):
            if cur[i] != data[i]:
                if any(v is None for v in data[i]) or pdmode == "Int64":
                    for j in range(len(cols)):
                        if cur[i][j] != data[i][j]:
                            df.iat[i, j] = null if data[i][j] is None else data[i][j]
                else:
                    df.iloc[i] = list(data[i])
        used = "ilocrow"
    if not _pd_numeric(df) or list(df.columns) != cols:
        return refill()
    return used


class Tables:
    """the tables of one history for one engine"""

    def __init__(self, eng: str, spec: Dict[str, Any]):
        self.eng = eng
        self.pdmode = spec["pdmode"]
        self.cols = {n: list(s["cols"]) for n, s in spec["slots"].items()}
        self.mirror: Dict[str, Optional[List[List[Any]]]] = {n: copy.deepcopy(s["data"]) for n, s in spec["slots"].items()}
        self.obj: Dict[str, Any] = {}
        self.gen = {n: 0 for n in self.cols}
        self.how: Dict[str, str] = {}

    def get(self, n: str) -> Any:
        """the real object of a table (built when the history first touches it)"""
        if n not in self.obj and n in self.cols:
            self.obj[n] = M.build(self.eng, self.cols[n], self.mirror[n], self.pdmode)  # type: ignore[arg-type]
        return self.obj.get(n)

    def change(self, mu: Dict[str, Any]) -> None:
        n, data = mu["slot"], copy.deepcopy(mu["data"])
        eng = self.eng
        self.get(n)
        if mu["fresh"] or eng == "pa":
            if eng != "pa" or data != self.mirror[n]:
                self.obj[n] = None  # drop the old object first: its id may be handed out again
                self.obj[n] = M.build(eng, self.cols[n], data, self.pdmode)
                self.gen[n] += 1
            self.how[n] = "new"
        elif eng == "py":
            change_py(self.obj[n], self.cols[n], data, mu["py"])
            self.how[n] = mu["py"]
        else:
            self.how[n] = change_pd(self.obj[n], self.cols[n], data, mu["pd"], self.pdmode)
        self.mirror[n] = data
        got = snap(eng, self.obj[n])
        if got[1] != data or (data and got[0] != self.cols[n]):
            raise RuntimeError(f"c12_history harness: in-place change {mu['kind']}/{self.how[n]} of the {eng} table {n} reads {got}, generated {data}")

    def contents(self, n: str) -> Tuple[List[str], List[List[Any]]]:
        if self.mirror.get(n) is not None:
            return self.cols[n], copy.deepcopy(self.mirror[n])  # type: ignore[arg-type]
        return snap(self.eng, self.get(n))


def exact_state(eng: str, obj: Any) -> Any:
    if eng == "py":
        return [[[c, M._norm(v)] for c, v in r.items()] for r in obj]
    return snap(eng, obj)


def err_kind(e: Exception) -> str:
    msg = str(e)
    if "union are not yet implemented" in msg:
        return "union-unimplemented"
    if "Schemas of the tables do not match" in msg:
        return "append-schema"
    if "mloda_right_index already exists" in msg:
        return "right-index-exists"
    if isinstance(e, KeyError) or "No match or multiple matches for key field" in msg:
        return "missing-key-column"
    return f"error:{type(e).__name__}:{msg[:160]}"


_PRIO = ["changed-samelen", "changed-len", "newobj", "unchanged", "otherkeys", "first"]


def reuse_state(uses: Dict[str, List[Dict[str, Any]]], slot: str, K: List[str], gen: int, cols: List[str], data: List[List[Any]]) -> Tuple[str, Optional[Dict[str, Any]]]:
    hist = uses.get(slot, [])
    if not hist:
        return "first", None
    same_k = [u for u in hist if u["K"] == K]
    if not same_k:
        return "otherkeys", None
    u = same_k[-1]
    if u["gen"] != gen:
        return "newobj", u
    if u["data"] == data and u["cols"] == cols:
        return "unchanged", u
    return ("changed-samelen" if len(u["data"]) == len(data) else "changed-len"), u


# ----------------------------------------------------------------------------------------------------------------
# running histories: real engines, oracle, model


_GLOBAL_INST: Dict[str, Any] = {}


def run_histories(ctx: Ctx, suite: str, specs: List[Dict[str, Any]]) -> None:
    from mloda.core.abstract_plugins.components.index.index import Index
    from mloda.core.abstract_plugins.components.link import JoinType

    pend: List[Dict[str, Any]] = []
    reqs: List[Dict[str, Any]] = []
    spec_reqs: List[Dict[str, Any]] = []
    spec_cases: List[Dict[str, Any]] = []
    for spec in specs:
        lk, rk = spec["lk"], spec["rk"]
        for eng in ENGINES:
            tb = Tables(eng, spec)
            shared = M.engine_obj(eng)
            uses: Dict[str, List[Dict[str, Any]]] = {}
            for si, st in enumerate(spec["steps"]):
                for mu in st["mut"]:
                    tb.change(mu)
                l, r_ = st["l"], st["r"]
                if tb.get(l) is None or tb.get(r_) is None:
                    ctx.tag("hist_skipped_step", f"{eng}:input-is-a-failed-result")
                    continue
                nk = st["nk"]
                lkc, rkc = lk[:nk], rk[:nk]
                ls, Ld = tb.contents(l)
                rs, Rd = tb.contents(r_)
                case = {"t": st["t"], "keycfg": spec["keycfg"] + ("" if nk == len(lk) else "/1"), "lk": lkc, "rk": rkc, "ls": ls, "rs": rs, "L": Ld, "R": Rd, "pdmode": spec["pdmode"]}
                lstate, lprev = reuse_state(uses, l, lkc, tb.gen.get(l, 0), ls, Ld)
                rstate, rprev = reuse_state(uses, r_, rkc, tb.gen.get(r_, 0), rs, Rd)
                Lobj, Robj = tb.get(l), tb.get(r_)
                # what the two objects read right before the call (pandas / pyarrow: = the contents just taken)
                before = (exact_state(eng, Lobj), exact_state(eng, Robj)) if eng == "py" else ((ls, Ld), (rs, Rd))
                inst_mode = spec["inst"]
                if inst_mode == "global":
                    inst = _GLOBAL_INST.setdefault(eng, M.engine_obj(eng))
                elif inst_mode == "shared" or (inst_mode == "mixed" and not st["fresh_inst"]):
                    inst = shared
                else:
                    inst = M.engine_obj(eng)
                out = None
                try:
                    out = inst.merge(Lobj, Robj, JoinType[st["t"]], Index(tuple(lkc)), Index(tuple(rkc)))
                    got = M.normalize_table(out)
                except Exception as e:  # noqa: BLE001
                    got = {"err": err_kind(e)}
                after = before if eng == "pa" else (exact_state(eng, Lobj), exact_state(eng, Robj))  # a pyarrow table cannot change
                if after != before:  # reported by judge(); the history goes on with the tables as generated
                    for slot, b, a in ((l, before[0], after[0]), (r_, before[1], after[1])):
                        if a != b and tb.mirror.get(slot) is not None:
                            tb.obj[slot] = M.build(eng, tb.cols[slot], tb.mirror[slot], tb.pdmode)  # type: ignore[arg-type]
                            tb.gen[slot] += 1
                # the model request: for the list-of-dicts engine exactly the entries the row dicts have
                req = M.model_request(eng, case)
                if eng == "py":
                    req["L"], req["R"] = before
                # would the result be another one had an input still its contents of the last merge it took part in?
                sens = None
                lch = lprev if lstate.startswith("changed") else None
                rch = rprev if rstate.startswith("changed") else None
                if lch is not None or rch is not None:
                    now = M.oracle(st["t"], lkc, rkc, ls, rs, M.rows_of(ls, Ld), M.rows_of(rs, Rd))["rows"]
                    sens = False
                    for lo in (None, lch):
                        for ro in (None, rch):
                            if lo is None and ro is None:
                                continue
                            l2, L2 = (lo["cols"], lo["data"]) if lo else (ls, Ld)
                            r2, R2 = (ro["cols"], ro["data"]) if ro else (rs, Rd)
                            if M.oracle(st["t"], lkc, rkc, l2, r2, M.rows_of(l2, L2), M.rows_of(r2, R2))["rows"] != now:
                                sens = True
                f = M.features(case)
                reused = lstate != "first" or rstate != "first"
                nontriv = reused and len(Ld) > 0 and len(Rd) > 0 and (f["matchpairs"] > 0 or st["t"] not in M.JOINS4)
                worst = min((lstate, rstate), key=_PRIO.index)
                ccase = {"hid": spec["hid"], "step": si, "engine": eng, **case}
                ctx.case(suite, ccase, nontriv, hist_engine=eng, hist_jointype=st["t"], hist_keycfg=case["keycfg"], hist_step=min(si, 6),
                         hist_reuse=f"{eng}:{worst}", hist_sides=f"L={lstate},R={rstate}", hist_inst=spec["inst"], hist_shape=spec["shape"],
                         hist_clean=spec["clean"], hist_dup=f["dup"], hist_nullkey=f["nullkey"])  # fmt: skip
                if sens is not None:
                    ctx.tag("hist_old_contents_would_differ", f"{eng}:{worst}:{sens}")
                for mu in st["mut"]:
                    if mu["slot"] in (l, r_):
                        ctx.tag("hist_change_before_merge", f"{eng}:{mu['kind']}:{tb.how.get(mu['slot'], '?')}")
                if st["t"] in M.JOINS4 and nontriv and sens and eng != "pa" and worst == "changed-samelen":
                    ctx.tag("hist_same_object_same_len_changed_and_result_depends_on_it", eng)
                pend.append({"eng": eng, "case": case, "got": got, "spec": spec, "step": si, "before": before, "after": after, "l": l, "r": r_})
                reqs.append(req)
                for slot, K, cols, data in ((l, lkc, ls, Ld), (r_, rkc, rs, Rd)):
                    uses.setdefault(slot, []).append({"K": K, "gen": tb.gen.get(slot, 0), "cols": cols, "data": data})
                if st.get("keep"):
                    tb.obj[st["keep"]] = out if "err" not in got else None
                    tb.mirror[st["keep"]] = None
                    tb.gen[st["keep"]] = 0
                if not (tb.mirror.get(l) is not None and tb.mirror.get(r_) is not None):
                    ctx.tag("hist_input_is_an_earlier_result", eng)
                if eng == "pd":  # Lean spec vs Python oracle, once per step (on the contents the pandas history saw)
                    sr = M.model_request("py", case)
                    sr["op"] = "C12.spec"
                    spec_reqs.append(sr)
                    spec_cases.append(case)
            del tb
    outs = ctx.lean.batch(reqs + spec_reqs)
    for p, o in zip(pend, outs[: len(reqs)]):
        judge(ctx, suite, p, o)
    for case, o in zip(spec_cases, outs[len(reqs) :]):
        exp = M.oracle(case["t"], case["lk"], case["rk"], case["ls"], case["rs"], M.rows_of(case["ls"], case["L"]), M.rows_of(case["rs"], case["R"]))
        ov = [c for c in case["ls"] if c in case["rs"] and c not in M.coalesced(case["lk"], case["rk"])] if case["t"] in M.JOINS4 else []
        rows = M.lean_rows(o) if isinstance(o, list) else []
        _, bag = M.tag_rows("spec", ov, [], rows)
        if bag != exp["rows"]:
            ctx.disagree(suite + "/spec-vs-oracle", case, sorted(exp["rows"].elements()), sorted(bag.elements()))


def own_finding_classes(eng: str, case: Dict[str, Any], got: Dict[str, Any]) -> List[str]:
    """narrow input class of the finding of findings.d/C12_history.json (a single-merge difference the histories ran into:
    c12.py appends tables with identical column lists only)"""
    if eng == "pa" and case["t"] == "APPEND" and got.get("err") == "append-schema" and case["ls"] != case["rs"] and sorted(case["ls"]) == sorted(case["rs"]):
        return ["pyarrow-append-same-columns-other-order"]
    return []


def judge(ctx: Ctx, suite: str, p: Dict[str, Any], o: Any) -> None:
    """one merge of a history: the engine's single-merge Lean model and the oracle, both on the contents at the call
    (same comparison as c12.check_cases)"""
    eng, case, got = p["eng"], p["case"], p["got"]
    full = {**case, "engine": eng, "step": p["step"], "history": p["spec"]}
    if eng in ("pa", "pd"):
        model = {"err": M._arrow_err_kind(o["err"])} if "err" in o else {"rows": M.exact_bag(M.lean_rows(o["ok"]))}
    else:
        model = {"rows": M.exact_bag(M.lean_rows(o))} if isinstance(o, list) else {"driver": o}
    impl = {"err": got["err"]} if "err" in got else {"rows": M.exact_bag(got["rows"])}
    agrees = impl == model
    if not agrees:
        ctx.disagree(suite + "/model-" + eng, full, impl, model)
    ls_o = M.observable_schema(eng, case["ls"], case["L"])
    rs_o = M.observable_schema(eng, case["rs"], case["R"])
    exp = M.oracle(case["t"], case["lk"], case["rk"], ls_o, rs_o, M.rows_of(case["ls"], case["L"]), M.rows_of(case["rs"], case["R"]))
    ov = [c for c in ls_o if c in rs_o and c not in M.coalesced(case["lk"], case["rk"])] if case["t"] in M.JOINS4 else []
    what = None
    shown: Any = got
    where = f"merge {p['step']} of a history ({p['spec']['shape']}, tables {p['l']} x {p['r']})"
    if "err" in got:
        if not (exp["reject_ok"] and got["err"] == "append-schema"):
            what = f"{eng}: {where} raised {got['err']}"
    else:
        schema, bag = M.tag_rows(eng, ov, got["cols"], got["rows"])
        shown = {"cols": got["cols"], "rows": M.exact_bag(got["rows"])}
        if bag != exp["rows"]:
            missing = list((exp["rows"] - bag).elements())[:3]
            extra = list((bag - exp["rows"]).elements())[:3]
            what = f"{eng}: {where}: rows differ from the relational {case['t']} of the CURRENT contents of its inputs: missing {missing} unexpected {extra}"
        elif eng in ("pd", "pa") and schema != exp["schema"]:
            what = f"{eng}: {where}: result columns {sorted(schema)} expected {sorted(exp['schema'])}"
    if what is not None:
        cls = M._pick_class(ctx, M.finding_classes(eng, case) + own_finding_classes(eng, case, got)) if agrees else None
        ctx.violation(suite, full, what, shown, {"rows": sorted(exp["rows"].elements()), "schema": sorted(exp["schema"])}, finding_class=cls)
    if p["before"] != p["after"]:
        side = "left" if p["before"][0] != p["after"][0] else "right"
        ctx.violation(suite, full, f"{eng}: {where} changed its {side} input table in place", {"after": p["after"]}, {"before": p["before"]})


# ----------------------------------------------------------------------------------------------------------------


def run(ctx: Ctx) -> None:
    ctx.extra["rule"] = (ctx.extra.get("rule", "") + " | history: 2-5 (stream: 4-18) merges on 2-5 table objects per engine that are reused between the calls and changed in place "
        "in between (same / other number of rows, or re-created, or untouched), one / fresh / mixed / run-wide engine instances, join results kept and joined again; every "
        "merge judged by the c12 oracle and the single-merge Lean model on the contents its inputs have at the call, inputs unchanged by the call; non-trivial = a merge with "
        "an input that took part in an earlier merge of the history, both inputs non-empty, at least one matching key pair (joins)")  # fmt: skip
    specs = [gen_history(ctx.rng, f"s{ctx.seed}-h{i}") for i in range(ctx.budget(420, 5000))]
    for i in range(0, len(specs), 1500):
        run_histories(ctx, "hist_merge", specs[i : i + 1500])
    specs = [gen_stream(ctx.rng, f"s{ctx.seed}-b{i}") for i in range(ctx.budget(100, 1200))]
    for i in range(0, len(specs), 500):
        run_histories(ctx, "hist_stream", specs[i : i + 500])


def search(ctx: Ctx, broken: List[str]) -> None:
    run(ctx)


def replay(ctx: Ctx, body: Dict[str, Any]) -> None:
    case = body.get("case") or {}
    if isinstance(case.get("history"), dict) and body.get("suite") in SUITES:
        run_histories(ctx, body["suite"], [case["history"]])
    else:
        run(ctx)
