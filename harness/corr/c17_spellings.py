"""C17 extension `spellings`: declared types are enforced for EVERY Arrow spelling of a supported type.

The compatibility tables of C17 are written over mloda's 11 DataTypes, but a feature group produces Arrow types, and many
different Arrow types are the same DataType: `large_string` is a STRING (it is what a pandas-3 string column becomes after the
pandas -> Arrow conversion), `large_binary` is a BINARY, `timestamp[us, tz=Europe/Berlin]` is a TIMESTAMP_MICROS (the member
names the unit only), `decimal128(10, 2)` is a DECIMAL (the member names no precision).  The main module only produces the 11
images of `DataType.to_arrow_type` and judges other types through the implementation's own `from_arrow_type`, so a narrowing
of that function (a supported spelling silently becoming "unsupported" = "not checked") is invisible to it.

This module GENERATES Arrow types structurally (type specs, see `gen_spec`) over the whole `from_arrow_type` domain and judges
the real code against an INDEPENDENT reference `ref_reading(spec)` that is computed from the spec (never from pyarrow
predicates and never from mloda):

  documented assignment (enum comments of DataType + from_arrow_type docstring + docs/in_depth/data-type-enforcement.md):
    int32 -> INT32, int64 -> INT64, float32 -> FLOAT, float64 -> DOUBLE, bool -> BOOLEAN, date32 -> DATE,
    utf8 string with 32- or 64-bit offsets (string, large_string)   -> STRING
    variable binary with 32- or 64-bit offsets (binary, large_binary) -> BINARY
    timestamp with unit ms / us, with ANY or no timezone            -> TIMESTAMP_MILLIS / TIMESTAMP_MICROS
    decimal128 with ANY precision / scale                           -> DECIMAL
  unsupported ("not checked"): every other integer / float width, timestamp[s|ns] (with or without tz), time32/time64,
    duration, interval, null, list / large_list / fixed_size_list / struct / map, dictionary of an unsupported value type.
  open (the documentation names no member and does not exclude them; both "not checked" and "the family's member" are
    accepted, but nothing else, and the reading the implementation's from_arrow_type takes must then be applied consistently
    by validate() and run_all in every mode): string_view, binary_view, fixed_size_binary, date64, decimal32/64/256,
    dictionary-encoded columns of a supported value type.

suites
  spell_from_arrow   DataType.from_arrow_type(t) on every generated type vs the reference reading.
  spell_validate_fn  DataTypeValidator.validate on generated pa.Table schemas (1-4 columns of generated types, typed / untyped
                     features, strict option on/off); oracle: raises iff some declared feature is incompatible with the
                     reference DataType of its column under the documented lenient / strict table; the error names a
                     violating feature and the reference DataType.  Model: C17.validate where all types are in Gen.fromArrowTable.
  spell_e2e          mloda.run_all on PyArrow: a generated root group produces a column of the generated type, the request
                     declares a DataType, x {lenient, strict option (group / context), strict API flag} x {with / without an
                     untyped sibling column of another non-canonical type}; oracle as above (undeclared: always succeeds).
"""
from __future__ import annotations

import datetime
import decimal
import re
from typing import Any, Dict, List, Optional, Tuple

import pyarrow as pa

from harness import fgfactory as F
from harness.core import LEAN, Ctx, cjson
from harness.corr.c17 import doc_lenient, doc_strict

SUITES = {"spell_from_arrow", "spell_validate_fn", "spell_e2e"}
ASSUMPTIONS = [
    "spellings: the Arrow type -> DataType assignment is read from the DataType enum comments / from_arrow_type docstring as "
    "'same logical type, ignoring offset width (large_*), timezone and decimal128 precision/scale'; view / fixed-size / dictionary "
    "layouts, date64 and decimal32/64/256 are left open by the documentation (either 'not checked' or the family's member is accepted, "
    "consistently); PyArrow compute framework only (typed features on other frameworks are the known finding F-C17-nonarrow)",
]

NAMES = ["INT32", "INT64", "FLOAT", "DOUBLE", "BOOLEAN", "STRING", "BINARY", "DATE", "TIMESTAMP_MILLIS", "TIMESTAMP_MICROS", "DECIMAL"]
ZONES = [None, "UTC", "Europe/Berlin", "America/New_York", "Asia/Kolkata", "Australia/Lord_Howe", "+05:30", "-08:00", "Etc/GMT+3"]
UNITS = ["s", "ms", "us", "ns"]
PRIMS = ["int8", "int16", "int32", "int64", "uint8", "uint16", "uint32", "uint64", "float16", "float32", "float64", "bool", "date32", "date64", "null"]
HAS = {n: hasattr(pa, n) for n in ("string_view", "binary_view", "decimal32", "decimal64", "decimal256", "run_end_encoded")}
DEC_MAXP = {32: 9, 64: 18, 128: 38, 256: 76}

Spec = Dict[str, Any]
Reading = Tuple[str, Optional[str]]  # ("is", D) | ("none", None) | ("open", D)


# --------------------------------------------------------------------------------------------------------------------
# the independent reference: spec -> documented DataType


def ref_reading(s: Spec) -> Reading:
    k = s["k"]
    if k == "prim":
        fixed = {"int32": "INT32", "int64": "INT64", "float32": "FLOAT", "float64": "DOUBLE", "bool": "BOOLEAN", "date32": "DATE"}
        if s["n"] in fixed:
            return ("is", fixed[s["n"]])
        if s["n"] == "date64":
            return ("open", "DATE")
        return ("none", None)
    if k == "str":
        return ("open", "STRING") if s["layout"] == "view" else ("is", "STRING")
    if k == "bin":
        return ("open", "BINARY") if s["layout"] == "view" else ("is", "BINARY")
    if k == "fsb":
        return ("open", "BINARY")
    if k == "ts":
        return {"ms": ("is", "TIMESTAMP_MILLIS"), "us": ("is", "TIMESTAMP_MICROS")}.get(s["unit"], ("none", None))
    if k == "dec":
        return ("is", "DECIMAL") if s["bits"] == 128 else ("open", "DECIMAL")
    if k == "dict":
        inner = ref_reading(s["val"])
        return ("none", None) if inner[0] == "none" else ("open", inner[1])
    return ("none", None)  # time, dur, interval, list, struct, map, fixed_size_list


def canonical(s: Spec) -> bool:
    """is this one of the 11 DataType.to_arrow_type images (what the main module already produces)?"""
    k = s["k"]
    if k == "prim":
        return s["n"] in ("int32", "int64", "float32", "float64", "bool", "date32")
    if k in ("str", "bin"):
        return s["layout"] == "normal"
    if k == "ts":
        return s["tz"] is None and s["unit"] in ("ms", "us")
    if k == "dec":
        return s["bits"] == 128 and s["p"] == 38 and s["s"] == 18
    return False


def family(s: Spec) -> str:
    k = s["k"]
    if k == "prim":
        return s["n"]
    if k in ("str", "bin"):
        return f"{k}_{s['layout']}"
    if k == "ts":
        return f"ts_{s['unit']}_{'tz' if s['tz'] else 'naive'}"
    if k == "dec":
        return f"dec{s['bits']}"
    if k == "dict":
        return "dict_" + family(s["val"])
    return k


# --------------------------------------------------------------------------------------------------------------------
# spec -> pyarrow type / array


def build_type(s: Spec) -> pa.DataType:
    k = s["k"]
    if k == "prim":
        return {"bool": pa.bool_, "null": pa.null}.get(s["n"], getattr(pa, s["n"], None))()
    if k == "str":
        return {"normal": pa.string, "large": pa.large_string, "view": getattr(pa, "string_view", None)}[s["layout"]]()
    if k == "bin":
        return {"normal": pa.binary, "large": pa.large_binary, "view": getattr(pa, "binary_view", None)}[s["layout"]]()
    if k == "fsb":
        return pa.binary(s["w"])
    if k == "ts":
        return pa.timestamp(s["unit"], tz=s["tz"])
    if k == "time":
        return pa.time32(s["unit"]) if s["bits"] == 32 else pa.time64(s["unit"])
    if k == "dur":
        return pa.duration(s["unit"])
    if k == "dec":
        return getattr(pa, f"decimal{s['bits']}")(s["p"], s["s"])
    if k == "dict":
        return pa.dictionary(getattr(pa, s["idx"])(), build_type(s["val"]))
    if k == "list":
        inner = build_type(s["of"])
        return {"list": pa.list_, "large": pa.large_list}[s["variant"]](inner) if s["variant"] != "fixed" else pa.list_(inner, 2)
    if k == "struct":
        return pa.struct([("a", build_type(s["of"]))])
    if k == "map":
        return pa.map_(pa.string(), build_type(s["of"]))
    if k == "interval":
        return pa.month_day_nano_interval()
    raise ValueError(f"bad spec {s}")


def build_array(s: Spec, n: int = 2) -> pa.Array:
    """a column of `n` rows of the given type; real values where that is easy, nulls otherwise (only the schema is judged)"""
    t = build_type(s)
    k = s["k"]
    try:
        if k == "prim":
            nm = s["n"]
            if nm == "bool":
                return pa.array([True, False][:n] * 1, type=t)
            if nm.startswith(("int", "uint")):
                return pa.array(list(range(1, n + 1)), type=t)
            if nm in ("float32", "float64"):
                return pa.array([i + 0.5 for i in range(n)], type=t)
            if nm == "date32":
                return pa.array([datetime.date(2020, 1, 1 + i) for i in range(n)], type=t)
            if nm == "date64":
                return pa.array([datetime.date(2020, 1, 1 + i) for i in range(n)], type=t)
        if k == "str":
            return pa.array(["a", "b", "c"][:n], type=t)
        if k == "bin":
            return pa.array([b"a", b"b", b"c"][:n], type=t)
        if k == "fsb":
            return pa.array([bytes([65 + i]) * s["w"] for i in range(n)], type=t)
        if k in ("ts", "dur", "time"):
            base = pa.int32() if (k == "time" and s["bits"] == 32) else pa.int64()
            return pa.array(list(range(1, n + 1)), type=base).cast(t)
        if k == "dec":
            unit = decimal.Decimal(1).scaleb(-s["s"])  # 10^-scale: one digit, fits every precision >= 1
            return pa.array([unit, -unit, decimal.Decimal(0)][:n], type=t)
        if k == "dict":
            return pa.DictionaryArray.from_arrays(pa.array(list(range(n)), type=t.index_type), build_array(s["val"], n))
    except (pa.ArrowInvalid, pa.ArrowNotImplementedError, pa.ArrowTypeError, TypeError, ValueError):
        pass
    return pa.nulls(n, type=t)


# --------------------------------------------------------------------------------------------------------------------
# generator


def _gen_leaf(rng: Any, supported_bias: float) -> Spec:
    """a non-nested type; with probability `supported_bias` one that is (a spelling of) a supported DataType"""
    if rng.random() < supported_bias:
        kind = rng.choice(["str", "bin", "ts", "ts", "ts", "dec", "dec", "prim"])
    else:
        kind = rng.choice(["prim_other", "ts_other", "time", "dur", "fsb", "dec_other", "view", "interval"])
    if kind == "str":
        return {"k": "str", "layout": rng.choice(["large", "large", "normal"])}
    if kind == "bin":
        return {"k": "bin", "layout": rng.choice(["large", "large", "normal"])}
    if kind == "ts":
        return {"k": "ts", "unit": rng.choice(["ms", "us"]), "tz": rng.choice(ZONES + ZONES[1:])}
    if kind == "dec":
        p = rng.randint(1, 38)
        return {"k": "dec", "bits": 128, "p": p, "s": rng.randint(0, p)}
    if kind == "prim":
        return {"k": "prim", "n": rng.choice(["int32", "int64", "float32", "float64", "bool", "date32"])}
    if kind == "prim_other":
        return {"k": "prim", "n": rng.choice(["int8", "int16", "uint8", "uint16", "uint32", "uint64", "float16", "date64", "null"])}
    if kind == "ts_other":
        return {"k": "ts", "unit": rng.choice(["s", "ns"]), "tz": rng.choice(ZONES)}
    if kind == "time":
        bits = rng.choice([32, 64])
        return {"k": "time", "bits": bits, "unit": rng.choice(["s", "ms"] if bits == 32 else ["us", "ns"])}
    if kind == "dur":
        return {"k": "dur", "unit": rng.choice(UNITS)}
    if kind == "fsb":
        return {"k": "fsb", "w": rng.randint(1, 16)}
    if kind == "dec_other":
        bits = rng.choice([b for b in (32, 64, 256) if HAS.get(f"decimal{b}")] or [128])
        p = rng.randint(1, DEC_MAXP[bits])
        return {"k": "dec", "bits": bits, "p": p, "s": rng.randint(0, p)}
    if kind == "view":
        opts = [{"k": "str", "layout": "view"}] * HAS["string_view"] + [{"k": "bin", "layout": "view"}] * HAS["binary_view"]
        return dict(rng.choice(opts)) if opts else {"k": "fsb", "w": 3}
    return {"k": "interval"}


def gen_spec(rng: Any) -> Spec:
    r = rng.random()
    if r < 0.70:
        return _gen_leaf(rng, 0.75)
    if r < 0.85:
        return {"k": "dict", "idx": rng.choice(["int8", "int16", "int32", "int64"]), "val": _gen_leaf(rng, 0.8)}
    kind = rng.choice(["list", "list", "struct", "map"])
    inner = _gen_leaf(rng, 0.8)
    if kind == "list":
        return {"k": "list", "variant": rng.choice(["list", "large", "fixed"]), "of": inner}
    return {"k": kind, "of": inner}


def fixed_specs() -> List[Spec]:
    """a deterministic backbone so that every family is present in every run whatever the seed"""
    out: List[Spec] = [{"k": "prim", "n": n} for n in PRIMS]
    out += [{"k": "str", "layout": l} for l in ("normal", "large")] + [{"k": "bin", "layout": l} for l in ("normal", "large")]
    if HAS["string_view"]:
        out.append({"k": "str", "layout": "view"})
    if HAS["binary_view"]:
        out.append({"k": "bin", "layout": "view"})
    out += [{"k": "ts", "unit": u, "tz": z} for u in UNITS for z in (None, "UTC", "Europe/Berlin", "+05:30")]
    out += [{"k": "dec", "bits": 128, "p": p, "s": s} for p, s in ((38, 18), (10, 2), (1, 0), (38, 0), (38, 38), (5, 5))]
    out += [{"k": "dec", "bits": b, "p": 5, "s": 2} for b in (32, 64, 256) if HAS.get(f"decimal{b}")]
    out += [{"k": "dict", "idx": "int32", "val": {"k": "str", "layout": "normal"}}, {"k": "dict", "idx": "int8", "val": {"k": "str", "layout": "large"}},
            {"k": "dict", "idx": "int32", "val": {"k": "prim", "n": "int64"}}, {"k": "dict", "idx": "int16", "val": {"k": "prim", "n": "int8"}}]  # fmt: skip
    out += [{"k": "fsb", "w": 4}, {"k": "time", "bits": 32, "unit": "s"}, {"k": "time", "bits": 64, "unit": "us"}, {"k": "dur", "unit": "us"}, {"k": "interval"}]
    out += [{"k": "list", "variant": "list", "of": {"k": "prim", "n": "int64"}}, {"k": "list", "variant": "large", "of": {"k": "str", "layout": "large"}},
            {"k": "struct", "of": {"k": "prim", "n": "int64"}}, {"k": "map", "of": {"k": "prim", "n": "int64"}}]  # fmt: skip
    return out


# --------------------------------------------------------------------------------------------------------------------
# evaluation


class _Env:
    """resolved readings of the run: for 'open' types the reading the implementation's from_arrow_type takes"""

    def __init__(self, ctx: Ctx) -> None:
        self.ctx = ctx
        self.resolved: Dict[str, Optional[str]] = {}
        self.model_keys = _model_keys()

    def actual(self, s: Spec) -> Optional[str]:
        """the DataType the column is to be checked as (None = not checked)"""
        key = cjson(s)
        if key not in self.resolved:
            eval_from_arrow(self, s, record=False)
        return self.resolved[key]


def _model_keys() -> set:
    """Arrow type strings the generated Lean table Gen.fromArrowTable knows (the model can only be asked about those)"""
    try:
        src = (LEAN / "MlodaVerif" / "Gen" / "TypeTables.lean").read_text()
    except OSError:
        return set()
    m = re.search(r"def fromArrowTable[^\n]*", src)
    return set(re.findall(r'\("([^"]+)", (?:none|some)', m.group(0))) if m else set()


def eval_from_arrow(env: _Env, s: Spec, record: bool = True) -> None:
    from mloda.core.abstract_plugins.components.data_types import DataType

    ctx = env.ctx
    t = build_type(s)
    try:
        impl: Optional[str] = DataType.from_arrow_type(t).name
    except ValueError:
        impl = None
    kind, d = ref_reading(s)
    allowed = {"is": [d], "none": [None], "open": [None, d]}[kind]
    env.resolved[cjson(s)] = impl if (kind == "open" and impl in allowed) else (d if kind != "none" else None)
    if not record:
        return
    case = {"spec": s, "arrow": str(t)}
    ctx.case("spell_from_arrow", case, kind != "none" and not canonical(s), spell_family=family(s), spell_ref=kind if kind != "is" else d, spell_canonical=canonical(s))
    if impl not in allowed:
        ctx.violation(
            "spell_from_arrow",
            case,
            f"DataType.from_arrow_type({t}) gives {impl or 'ValueError(unsupported)'}; the documented DataType of this Arrow type is "
            f"{' or '.join(str(a or 'unsupported') for a in allowed)} - a typed feature producing it is {'not type-checked at all' if impl is None else 'checked as the wrong type'}",
            impl,
            allowed,
        )


def _expected(declared: Optional[str], actual: Optional[str], strict: bool) -> bool:
    """True = compatible / not checked"""
    if declared is None or actual is None:
        return True
    return doc_strict(declared, actual) if strict else doc_lenient(declared, actual)


def eval_validate(env: _Env, case: Dict[str, Any]) -> Optional[Tuple[Dict[str, Any], Dict[str, Any]]]:
    from mloda.core.abstract_plugins.components.data_types import DataType
    from mloda.core.abstract_plugins.components.feature import Feature
    from mloda.core.abstract_plugins.components.feature_set import FeatureSet
    from mloda.core.abstract_plugins.components.options import Options
    from mloda.core.abstract_plugins.components.validators.datatype_validator import DataTypeMismatchError, DataTypeValidator

    ctx = env.ctx
    cols = case["cols"]  # [{"name", "spec"}]
    table = pa.table({c["name"]: build_array(c["spec"]) for c in cols})
    fs = FeatureSet()
    for f in case["feats"]:
        fopts: Any = {}
        if f["strict"] is not None:
            fopts = Options(context={"strict_type_enforcement": f["strict"]}) if f.get("in_context") else {"strict_type_enforcement": f["strict"]}
        fs.add(Feature(f["name"], options=fopts, data_type=DataType[f["declared"]] if f["declared"] else None))
    order = [str(fo.name) for fo in fs.features]
    try:
        DataTypeValidator.validate(table, fs)
        impl: Dict[str, Any] = {"r": "ok"}
    except DataTypeMismatchError as e:
        impl = {"r": "mismatch", "col": e.feature_name, "declared": e.declared.name, "actual": e.actual.name}
    except Exception as e:  # anything else is not a documented outcome
        impl = {"r": "error:" + type(e).__name__ + ":" + str(e)[-160:]}
    spec_of = {c["name"]: c["spec"] for c in cols}
    bad: Dict[str, Tuple[str, str]] = {}
    checked = 0
    for f in case["feats"]:
        if f["name"] not in spec_of:
            continue
        act = env.actual(spec_of[f["name"]])
        if f["declared"] is not None and act is not None:
            checked += 1
        if not _expected(f["declared"], act, bool(f["strict"])):
            bad[f["name"]] = (f["declared"], act)  # type: ignore[assignment]
    noncanon = [c for c in cols if not canonical(c["spec"])]
    ctx.case("spell_validate_fn", case, checked > 0 and bool(noncanon), spell_fn_outcome=impl["r"][:8], spell_fn_expected="mismatch" if bad else "ok", spell_fn_checked=min(checked, 3))
    for c in cols:
        ctx.tag("spell_fn_family", family(c["spec"]))
    if bad:
        good = impl["r"] == "mismatch" and impl["col"] in bad and (impl["declared"], impl["actual"]) == bad[impl["col"]]
    else:
        good = impl["r"] == "ok"
    if not good:
        exp = {"r": "mismatch", "one_of": {k: {"declared": v[0], "actual": v[1]} for k, v in bad.items()}} if bad else {"r": "ok"}
        arrows = {c["name"]: str(build_type(c["spec"])) for c in cols}
        ctx.violation("spell_validate_fn", case, f"DataTypeValidator.validate on schema {arrows} gave {impl}; the documented tables applied to the documented DataType of each column say {exp}", impl, exp)
    arrows_l = [str(build_type(c["spec"])) for c in cols]
    if all(a in env.model_keys for a in arrows_l):
        by = {f["name"]: f for f in case["feats"]}
        req = {"op": "C17.validate", "cols": [{"name": c["name"], "arrow": a} for c, a in zip(cols, arrows_l)],
               "feats": [{"name": nm, "declared": by[nm]["declared"], "strict": by[nm]["strict"]} for nm in order], "apiStrict": False}  # fmt: skip
        return req, impl
    return None


def eval_e2e(env: _Env, c: Dict[str, Any]) -> Optional[Tuple[Dict[str, Any], str]]:
    from mloda.core.abstract_plugins.components.data_types import DataType
    from mloda.core.abstract_plugins.components.feature import Feature
    from mloda.core.abstract_plugins.components.options import Options
    from mloda.user import mloda
    from mloda_plugins.compute_framework.base_implementations.pyarrow.table import PyArrowTable

    ctx = env.ctx
    colspec: Dict[str, Spec] = {"x": c["spec"]}
    if c.get("sibling"):
        colspec["u"] = c["sibling"]  # an undeclared column of the same group: never checked, whatever its type

    def calc(cls: Any, data: Any, features: Any) -> Any:
        want = features.get_all_names()
        return pa.table({nm: build_array(sp) for nm, sp in colspec.items() if nm in want})

    root = F.make_group(F.uniq("T17s_"), root_data={nm: [0, 0] for nm in colspec}, extra={"calculate_feature": classmethod(calc)})
    src = c["source"]
    opts: Any = {}
    if src == "option":
        opts = {"strict_type_enforcement": True}
    elif src == "option_context":
        opts = Options(context={"strict_type_enforcement": True})
    feats: List[Any] = [Feature("x", options=opts, data_type=DataType[c["declared"]] if c["declared"] else None)]
    if c.get("sibling"):
        feats.append(Feature("u"))
    try:
        res = mloda.run_all(feats, compute_frameworks={PyArrowTable}, plugin_collector=F.collector({root}), strict_type_enforcement=(src == "api"))
        impl = "ok"
        got = sorted(sum([F.columns_of(r) for r in res], []))
        if got != sorted(colspec):
            impl = f"ok-but-columns {got}"
    except Exception as e:  # mloda wraps worker errors in Exception(exc_info, msg)
        s = repr(e) + str(e)
        impl = "mismatch" if ("DataTypeMismatchError" in s or "coercion not supported" in s) else "error:" + type(e).__name__ + ":" + s[-200:]
    strict = src in ("option", "option_context", "api")
    act = env.actual(c["spec"])
    exp = "ok" if _expected(c["declared"], act, strict) else "mismatch"
    arrow = str(build_type(c["spec"]))
    ctx.case("spell_e2e", c, c["declared"] is not None and act is not None and not canonical(c["spec"]),
             spell_e2e_family=family(c["spec"]), spell_e2e_source=src, spell_e2e_expected=exp, spell_e2e_actual=act or "unsupported")  # fmt: skip
    if impl != exp:
        ctx.violation(
            "spell_e2e",
            c,
            f"run_all ({src}) with declared {c['declared']} and a produced column of Arrow type {arrow} (documented DataType {act or 'unsupported'}): outcome {impl!r}, property says {exp!r}",
            impl,
            exp,
        )
    arrows = {nm: str(build_type(sp)) for nm, sp in colspec.items()}
    if all(a in env.model_keys for a in arrows.values()):
        req = {"op": "C17.validate", "cols": [{"name": nm, "arrow": a} for nm, a in arrows.items()],
               "feats": [{"name": "x", "declared": c["declared"], "strict": True if src in ("option", "option_context") else None}]
               + ([{"name": "u", "declared": None, "strict": None}] if c.get("sibling") else []), "apiStrict": src == "api"}  # fmt: skip
        return req, impl
    return None


def _pick_declared(rng: Any, act: Optional[str]) -> Optional[str]:
    """aimed at the cells of the tables: equal / lenient-only / strict-widening / incompatible / undeclared"""
    r = rng.random()
    if r < 0.08:
        return None
    if act is None or r < 0.45:
        return rng.choice(NAMES)  # mostly incompatible: this is where "not checked" and "checked" differ
    if r < 0.65:
        return act
    near = [d for d in NAMES if d != act and doc_lenient(d, act)]
    return rng.choice(near) if near else rng.choice(NAMES)


# --------------------------------------------------------------------------------------------------------------------


def run(ctx: Ctx) -> None:
    env = _Env(ctx)
    rng = ctx.rng

    # ---- spell_from_arrow ---------------------------------------------------------------------------------------
    specs = fixed_specs() + [gen_spec(rng) for _ in range(ctx.budget(250, 4000))]
    uniq: Dict[str, Spec] = {}
    for s in specs:
        uniq.setdefault(cjson(s), s)
    specs = list(uniq.values())
    for s in specs:
        eval_from_arrow(env, s)
    for s in specs:
        kind, d = ref_reading(s)
        if kind == "open":
            ctx.tag("spell_open_reading", f"{family(s)}->{env.resolved[cjson(s)] or 'unsupported'}")

    lean_reqs: List[Dict[str, Any]] = []
    lean_impls: List[Tuple[str, Any, Any]] = []

    def keep(suite: str, case: Any, r: Optional[Tuple[Dict[str, Any], Any]]) -> None:
        if r is not None:
            lean_reqs.append(r[0])
            lean_impls.append((suite, case, r[1]))

    # ---- spell_validate_fn --------------------------------------------------------------------------------------
    checkable = [s for s in specs if ref_reading(s)[0] != "none"]
    noncanon = [s for s in checkable if not canonical(s)]
    by_family: Dict[str, Dict[str, List[Spec]]] = {"is": {}, "open": {}}
    for s in noncanon:
        by_family[ref_reading(s)[0]].setdefault(family(s), []).append(s)

    def pick() -> Spec:
        """family first (so that the single large_string spec is not drowned by the many distinct decimals), then a spec of it"""
        r = rng.random()
        if r < 0.6:
            return rng.choice(by_family["is"][rng.choice(sorted(by_family["is"]))])
        if r < 0.8 and by_family["open"]:
            return rng.choice(by_family["open"][rng.choice(sorted(by_family["open"]))])
        return rng.choice(specs)

    for _ in range(ctx.budget(400, 8000)):
        ncols = rng.randint(1, 4)
        cols = [{"name": f"c{i}", "spec": pick()} for i in range(ncols)]
        feats = []
        for i in rng.sample(range(5), rng.randint(1, 4)):
            act = env.actual(cols[i]["spec"]) if i < ncols else None
            strict = rng.choice([None, None, True, False])
            feats.append({"name": f"c{i}", "declared": _pick_declared(rng, act), "strict": strict, "in_context": strict is not None and rng.random() < 0.5})
        case = {"cols": cols, "feats": feats}
        keep("spell_validate_fn", case, eval_validate(env, case))

    # ---- spell_e2e -----------------------------------------------------------------------------------------------
    plan: List[Dict[str, Any]] = []
    sources = ["lenient", "option", "api", "option_context"]
    # every supported non-canonical family of the backbone once with an incompatible and once with an equal declaration ...
    seen_fam: Dict[str, Spec] = {}
    for s in noncanon:
        seen_fam.setdefault(family(s), s)
    for fam, s in sorted(seen_fam.items()):
        act = env.actual(s)
        if act is None:
            continue
        wrong = rng.choice([d for d in NAMES if not doc_lenient(d, act)])
        plan.append({"spec": s, "declared": wrong, "source": rng.choice(sources), "sibling": None})
        plan.append({"spec": s, "declared": act, "source": rng.choice(sources), "sibling": None})
    # ... and a random sample over everything
    for _ in range(ctx.budget(220, 4000)):
        s = pick()
        sib = pick() if rng.random() < 0.3 else None
        plan.append({"spec": s, "declared": _pick_declared(rng, env.actual(s)), "source": rng.choice(sources), "sibling": sib})
    for c in plan:
        keep("spell_e2e", c, eval_e2e(env, c))

    # ---- model vs implementation on the cases the generated table covers -----------------------------------------
    outs = ctx.lean.batch(lean_reqs)
    for (suite, case, impl), o in zip(lean_impls, outs):
        if suite == "spell_validate_fn":
            same = impl == o
        else:
            same = (impl if impl in ("ok", "mismatch") else "other") == o.get("r")
        if not same:
            ctx.disagree(suite, case, impl, o)
    ctx.tag("spell_model_compared", "cases", len(lean_reqs))


def search(ctx: Ctx, broken: List[str]) -> None:
    run(ctx)


def replay(ctx: Ctx, body: Dict[str, Any]) -> None:
    env = _Env(ctx)
    case, suite = body.get("case"), body.get("suite")
    if suite == "spell_from_arrow" and isinstance(case, dict) and "spec" in case:
        eval_from_arrow(env, case["spec"])
    elif suite == "spell_validate_fn" and isinstance(case, dict) and "cols" in case:
        eval_validate(env, case)
    elif suite == "spell_e2e" and isinstance(case, dict) and "spec" in case:
        eval_e2e(env, case)
    else:
        run(ctx)
