"""C18 extension `samename`: link universes in which two DIFFERENT feature group classes carry the same `__name__`.

Python allows (and plugin practice produces) several classes of one name: regional packages that each ship an `Orders`
reader, a plugin overridden under its own name (`class Orders(base.Orders)`), a notebook cell that is run twice.  The
property speaks about CLASSES ("an exact-class link if one exists, otherwise only links whose sides are ancestors ... never
a sibling mismatch"), so the class object decides, never its name.  The main C18 suites give every class of a hierarchy a
unique name (colliding names only occur in the flat validation suites), hence "same name" and "same class" coincide there.

Input class generated here: a forest of real FeatureGroup subclasses (built with type(name, bases, ns), every class in its
own `__module__` / `__qualname__` namespace) with one or two groups of classes that share `__name__`, the members of a
group being related as
    override       a class named like its direct base
    deep-override  a class named like its grandparent
    sibling        two children of one base
    cousin         same tree, neither ancestor nor sibling
    unrelated      different trees (two roots included)
and link sets of all six join types declared on the twin of the concrete class, on the class itself, on ancestors of
either, between the twins, and as self links.

  samename_match   ResolveLinks._find_matching_links on EVERY ordered class pair of the universe (+ Link.matches_exact /
                   matches_polymorphic / matches per link), compared with the Lean model (op C18.find: classes are ids, the
                   colliding names are passed in) and judged by the oracle of the property text (c18.o_links on class ids)
  samename_e2e     mloda.prepare/run of a consumer of one feature of class x (member of a name group) and one of class y, the
                   link set passed through the API: links attached to the consumer (ResolveLinks.link_trekker), JoinSteps of
                   the prepared plan, joined rows received by the consumer; judged by the same oracle (+ c18.judge_e2e)
"""
from __future__ import annotations

import os
import shutil
import tempfile
from typing import Any, Dict, List, Optional, Sequence, Set, Tuple

from harness import fgfactory as F
from harness.core import Ctx
from harness.corr import c18 as M

SUITES = {"samename_match", "samename_e2e"}

ASSUMPTIONS = [
    "samename: the link set judged is the Python set actually handed to mloda (Link.__eq__/__hash__ compare class names, so of two links that differ "
    "only in same-named classes one survives set construction; which one is read back from the set, as in the main suites)",
    "samename_e2e: synchronous mode, links through the API argument only; classes live in per-class pseudo modules (never pickled)",
]

KINDS = ["override", "deep-override", "sibling", "cousin", "unrelated"]
KIND_WEIGHTS = [4, 1, 4, 1, 3]

# ------------------------------------------------------------------------------------------------
# universes


def rel_kind(parents: Sequence[Optional[int]], a: int, b: int) -> str:
    """how two different classes are related in the forest (from the parent array only)"""
    for lo, hi in ((a, b), (b, a)):
        d = M.o_dist(parents, lo, hi)
        if d is not None:
            return "override" if d == 1 else "deep-override"
    if parents[a] is not None and parents[a] == parents[b]:
        return "sibling"
    if set(M.chain(parents, a)) & set(M.chain(parents, b)):
        return "cousin"
    return "unrelated"


_PAIRS_CACHE: Dict[Tuple, Dict[str, List[Tuple[int, int]]]] = {}


def pairs_by_kind(parents: Sequence[Optional[int]]) -> Dict[str, List[Tuple[int, int]]]:
    key = tuple(parents)
    out = _PAIRS_CACHE.get(key)
    if out is None:
        out = {}
        for a in range(len(parents)):
            for b in range(a + 1, len(parents)):
                out.setdefault(rel_kind(parents, a, b), []).append((a, b))
        _PAIRS_CACHE[key] = out
    return out


def pool_by_kind(pool: List[List[Optional[int]]]) -> Dict[str, List[List[Optional[int]]]]:
    out: Dict[str, List[List[Optional[int]]]] = {k: [] for k in KINDS}
    for p in pool:
        for k in pairs_by_kind(p):
            out[k].append(p)
    return out


class SNUniverse:
    """real FeatureGroup subclasses for a parent array; `names` may repeat - every class gets its own module/qualname"""

    def __init__(self, parents: Sequence[Optional[int]], names: Sequence[str]):
        from mloda.core.abstract_plugins.feature_group import FeatureGroup

        self.parents = list(parents)
        self.names = list(names)
        self.idx: List[Any] = [None] * len(parents)
        self.classes: List[type] = []
        for c, p in enumerate(parents):
            base = FeatureGroup if p is None else self.classes[p]
            ns = {"__module__": f"{F.MODNAME}.ns{c}", "__qualname__": f"ns{c}.{names[c]}"}
            self.classes.append(type(names[c], (base,), ns))

    def hier_json(self) -> Dict[str, Any]:
        return {"parents": self.parents, "names": self.names, "idx": self.idx}


def assign_names(rng: Any, parents: Sequence[Optional[int]], kind: str) -> Tuple[List[str], List[List[int]], Tuple[int, int]]:
    """names with 1-2 groups of same-named classes; the first group contains a pair of the requested kind"""
    n = len(parents)
    names = [F.uniq(f"U{c}_") for c in range(n)]
    a, b = rng.choice(pairs_by_kind(parents)[kind])
    if rng.random() < 0.5:
        a, b = b, a
    g1 = [a, b]
    rest = [c for c in range(n) if c not in g1]
    if rest and rng.random() < 0.25:
        g1.append(rng.choice(rest))
        rest = [c for c in rest if c not in g1]
    groups = [g1]
    if len(rest) >= 2 and rng.random() < 0.3:
        groups.append(rng.sample(rest, 2))
    for g in groups:
        nm = F.uniq("Orders")
        for c in g:
            names[c] = nm
    return names, [sorted(g) for g in groups], (a, b)


def weighted(rng: Any, items: Sequence[Any], bias_first: float) -> Any:
    """first element with probability `bias_first`, else uniform"""
    return items[0] if rng.random() < bias_first else rng.choice(list(items))


def gen_links(rng: Any, parents: Sequence[Optional[int]], x: int, t: int, y: int, k: int, jts: Sequence[str], idx: Optional[Sequence[str]], no_self_on: Sequence[int] = ()) -> List[Dict[str, Any]]:
    """link specs around the concrete pair (x, y), t = the same-named twin of x.  idx None: every link its own index
    (no two links are `==`), else indexes drawn from `idx` (links over same-named classes may collapse in the set)."""
    nc = len(parents)
    cx, ct, cy = M.chain(parents, x), M.chain(parents, t), M.chain(parents, y)
    out: List[Dict[str, Any]] = []
    for i in range(k):
        r = rng.random()
        if out and r < 0.12:  # variation of an earlier link: other class of the same name / retype / reverse
            b = rng.choice(out)
            s = dict(b, uid=i)
            m = rng.choice(["twin", "type", "rev"])
            if m == "twin":
                sw = {x: t, t: x}
                s["l"], s["r"] = sw.get(b["l"], b["l"]), sw.get(b["r"], b["r"])
            elif m == "type":
                s["jt"] = rng.choice(list(jts))
            else:
                s["l"], s["r"], s["li"], s["ri"] = b["r"], b["l"], b["ri"], b["li"]
            if idx is None:
                s["li"] = [f"k{i}"]
            out.append(s)
            continue
        if r < 0.45:  # declared for the twin (or an ancestor of it)
            l_, r_ = weighted(rng, ct, 0.7), weighted(rng, cy, 0.6)
        elif r < 0.72:  # declared for the class itself / its ancestors
            l_, r_ = weighted(rng, cx, 0.5), weighted(rng, cy, 0.5)
        elif r < 0.8:  # between the twins
            l_, r_ = (x, t) if rng.random() < 0.5 else (t, x)
        elif r < 0.9:  # self link
            c = rng.choice(ct + cx)
            l_, r_ = c, c
        else:
            l_, r_ = rng.randrange(nc), rng.randrange(nc)
        if r < 0.72 and rng.random() < 0.3:
            l_, r_ = r_, l_
        li = (f"k{i}",) if idx is None else (rng.choice(list(idx)),)
        ri = ("k",) if idx is None else (rng.choice(list(idx)),)
        out.append(M.lspec(i, l_, r_, jt=rng.choice(list(jts)), li=li, ri=ri))
    # end to end a self link on a concrete requested class drags further index features of that class into the consumer (the pair
    # (x, x) appears next to (x, y); planner limits, see the main suite) - such links are re-aimed at the twin / the partner chain
    for s in out:
        for _ in range(8):
            if not (s["l"] == s["r"] and s["l"] in no_self_on):
                break
            s["l"], s["r"] = weighted(rng, ct, 0.7), weighted(rng, cy, 0.6)
    return [s for s in out if not (s["l"] == s["r"] and s["l"] in no_self_on)]


# ------------------------------------------------------------------------------------------------
# oracle pieces (class ids only - names never enter)


def name_exact_only(names: Sequence[str], l: Dict[str, Any], x: int, y: int) -> bool:
    """the link's classes are NAMED like (x, y) but at least one side is another class"""
    return names[l["l"]] == names[x] and names[l["r"]] == names[y] and not (l["l"] == x and l["r"] == y)


def rel_words(parents: Sequence[Optional[int]], link_cls: int, concrete: int) -> str:
    """how a link class that is NOT the concrete class or an ancestor of it relates to the concrete class"""
    if M.o_dist(parents, link_cls, concrete) is not None:
        return "a descendant of the concrete class"
    k = rel_kind(parents, link_cls, concrete)
    return {"sibling": "a sibling of the concrete class", "cousin": "a cousin of the concrete class"}.get(k, "unrelated to the concrete class")


def bucket(n: int) -> str:
    return "0" if n == 0 else ("1-2" if n <= 2 else ("3-9" if n <= 9 else "10+"))


def qn(case: Dict[str, Any], c: int) -> str:
    return f"#{c}:ns{c}.{case['names'][c]}"


# ------------------------------------------------------------------------------------------------
# function level


def eval_match(ctx: Ctx, suite: str, cases: List[Dict[str, Any]]) -> None:
    from mloda.core.prepare.resolve_links import ResolveLinks

    for block in M.chunks(cases, 600):
        reqs: List[Dict[str, Any]] = []
        metas: List[Tuple[Dict[str, Any], List[Dict[str, Any]], List[List[int]], List[List[int]], List[Any]]] = []
        for c in block:
            u = SNUniverse(c["parents"], c["names"])
            objs = [M.mk_link(u, s) for s in c["links"]]
            sp = {id(o): s for o, s in zip(objs, c["links"])}
            lset: Set[Any] = set()
            for o in objs:
                lset.add(o)
            members = list(lset)  # the set's real iteration order
            order = [sp[id(o)] for o in members]
            resolver = ResolveLinks(None, lset)  # type: ignore[arg-type]
            pairs = M.all_pairs(len(c["parents"]))
            res: List[List[int]] = []
            preds: List[Any] = []
            for x, y in pairs:
                X, Y = u.classes[x], u.classes[y]
                res.append([sp[id(l)]["uid"] for l in resolver._find_matching_links(X, Y)])
                preds.append([[bool(o.matches_exact(X, Y)), bool(o.matches_polymorphic(X, Y)), bool(o.matches(X, Y))] for o in members])
            reqs.append({"op": "C18.find", **u.hier_json(), "links": order, "pairs": pairs})
            metas.append((c, order, pairs, res, preds))
        outs = ctx.lean.batch(reqs)
        for (c, order, pairs, res, preds), o in zip(metas, outs):
            parents, names = c["parents"], c["names"]
            case = {**c, "links": order}
            by = {l["uid"]: l for l in order}
            n_name_only = 0  # (pair, link) combinations where name equality and class identity part ways
            n_pairs_hit = 0
            npoly = nasym = 0
            for (x, y), got, pr, mo in zip(pairs, res, preds, o):
                pcase = {**case, "pair": [x, y]}
                if got != mo["m"]:
                    ctx.disagree(suite, pcase, got, mo["m"])
                hit = [l["uid"] for l in order if name_exact_only(names, l, x, y)]
                n_name_only += len(hit)
                n_pairs_hit += 1 if hit else 0
                exp = M.o_links(parents, order, x, y)
                gs = set(got)
                exact = {l["uid"] for l in order if l["l"] == x and l["r"] == y}
                if not exact and gs:
                    npoly += 1
                reported = False
                for uid in sorted(gs):
                    l = by[uid]
                    dl, dr = M.o_dist(parents, x, l["l"]), M.o_dist(parents, y, l["r"])
                    if dl is None or dr is None:  # never a sibling / unrelated class, whatever it is called
                        side = "left" if dl is None else "right"
                        ctx.violation(
                            suite, pcase,
                            f"link {uid} declared for ({qn(case, l['l'])}, {qn(case, l['r'])}) is used for the pair ({qn(case, x)}, {qn(case, y)}): its {side} class is neither the concrete class nor one of its ancestors"
                            f" (it is {rel_words(parents, l['l'] if dl is None else l['r'], x if dl is None else y)}{', the link classes are merely NAMED like the pair' if name_exact_only(names, l, x, y) else ''}) - sibling/unrelated mismatch",
                            sorted(gs), sorted(exp),
                        )
                        reported = True
                    elif l["l"] == l["r"] and x != y:
                        ctx.violation(suite, pcase, f"self link {uid} on {qn(case, l['l'])} used for two different classes ({x},{y}) - sibling mismatch", sorted(gs), sorted(exp))
                        reported = True
                if exact and gs != exact and not reported:
                    ctx.violation(suite, pcase, f"an exact-class link exists for ({qn(case, x)}, {qn(case, y)}) (links {sorted(exact)}) but the links used are {sorted(gs)} - the exact-class link must be used alone", sorted(gs), sorted(exact))
                    reported = True
                if gs != exp and not reported:
                    asym = [l["uid"] for l in order if M.o_asymmetric(parents, l, x, y)]
                    cls = None
                    if asym and got == mo["m"] and not exact and (gs - exp) <= set(asym):
                        cls = "asymmetric-polymorphic-match"  # known finding F-C18-asymmetric, same predicate as the main suite
                        nasym += 1
                    ctx.violation(suite, pcase, f"links used for pair ({x},{y}) are {sorted(gs)}, property says {sorted(exp)}", sorted(gs), sorted(exp), finding_class=cls)
                # the public predicates, link by link
                for l, (pe, pp, pm) in zip(order, pr):
                    e_exact = l["l"] == x and l["r"] == y
                    e_poly = M.o_dist(parents, x, l["l"]) is not None and M.o_dist(parents, y, l["r"]) is not None
                    if pe != e_exact:
                        ctx.violation(suite, pcase, f"Link.matches_exact of link {l['uid']} ({qn(case, l['l'])}, {qn(case, l['r'])}) for classes ({qn(case, x)}, {qn(case, y)}) is {pe}; exact means the same class objects: {e_exact}", pe, e_exact)
                    if pp != e_poly or pm != (e_exact or e_poly):
                        ctx.violation(suite, pcase, f"Link.matches_polymorphic/matches of link {l['uid']} for classes ({x},{y}) = {pp}/{pm}, hierarchy says {e_poly}/{e_exact or e_poly}", [pp, pm], [e_poly, e_exact or e_poly])
            ctx.case(
                suite, case, n_name_only > 0,
                sn_kind=c.get("kind"), sn_groups=len(c.get("groups", [])), sn_name_exact_not_identity=bucket(n_name_only), sn_pairs_name_only=bucket(n_pairs_hit),
                sn_collapsed=len(c["links"]) - len(order), sn_polymorphic_pairs=bucket(npoly),
            )
            ctx.evaluations += len(pairs) - 1
            if nasym:
                ctx.tag("asymmetric_pairs", suite, nasym)


def gen_match_cases(ctx: Ctx, n: int) -> List[Dict[str, Any]]:
    pool = pool_by_kind(M.forests(2, 3, 2, 7) + M.forests(3, 2, 2, 7))
    cases: List[Dict[str, Any]] = []
    for _ in range(n):
        kind = ctx.rng.choices(KINDS, KIND_WEIGHTS)[0]
        parents = ctx.rng.choice(pool[kind])
        names, groups, (x, t) = assign_names(ctx.rng, parents, kind)
        nc = len(parents)
        # partner class: mostly not related to x (a "Customers" next to the "Orders"), sometimes anything (the twin included)
        unrel = [c for c in range(nc) if c != x and rel_kind(parents, x, c) == "unrelated"]
        y = ctx.rng.choice(unrel) if unrel and ctx.rng.random() < 0.7 else ctx.rng.randrange(nc)
        idx = None if ctx.rng.random() < 0.7 else ["k1", "k2"]
        links = gen_links(ctx.rng, parents, x, t, y, ctx.rng.randint(1, 4), M.JTS, idx)
        cases.append({"parents": parents, "names": names, "groups": groups, "kind": kind, "focus": [x, t, y], "links": links})
    return cases


# ------------------------------------------------------------------------------------------------
# end to end


def e2e_classes(parents: Sequence[Optional[int]], names: Sequence[str]) -> List[type]:
    """like c18.e2e_universe (class c returns keys k1,k2 and its value column v<c>) but with the given, possibly repeating, class names"""
    from mloda.core.abstract_plugins.feature_group import FeatureGroup

    classes: List[type] = []
    for c, p in enumerate(parents):
        cols = M.e2e_data(c)

        def calc(cls: Any, data: Any, features: Any, cols: Dict[str, List[int]] = cols) -> Any:
            F.log_event(ev="calc", group=cls.__qualname__)
            return F.from_columns(cols, F._fw_of(features))

        classes.append(
            F.make_group(
                names[c], root_data={k: [0] for k in cols}, index_columns=[("k1",), ("k2",)], bases=(FeatureGroup if p is None else classes[p],),
                extra={"calculate_feature": classmethod(calc), "__module__": f"{F.MODNAME}.ns{c}", "__qualname__": f"ns{c}.{names[c]}"},
            )
        )
    return classes


class AttachedSpy:
    """records the ResolveLinks objects of a prepare (harness-side wrapper, restored on exit) - `link_trekker.data` holds the
    links that link resolution attached to a consumer, also when the planner later drops the join or prepare fails"""

    def __enter__(self) -> "AttachedSpy":
        from mloda.core.prepare.resolve_links import ResolveLinks

        self.cls = ResolveLinks
        self.orig = ResolveLinks.resolve_links
        self.seen: List[Any] = []
        spy = self

        def wrapped(rl: Any) -> None:
            try:
                spy.orig(rl)
            finally:
                spy.seen.append(rl)

        ResolveLinks.resolve_links = wrapped  # type: ignore[method-assign]
        return self

    def __exit__(self, *a: Any) -> None:
        self.cls.resolve_links = self.orig  # type: ignore[method-assign]

    def parent_pairs(self, classes: List[type]) -> List[List[int]]:
        """ordered pairs of (universe) classes that are two different parent features of one consumer in the resolved graph - the
        pairs of feature groups the property speaks about (beside (x, y) the engine's own index features can add (x, x) / (y, y))"""
        if not self.seen:
            return []
        g = self.seen[-1].graph
        nodes = g.get_nodes()
        ix = {id(c): i for i, c in enumerate(classes)}
        out: Set[Tuple[int, int]] = set()
        for _child, parents in g.parent_to_children_mapping.items():
            for a in parents:
                for b in parents:
                    if a == b:
                        continue
                    ia, ib = ix.get(id(nodes[a].feature_group_class)), ix.get(id(nodes[b].feature_group_class))
                    if ia is not None and ib is not None:
                        out.add((ia, ib))
        return [list(p) for p in sorted(out)]

    def attached(self, classes: List[type], order: List[Dict[str, Any]]) -> Optional[List[int]]:
        if not self.seen:
            return None
        out = []
        for key in self.seen[-1].link_trekker.data.keys():
            link = key[0]
            uid = -1
            for s in order:
                if (
                    s["jt"] == link.jointype.value and classes[s["l"]] is link.left_feature_group and classes[s["r"]] is link.right_feature_group
                    and tuple(s["li"]) == tuple(link.left_index.index) and tuple(s["ri"]) == tuple(link.right_index.index)
                ):
                    uid = s["uid"]
            out.append(uid)
        return sorted(set(out))


def gen_e2e_cases(ctx: Ctx, n: int) -> List[Dict[str, Any]]:
    pool = pool_by_kind([p for p in M.forests(2, 3, 2, 6) + M.forests(3, 2, 2, 5) if len(p) >= 2])
    cases: List[Dict[str, Any]] = []
    while len(cases) < n:
        kind = ctx.rng.choices(KINDS, KIND_WEIGHTS)[0]
        parents = ctx.rng.choice(pool[kind])
        names, groups, (x, t) = assign_names(ctx.rng, parents, kind)
        nc = len(parents)
        unrel = [c for c in range(nc) if c != x and rel_kind(parents, x, c) == "unrelated" and names[c] != names[x]]
        r = ctx.rng.random()
        if r < 0.1 or (not unrel and r < 0.5):
            y = t  # the consumer reads both same-named classes
        elif unrel:
            y = ctx.rng.choice(unrel)
        else:
            y = ctx.rng.choice([c for c in range(nc) if c != x])
        jts = ["inner", "inner", "inner", "left", "left", "outer", "outer", "right"] if ctx.rng.random() < 0.95 else ["append", "union"]
        links = gen_links(ctx.rng, parents, x, t, y, ctx.rng.choice([1, 1, 2, 2, 3]), jts, ["k1", "k2"], no_self_on=(x, y))
        if not links:
            continue
        cases.append({"parents": parents, "names": names, "groups": groups, "kind": kind, "x": x, "y": y, "twin": t, "links": links, "via": "api", "fw": ctx.rng.randrange(3)})
    return cases


RUN_TIMEOUT_S = 20.0


def guarded_run(session: Any) -> str:
    """session.run() in a helper thread: 'ok' / 'error' / 'timeout' (the synchronous runner spins for ever on a plan whose joins
    can never become ready - a wrong plan must not hang the check)"""
    import threading

    box: Dict[str, Any] = {}

    def target() -> None:
        try:
            session.run()
            box["r"] = "ok"
        except BaseException as e:  # noqa: BLE001
            box["r"] = "error"
            box["msg"] = str(e)[-200:]

    th = threading.Thread(target=target, daemon=True)
    th.start()
    th.join(RUN_TIMEOUT_S)
    return "timeout" if th.is_alive() else box.get("r", "error")


def e2e_prepare_run(ctx: Ctx, classes: List[type], c: Dict[str, Any], fw: Any) -> Tuple[Dict[str, Any], Optional[List[int]], List[List[int]]]:
    """prepare the consumer Z of v<x>, v<y> with the link set passed to the API (set semantics as in c18.e2e_run); observe the
    links attached by link resolution and the JoinSteps; the plan is RUN only when both are what the property demands (joined rows
    are judged for right plans only; a wrong plan is already a violation and may not terminate)"""
    from mloda.user import mloda
    from mloda.core.abstract_plugins.components.feature import Feature
    from mloda.core.core.step.join_step import JoinStep

    parents, x, y = c["parents"], c["x"], c["y"]
    u = SNUniverse.__new__(SNUniverse)
    u.classes = classes
    objs = [M.mk_link(u, s) for s in c["links"]]
    sp = {id(o): s for o, s in zip(objs, c["links"])}
    api_links: Set[Any] = set()
    for o in objs:
        api_links.add(o)
    order = [sp[id(o)] for o in api_links]
    uid_of = {str(o.uuid): sp[id(o)]["uid"] for o in api_links}
    Z = M.e2e_consumer([(f"v{x}", None), (f"v{y}", None)])
    log = os.path.join(ctx.extra["_tmp"], "events.jsonl")
    open(log, "w").close()
    os.environ[F.LOG_ENV] = log
    res: Dict[str, Any] = {"order": order}
    session = None
    with AttachedSpy() as spy:
        try:
            session = mloda.prepare([Feature("z")], compute_frameworks={fw}, links=api_links, plugin_collector=F.collector({classes[x], classes[y], Z}))
            res["prepare"] = "ok"
        except Exception as e:  # noqa: BLE001 - a rejection at prepare is a legitimate outcome
            k = M.classify_validator_error(e) if isinstance(e, ValueError) else "other"
            msg = str(e)
            if k in ("double", "conflict", "right", "jointype"):
                res["prepare"] = "validator:" + k
            elif "Conflicting join types" in msg:
                res["prepare"] = "resolve-conflict"
            elif "No feature groups found" in msg:
                res["prepare"] = "no-feature-group"
            else:
                res["prepare"] = "other-planner-error"
                res["msg"] = msg[:160]
            res["events_before_reject"] = len(M.read_events(log))
        att = spy.attached(classes, order)
        ppairs = spy.parent_pairs(classes)
    if session is None:
        return res, att, ppairs
    steps = [s for s in session.engine.execution_planner.execution_plan if isinstance(s, JoinStep)]
    res["joins"] = sorted(uid_of.get(str(s.link.uuid), -1) for s in steps)
    exp_att: Set[int] = set()
    for p, q in ppairs:
        exp_att |= M.o_links(parents, order, p, q)
    exp_joins = M.o_links(parents, order, x, y) | M.o_links(parents, order, y, x)
    if att is None or set(att) != exp_att or set(res["joins"]) != exp_joins:
        res["run"] = "not-run-wrong-plan"
        return res, att, ppairs
    res["run"] = guarded_run(session)
    cons = [e for e in M.read_events(log) if e.get("ev") == "consume"]
    if cons and res["run"] == "ok":
        res["vcols"] = cons[-1]["vcols"]
        res["rows"] = cons[-1]["rows"]
    return res, att, ppairs


def eval_e2e(ctx: Ctx, suite: str, cases: List[Dict[str, Any]]) -> None:
    fws = [F.PandasDataFrame, F.PythonDictFramework, F.PyArrowTable]
    runs = []
    reqs = []
    for c in cases:
        classes = e2e_classes(c["parents"], c["names"])
        res, att, ppairs = e2e_prepare_run(ctx, classes, c, fws[c["fw"]])
        runs.append((res, att, ppairs))
        hj = {"parents": c["parents"], "names": c["names"], "idx": []}
        reqs.append({"op": "C18.validate", **hj, "links": res["order"]})
        reqs.append({"op": "C18.find", **hj, "links": res["order"], "pairs": [[c["x"], c["y"]], [c["y"], c["x"]]] + ppairs})
    outs = ctx.lean.batch(reqs)
    for k, (c, (res, att, ppairs)) in enumerate(zip(cases, runs)):
        mv, mf = outs[2 * k], outs[2 * k + 1]
        parents, names, x, y, order = c["parents"], c["names"], c["x"], c["y"], res["order"]
        case = {**c, "links": order}
        by = {l["uid"]: l for l in order}
        hits = sum(1 for l in order for p, q in ((x, y), (y, x)) if name_exact_only(names, l, p, q))
        ctx.case(suite, case, hits > 0, sn_e2e_kind=c["kind"], sn_e2e_prepare=res["prepare"], sn_e2e_run=res.get("run"), sn_e2e_name_exact_not_identity=bucket(hits), sn_e2e_partner="twin" if y == c["twin"] else "other", sn_e2e_collapsed=len(c["links"]) - len(order))
        # --- links attached to the consumer by link resolution
        if att is not None and res["prepare"] in ("ok", "resolve-conflict", "other-planner-error", "no-feature-group"):
            res["attached"] = att
            res["parent_pairs"] = ppairs
            if [x, y] not in ppairs or [y, x] not in ppairs:
                ctx.note(f"samename_e2e: consumer parents of a case are not (x, y): {ppairs} vs {[x, y]}")
            model_att = sorted({u for m in mf[2:] for u in m["m"]})
            exp: Set[int] = set()
            for p, q in ppairs:
                exp |= M.o_links(parents, order, p, q)
            extra_pairs = [pq for pq in ppairs if pq not in ([x, y], [y, x])]
            if extra_pairs:
                ctx.tag("sn_e2e_extra_parent_pairs", "yes")
            if att != model_att:
                ctx.disagree(suite, {**case, "what": "attached"}, att, model_att)
            reported = False
            for uid in att:
                l = by.get(uid)
                if l is None:
                    ctx.violation(suite, case, "a link that is not in the link set was attached to the consumer", att, sorted(exp))
                    reported = True
                    continue
                ok = False
                for p, q in ppairs:
                    if M.o_dist(parents, p, l["l"]) is not None and M.o_dist(parents, q, l["r"]) is not None:
                        ok = True
                if not ok:
                    ctx.violation(
                        suite, case,
                        f"link {uid} declared for ({qn(case, l['l'])}, {qn(case, l['r'])}) was attached to the consumer of ({qn(case, x)}, {qn(case, y)}): for no ordered pair of the consumer's parent classes are both link classes the concrete class or one of its ancestors - sibling/unrelated mismatch",
                        res, sorted(exp),
                    )
                    reported = True
            if set(att) != exp and not reported:
                asym = {l["uid"] for l in order if any(M.o_asymmetric(parents, l, p, q) for p, q in ppairs)}
                cls = "asymmetric-polymorphic-match" if asym and (set(att) - exp) <= asym and att == model_att else None
                ctx.violation(suite, case, f"links attached to the consumer with parent class pairs {ppairs}: {att}, property says {sorted(exp)}", res, sorted(exp), finding_class=cls)
        # --- validation, JoinSteps of the plan, joined rows: the main suite's end-to-end judge
        M.judge_e2e(ctx, suite, case, parents, x, y, order, res, mv, mf, "api")


# ------------------------------------------------------------------------------------------------


def run(ctx: Ctx) -> None:
    ctx.extra["rule_samename"] = (
        "samename_match: forests up to 7 classes with 1-2 groups of classes sharing __name__ (override/deep-override/sibling/cousin/unrelated), 1-4 links "
        "(6 join types) declared on the twin / the class / ancestors / between twins / self links; every ordered class pair is evaluated on "
        "ResolveLinks._find_matching_links and Link.matches_*; non-trivial = some link is named like the pair but is not the pair. samename_e2e: consumer "
        "of a member x of a name group and a partner y, links through the API; attached links, JoinSteps, joined rows"
    )
    eval_match(ctx, "samename_match", gen_match_cases(ctx, ctx.budget(2500, 40000)))
    tmp = tempfile.mkdtemp(prefix="c18sn_")
    ctx.extra["_tmp"] = tmp
    try:
        eval_e2e(ctx, "samename_e2e", gen_e2e_cases(ctx, ctx.budget(260, 4000)))
    finally:
        os.environ.pop(F.LOG_ENV, None)
        ctx.extra.pop("_tmp", None)
        shutil.rmtree(tmp, ignore_errors=True)


def search(ctx: Ctx, broken: List[str]) -> None:
    run(ctx)


def replay(ctx: Ctx, body: Dict[str, Any]) -> None:
    case = dict(body.get("case") or {})
    case.pop("pair", None)
    case.pop("what", None)
    if body.get("suite") == "samename_match" and "parents" in case:
        eval_match(ctx, "samename_match", [case])
    elif body.get("suite") == "samename_e2e" and "parents" in case:
        tmp = tempfile.mkdtemp(prefix="c18sn_")
        ctx.extra["_tmp"] = tmp
        try:
            eval_e2e(ctx, "samename_e2e", [case])
        finally:
            os.environ.pop(F.LOG_ENV, None)
            ctx.extra.pop("_tmp", None)
            shutil.rmtree(tmp, ignore_errors=True)
    else:
        run(ctx)
