"""C03 extension `alias` - result tables of a step must keep exactly that step's requested columns.

Input class (generated, not replayed): one compute framework whose native table is MUTABLE (pandas DataFrame, python-dict
list of dicts), SYNC and THREADING, run() and stream_run():

  * a root step whose requested features cover ALL columns that are in its frame at that moment (every root column the
    request needs is itself requested), directly followed by
  * 1-4 dependent feature groups on the same framework (a chain, or a tree in SYNC) that add their column(s) to the frame
    they were handed IN PLACE (`data[name] = ...; return data`, or - pandas - by returning only the new pd.Series), some
    of them multi-column (name~0..), some of them only intermediate (not requested),
  * x which subset is requested (cover / minimal cover / partial cover as control / random) x permutations of the request
    list x column_ordering in {None, alphabetical, request_order} x PYTHONHASHSEED (child interpreters).

Oracle (from the property text, evaluated on the column names of every returned table AFTER the whole run, and for
stream_run additionally at the moment a table is yielded): every requested feature is in exactly one returned table
(own column or its name~i columns), no returned column belongs to a feature that was not requested, no column twice,
'alphabetical' is sorted, 'request_order' follows the request; a well-formed request must not fail.  Across
permutations / hash seeds / SYNC vs THREADING / run vs stream_run of one request the returned columns must be equal.

Model: the same executions are fed to the main C03 driver (`C03.flags`: which planned features carry the requested flag;
`C03.tables`: per step selection of the flagged names from the columns the step's data had when the step finished) and
diffed - a table that grows after it was collected is a model/implementation disagreement as well.
"""
from __future__ import annotations

import itertools
import json
import os
import subprocess
import sys
import traceback
from concurrent.futures import ThreadPoolExecutor
from typing import Any, Dict, List, Optional, Sequence, Set, Tuple

from harness.corr import c03 as M  # read-only reuse: name pools, enc/dec, world_info/model_world (same world-spec shape), finding class names

SUITES = {"alias_e2e", "alias_independence"}
ASSUMPTIONS = [
    "alias_e2e: one mutable-table framework per run (pandas / python-dict), no links / filters / declared types / sub-column "
    "requests (those are the main C03 suites); THREADING only for requests whose needed steps form one dependency chain, because "
    "concurrently running steps on one shared frame are the C06 lost-update class, not a C03 question",
    "alias_e2e: the columns a step's data has are observed in the generated group's calculate_feature (snapshot of the names "
    "at that moment) and passed to the model; the judged column names of the returned tables are read after the run ended",
]

MARK = "@@C03ALIAS@@"
ORDERINGS: List[Optional[str]] = [None, "alphabetical", "request_order"]
RUN_TIMEOUT = 40.0

# ======================================================================================
# child side: real mloda only
# ======================================================================================

_WORLDS: Dict[int, Dict[str, Any]] = {}
_BUILT: Dict[int, Tuple[List[Any], Dict[int, List[Any]]]] = {}


def build_world(world: Dict[str, Any]) -> Tuple[List[Any], Dict[int, List[Any]]]:
    from harness import fgfactory as F

    fw = F.FW_SHORT[world["fw"]]
    if world["id"] not in _BUILT:
        obs: Dict[int, List[Any]] = {}
        classes: List[Any] = []
        for gi, g in enumerate(world["groups"]):

            def after(cls: Any, data: Any, features: Any, result: Any, gi: int = gi, obs: Dict[int, List[Any]] = obs) -> None:
                cols = F.columns_of(result)
                if not cols and hasattr(result, "name") and hasattr(result, "index"):  # a pd.Series: the framework adds it to the frame it holds
                    cols = F.columns_of(data) + [str(result.name)]
                obs.setdefault(gi, []).append([sorted(features.get_all_names()), list(cols)])

            if g["kind"] == "root":
                cls = F.make_group(F.uniq("A03r_"), root_data=g["data"], multi=g.get("multi") or None, frameworks={fw}, hooks={"after_calc": after})
            else:
                cls = F.make_group(F.uniq("A03d_"), derived=g["derived"], multi=g.get("multi") or None, frameworks={fw}, hooks={"after_calc": after}, inplace=g.get("inplace", False))  # fmt: skip
            classes.append(cls)
        _BUILT[world["id"]] = (classes, obs)
    classes, obs = _BUILT[world["id"]]
    obs.clear()
    return classes, obs


def ch_alias(c: Dict[str, Any]) -> Dict[str, Any]:
    from copy import deepcopy
    from harness import fgfactory as F
    from harness import schedlib as S
    from mloda.user import mloda
    from mloda.core.core.step.feature_group_step import FeatureGroupStep

    world = _WORLDS[c["wid"]]
    classes, obs = build_world(world)
    gidx = {cls: i for i, cls in enumerate(classes)}
    out: Dict[str, Any] = {}
    try:
        session = mloda.prepare(list(c["request"]), compute_frameworks={F.FW_SHORT[world["fw"]]}, plugin_collector=F.collector(set(classes)), column_ordering=c["order"])
    except Exception as e:
        return {"stage": "prepare", "err": M._err_enum(e) if isinstance(e, ValueError) else "other:" + type(e).__name__ + ":" + str(e)[:120]}
    out["entries"] = sorted(
        [gidx[cls], f.name.name, f.child_options is not None, bool(f.initial_requested_data)] for cls, fs in session.engine.feature_group_collection.items() for f in fs
    )
    plan = deepcopy(session.engine.execution_planner)  # the run works on such a copy; same construction -> same set layout
    out["steps"] = [
        {"g": gidx[st.feature_group], "flagged": [fn.name for fn in st.features.get_initial_requested_features()], "names": sorted(st.features.get_all_names())}
        for st in plan
        if isinstance(st, FeatureGroupStep)
    ]
    pm = {S.MODES[c["mode"]]}
    at_yield: List[List[str]] = []

    def go() -> List[Any]:
        if c.get("stream"):
            tabs = []
            for r in session.stream_run(parallelization_modes=pm):
                at_yield.append(F.columns_of(r))  # what the consumer of the stream sees when it gets the table
                tabs.append(r)
            return tabs
        return list(session.run(parallelization_modes=pm))

    done, res = S.guarded(go, RUN_TIMEOUT)
    if not done:
        out["stage"], out["err"] = "run", "timeout"
    elif isinstance(res, BaseException):
        out["stage"], out["err"] = "run", "other:" + type(res).__name__ + ":" + str(res)[-160:]
    else:
        out["tables"] = [F.columns_of(r) for r in res]  # read after the whole run: later steps have finished
        out["nrows"] = [len(next(iter(F.to_columns(r).values()), [])) for r in res]
        if c.get("stream"):
            out["at_yield"] = at_yield
    out["obs"] = {str(k): v for k, v in obs.items()}
    return out


def child_main() -> None:
    import logging
    import threading

    logging.disable(logging.CRITICAL)
    threading.excepthook = lambda args: None
    batch = json.load(sys.stdin)
    for w in batch["worlds"]:
        _WORLDS[w["id"]] = w
    outs = []
    for c in batch["cases"]:
        try:
            o = ch_alias(c)
        except BaseException:
            o = {"crash": traceback.format_exc()[-800:]}
        o["seed"] = os.environ.get("PYTHONHASHSEED")
        outs.append(o)
    sys.stdout.write("\n" + MARK + json.dumps(outs) + "\n")
    sys.stdout.flush()
    os._exit(0)  # a timed-out run may have left a (daemon) thread spinning


def run_children(batches: Dict[int, List[Dict[str, Any]]], worlds: List[Dict[str, Any]], workers: int) -> Dict[int, List[Dict[str, Any]]]:
    from harness.core import env_for_subprocess, VERIF

    def one(seed: int) -> Tuple[int, List[Dict[str, Any]]]:
        if not batches[seed]:
            return seed, []
        env = env_for_subprocess()
        env["PYTHONHASHSEED"] = str(seed)
        used = {c["wid"] for c in batches[seed]}
        p = subprocess.run(["/venv/bin/python", "-m", "harness.corr.c03_alias", "--child"], input=json.dumps({"worlds": [w for w in worlds if w["id"] in used], "cases": batches[seed]}),
                           cwd=str(VERIF), env=env, stdout=subprocess.PIPE, stderr=subprocess.PIPE, text=True, timeout=1500)  # fmt: skip
        if MARK not in p.stdout:
            raise RuntimeError(f"C03 alias child (seed {seed}) produced no result rc={p.returncode}\n{p.stderr[-1500:]}")
        return seed, json.loads(p.stdout.split(MARK, 1)[1])

    with ThreadPoolExecutor(max_workers=workers) as ex:
        return dict(ex.map(one, sorted(batches)))


# ======================================================================================
# generator
# ======================================================================================


def gen_world(rng: Any, wid: int, max_groups: int) -> Dict[str, Any]:
    """root group + 1..max_groups derived groups that (mostly) extend the frame they get in place.
    template chain: the first feature of every group depends on a feature of the group before it (strictly sequential steps)
    template tree:  parents are any earlier single-column features (sibling steps; SYNC only)"""
    fw = rng.choice(["pd", "pd", "pd", "py", "py"])
    template = rng.choice(["chain", "chain", "tree"])
    ngroups = rng.randint(1, max_groups)
    nroot = rng.randint(1, 4)
    nfeat = [2 if rng.random() < 0.3 else 1 for _ in range(ngroups)]
    names = M.pick_names(rng, nroot + sum(nfeat), with_prefix_pair=rng.random() < 0.6)
    rootcols, rest = names[:nroot], names[nroot:]
    nrows = rng.randint(1, 3)
    rmulti = {c: rng.randint(2, 3) for c in rootcols[1:] if rng.random() < 0.25}  # rootcols[0] stays a plain column (a parent is needed)
    groups: List[Dict[str, Any]] = [{"kind": "root", "data": {c: [rng.randint(1, 9) for _ in range(nrows)] for c in rootcols}, "multi": rmulti, "index": [], "nosup": False}]
    root_plain = [c for c in rootcols if c not in rmulti]
    avail = list(root_plain)  # single-column features of earlier groups
    prev_plain = list(root_plain)  # single-column features of the group before
    for gi in range(ngroups):
        der: Dict[str, Any] = {}
        dmulti: Dict[str, int] = {}
        mine: List[str] = []
        for k in range(nfeat[gi]):
            f = rest.pop()
            if template == "chain" and k == 0:
                parents = [rng.choice(prev_plain)]
            else:
                parents = [rng.choice(avail)]
            if rng.random() < 0.3:
                q = rng.choice(root_plain if template == "chain" else avail)
                if q not in parents:
                    parents.append(q)
            expr: Any = ["col", parents[0]]
            for q in parents[1:]:
                expr = [rng.choice(["add", "mul"]), expr, ["col", q]]
            if rng.random() < 0.6:
                expr = ["add", expr, ["const", rng.randint(1, 3)]]
            der[f] = {"parents": parents, "expr": expr}
            must_be_plain = template == "chain" and k == 0 and gi < ngroups - 1
            if not must_be_plain and rng.random() < 0.25:
                dmulti[f] = rng.randint(2, 3)
            else:
                mine.append(f)
        style: Any = rng.choice([True] * 7 + [False] * 2 + ["series"] * 2)
        groups.append({"kind": "derived", "derived": der, "multi": dmulti, "inplace": style})
        avail += mine
        prev_plain = mine or prev_plain
    return {"id": wid, "template": template, "fw": fw, "groups": groups, "links": [], "filters": [], "typed": False}


class Facts:
    """what the oracle needs, computed from the spec alone"""

    def __init__(self, world: Dict[str, Any]):
        self.owner: Dict[str, int] = {}
        self.multi: Dict[str, int] = {}
        self.parents: Dict[str, List[str]] = {}
        self.style: Dict[int, Any] = {}
        for gi, g in enumerate(world["groups"]):
            for n in g["data"] if g["kind"] == "root" else g["derived"]:
                self.owner[n] = gi
            for n, k in (g.get("multi") or {}).items():
                self.multi[n] = k
            if g["kind"] == "derived":
                self.style[gi] = g.get("inplace", False)
                for n, d in g["derived"].items():
                    self.parents[n] = list(d["parents"])
        self.root = [n for n, gi in self.owner.items() if gi == 0]
        self.derived = [n for n, gi in self.owner.items() if gi != 0]
        self.fw = world["fw"]

    def cols(self, r: str) -> List[str]:
        return [f"{r}~{i}" for i in range(self.multi[r])] if r in self.multi else [r]

    def closure(self, request: Sequence[str]) -> Set[str]:
        seen: Set[str] = set()
        todo = list(request)
        while todo:
            n = todo.pop()
            if n not in seen:
                seen.add(n)
                todo += self.parents.get(n, [])
        return seen

    def sequential(self, request: Sequence[str]) -> bool:
        """the steps the request needs form one dependency chain: every needed group has a needed feature with a parent in the
        needed group before it, so no two steps can be open at the same time in THREADING (steps that overlap on one shared
        frame are the C06 lost-update class)"""
        clo = self.closure(request)
        needed = sorted({self.owner[n] for n in clo})
        for a, b in zip(needed, needed[1:]):
            if not any(self.owner[p] == a for n in clo if self.owner[n] == b for p in self.parents.get(n, [])):
                return False
        return True

    def shape(self, request: Sequence[str]) -> Dict[str, Any]:
        """is the request in the input class?  (root step requested completely, in-place steps after it)"""
        clo = self.closure(request)
        need_root = {n for n in clo if self.owner[n] == 0}
        later = sorted({self.owner[n] for n in clo if self.owner[n] != 0})
        mutating = [g for g in later if self.style[g]]  # True / "series": the frame the step was handed is extended itself
        return {
            "cover": bool(need_root) and need_root <= set(request),
            "later_steps": len(later),
            "inplace_steps": len(mutating),
            "intermediate": len([n for n in clo if n not in request]),
            "multi": any(n in self.multi for n in clo),
        }


def gen_requests(rng: Any, fx: Facts, nrandom: int) -> List[Tuple[str, ...]]:
    reqs: List[Tuple[str, ...]] = []
    der = list(fx.derived)
    last = der[-1]
    reqs.append(tuple(fx.root + [last]))  # whole root + the end of the chain: everything in between is intermediate
    reqs.append(tuple(fx.root + der))  # everything
    for _ in range(nrandom):
        r = rng.random()
        d = rng.sample(der, rng.randint(1, len(der)))
        need_root = sorted(n for n in fx.closure(d) if fx.owner[n] == 0)
        if r < 0.4:  # minimal cover: exactly the root columns the derived features need
            reqs.append(tuple(need_root + d))
        elif r < 0.6:  # cover + further root columns
            reqs.append(tuple(sorted(set(need_root) | set(rng.sample(fx.root, rng.randint(1, len(fx.root))))) + d))
        elif r < 0.8:  # control: at least one needed root column is not requested
            keep = rng.sample(need_root, rng.randint(0, len(need_root) - 1))
            reqs.append(tuple(keep + d))
        else:
            allf = fx.root + der
            reqs.append(tuple(rng.sample(allf, rng.randint(1, len(allf)))))
    out, seen = [], set()
    for r_ in reqs:
        if frozenset(r_) not in seen and len(set(r_)) == len(r_):
            seen.add(frozenset(r_))
            out.append(r_)
    return out


# ======================================================================================
# oracle (from the property text)
# ======================================================================================


def oracle_tables(fx: Facts, request: List[str], order: Optional[str], tables: List[List[str]], when: str) -> List[Dict[str, Any]]:
    v: List[Dict[str, Any]] = []
    allowed: Set[str] = set()
    for r in request:
        allowed |= set(fx.cols(r))
    for r in request:
        exp = fx.cols(r)
        with_all = [i for i, t in enumerate(tables) if all(c in t for c in exp)]
        with_any = [i for i, t in enumerate(tables) if any(c in t for c in exp)]
        if when == "end" and (len(with_all) != 1 or with_any != with_all):
            v.append({"kind": "missing" if not with_any else "not-exactly-one",
                      "what": f"requested feature {r!r} (columns {exp}) is in returned tables {with_any} (complete in {with_all}); must be in exactly one; tables={tables}"})  # fmt: skip
        if when == "yield" and len(with_any) > 1:
            v.append({"kind": "not-exactly-one", "what": f"requested feature {r!r} was yielded in tables {with_any}; tables so far={tables}"})
    for ti, t in enumerate(tables):
        extra = [c for c in t if c not in allowed]
        if extra:
            owners = sorted({c.split("~")[0] for c in extra})
            v.append({"kind": "foreign", "what": f"returned table {ti} {t} ({when}) contains columns {extra} of features {owners} that were not requested (request {request})"})
        if len(set(t)) != len(t):
            v.append({"kind": "duplicate", "what": f"returned table {ti} ({when}) contains a column twice: {t}"})
        if order == "alphabetical" and t != sorted(t):
            v.append({"kind": "unsorted", "what": f"column_ordering='alphabetical' but returned table {ti} ({when}) has columns {t}"})
        if order == "request_order":
            idx = [[i for i, r in enumerate(request) if c in fx.cols(r)] for c in t]
            idx1 = [i[0] for i in idx if i]
            if idx1 != sorted(idx1):
                v.append({"kind": "not-request-order", "nfeat": len(set(idx1)), "what": f"column_ordering='request_order', request {request}, but returned table {ti} ({when}) has columns {t}"})
    return v


def finding_class(order: Optional[str], viol: Dict[str, Any], model_agrees: bool) -> Optional[str]:
    """only the known hash-seed dependence of request_order (>= 2 requested features selected from one step) is a known class here"""
    if model_agrees and viol["kind"] == "not-request-order" and order == "request_order" and viol.get("nfeat", 0) >= 2:
        return M.CLS_REQORDER
    return None


# ======================================================================================
# parent side
# ======================================================================================


def execute(ctx: Any, worlds: List[Dict[str, Any]], batches: Dict[int, List[Dict[str, Any]]]) -> None:
    """ship the cases, ask the model, diff, judge"""
    seeds = sorted(batches)
    wmap = {w["id"]: w for w in worlds}
    facts = {w["id"]: Facts(w) for w in worlds}
    infos = {w["id"]: M.world_info(w) for w in worlds}
    results = run_children(batches, worlds, workers=min(len(seeds), ctx.budget(6, 12)))

    reqs: List[Dict[str, Any]] = []
    slots: List[Tuple[int, int, str]] = []
    for s in seeds:
        for i, (c, o) in enumerate(zip(batches[s], results[s])):
            if "crash" in o:
                raise RuntimeError("C03 alias child crashed on case " + json.dumps(c)[:300] + "\n" + o["crash"])
            mw = M.model_world(wmap[c["wid"]], infos[c["wid"]])
            reqs.append({"op": "C03.flags", **mw, "request": M.encs(c["request"]), "fuel": 16, "order": c["order"]})
            slots.append((s, i, "flags"))
            if "steps" in o:
                steps = []
                for st in o["steps"]:
                    rec = [r for r in o["obs"].get(str(st["g"]), []) if r[0] == st["names"]]
                    steps.append({"flagged": M.encs(st["flagged"]), "cols": M.encs(rec[0][1] if rec else [])})
                reqs.append({"op": "C03.tables", "fw": wmap[c["wid"]]["fw"], "order": c["order"], "steps": steps})
                slots.append((s, i, "tables"))
    model: Dict[Tuple[int, int, str], Any] = dict(zip(slots, ctx.lean.batch(reqs))) if ctx.lean is not None else {}

    groups: Dict[Tuple[int, frozenset, Optional[str]], List[Tuple[Dict[str, Any], Any]]] = {}
    for s in seeds:
        for i, (c, o) in enumerate(zip(batches[s], results[s])):
            fx = facts[c["wid"]]
            world = wmap[c["wid"]]
            request, order = list(c["request"]), c["order"]
            sh = fx.shape(request)
            in_class = sh["cover"] and sh["inplace_steps"] >= 1
            full = dict(c, world=world, hashseed=o["seed"])
            ctx.case("alias_e2e", [world["id"], request, order, c["mode"], bool(c.get("stream")), o["seed"], world["groups"]], in_class,
                     alias_fw=world["fw"], alias_mode=c["mode"] + ("+stream" if c.get("stream") else ""), alias_ordering=str(order), alias_template=world["template"],
                     alias_root_fully_requested=sh["cover"], alias_inplace_steps_after_root=sh["inplace_steps"], alias_in_class=in_class, alias_class_by_fw_mode=f"{world['fw']}/{c['mode']}/{'in-class' if in_class else 'control'}",
                     alias_intermediate_features=min(sh["intermediate"], 3), alias_multi_column=sh["multi"], alias_nreq=len(request))  # fmt: skip
            # -- model vs implementation
            model_agrees = bool(model)
            if model:
                mf = model[(s, i, "flags")]
                if o.get("stage") == "prepare":
                    if mf.get("err") != o["err"]:
                        ctx.disagree("alias_e2e", full, o, mf)
                        model_agrees = False
                elif "ok" not in mf:
                    ctx.disagree("alias_e2e", full, o.get("entries"), mf)
                    model_agrees = False
                else:
                    ment = sorted([e[0], M.dec(e[1]), e[2], e[3]] for e in mf["ok"])
                    if ment != o["entries"]:
                        ctx.disagree("alias_e2e", full, o["entries"], ment)
                        model_agrees = False
                    mt = model.get((s, i, "tables"))
                    if "tables" in o:
                        as_set = order is None
                        if mt is None or "ok" not in mt or M.canon_tables(o["tables"], as_set) != M.canon_tables([M.decs(t) for t in mt["ok"]], as_set):
                            ctx.disagree("alias_e2e", full, o["tables"], [M.decs(t) for t in mt["ok"]] if (mt and "ok" in mt) else mt)
                            model_agrees = False
                    elif mt is not None and "ok" in mt:
                        ctx.disagree("alias_e2e", full, o.get("err"), mt)
                        model_agrees = False
            # -- oracle
            if "tables" not in o:
                ctx.violation("alias_e2e", full, f"well-formed request {request} (column_ordering={order!r}, {c['mode']}) failed: {o.get('err')}", o.get("err"), "property C03")
                outcome: Any = "error"
            else:
                viols = oracle_tables(fx, request, order, o["tables"], "end")
                if "at_yield" in o:
                    viols += oracle_tables(fx, request, order, o["at_yield"], "yield")
                for vv in viols:
                    ctx.violation("alias_e2e", full, vv["what"] + f"  [fw={world['fw']} mode={c['mode']} column_ordering={order!r}]", o["tables"], "property C03",
                                  finding_class=finding_class(order, vv, model_agrees))  # fmt: skip
                outcome = sorted(c2 for t in o["tables"] for c2 in t)
            groups.setdefault((world["id"], frozenset(request), order), []).append((full, outcome))

    # ---- the returned columns do not depend on request order / hash seed / SYNC vs THREADING / run vs stream_run ----
    for (wid, sub, order), runs in groups.items():
        kinds = {(json.dumps(r[0]["request"]), r[0]["mode"], bool(r[0].get("stream")), r[0]["hashseed"]) for r in runs}
        ctx.case("alias_independence", [wid, sorted(sub), order], len(kinds) >= 2)
        outs_ = {json.dumps(r[1]) for r in runs}
        if len(outs_) > 1:
            a = runs[0]
            b = next(r for r in runs if json.dumps(r[1]) != json.dumps(a[1]))
            ctx.violation("alias_independence", {"world": wmap[wid], "order": order, "a": {k: a[0][k] for k in ("request", "mode", "hashseed")}, "b": {k: b[0][k] for k in ("request", "mode", "hashseed")}},
                          f"same requested features, different request order / hash seed / mode, different returned columns: {a[0]['request']} {a[0]['mode']} -> {a[1]} but {b[0]['request']} {b[0]['mode']} -> {b[1]}", a[1], b[1])  # fmt: skip


def run(ctx: Any) -> None:
    rng = ctx.rng
    ctx.extra["rule"] = str(ctx.extra.get("rule", "")) + (
        " | alias_e2e: generated pandas / python-dict worlds (root group + 1-4 derived groups that extend the frame they are handed in place, as a pd.Series or by "
        "copy; single- and multi-column features; chain and tree shape) x request subsets (whole root requested + chain end / everything / minimal cover / partial "
        "cover / random) x permutations x column_ordering x SYNC/THREADING x run/stream_run x PYTHONHASHSEED, real runs judged after the run on the column names of every "
        "returned table and compared with the C03 model; non-trivial = the root step is requested completely and >= 1 in-place step follows it"
    )
    seeds = list(range(ctx.budget(6, 10)))
    batches: Dict[int, List[Dict[str, Any]]] = {s: [] for s in seeds}
    worlds: List[Dict[str, Any]] = []
    base = 100000  # ids disjoint from the main module's worlds (the evidence samples show both)
    nperm = 2 if ctx.quick else 3
    for k in range(ctx.budget(36, 160)):
        w = gen_world(rng, base + k, 3 if ctx.quick else 4)
        worlds.append(w)
        fx = Facts(w)
        for req in gen_requests(rng, fx, ctx.budget(3, 5)):
            perms = [tuple(sorted(req))]
            allp = list(itertools.permutations(req)) if len(req) <= 5 else []
            for _ in range(nperm):
                p = tuple(rng.choice(allp)) if allp else tuple(rng.sample(list(req), len(req)))
                if p not in perms:
                    perms.append(p)
            for order in ORDERINGS:
                for perm in perms:
                    modes = ["sync"] + (["thread"] if fx.sequential(perm) and rng.random() < 0.55 else [])
                    for mode in modes:
                        c = {"wid": w["id"], "request": list(perm), "order": order, "mode": mode, "stream": rng.random() < 0.2}
                        for seed in rng.sample(seeds, 1 if (ctx.quick and rng.random() < 0.6) else 2):
                            batches[seed].append(c)
    execute(ctx, worlds, batches)


def search(ctx: Any, broken: List[str]) -> None:
    run(ctx)


def replay(ctx: Any, body: Dict[str, Any]) -> None:
    """re-run the recorded case (its world is part of the case) under several hash seeds, in both modes where the world allows it"""
    case = body.get("case") or {}
    world = case.get("world")
    request = case.get("request") or (case.get("a") or {}).get("request")
    if not world or not request:
        run(ctx)
        return
    order = case.get("order")
    seeds = list(range(4))
    batches: Dict[int, List[Dict[str, Any]]] = {s: [] for s in seeds}
    for s in seeds:
        for mode in ["sync"] + (["thread"] if Facts(world).sequential(request) else []):
            for stream in (False, True):
                batches[s].append({"wid": world["id"], "request": list(request), "order": order, "mode": mode, "stream": stream})
    execute(ctx, [world], batches)


if __name__ == "__main__":
    if "--child" in sys.argv:
        child_main()
